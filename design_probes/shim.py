import warnings; warnings.filterwarnings("ignore")
import numpy as np, pystencils as ps
from pystencils.defaults import DEFAULTS
from pystencils.sympyextensions.typed_sympy import TypedSymbol, DynamicType
from pystencils.jit import CpuJit
DEFAULTS.spatial_counter_names = ("ctr_0","ctr_1","ctr_2","ctr_3")
DEFAULTS.spatial_counters = tuple(TypedSymbol(f"ctr_{i}", DynamicType.INDEX_TYPE) for i in range(4))
import sopht.utils.pyst_kernel_config as pk
_jit = CpuJit()
class _PsProxy:
    def __init__(self, real): self._real = real
    def __getattr__(self, n): return getattr(self._real, n)
    def CreateKernelConfig(self, **kw):
        kw.pop("default_number_float", None)
        kw.setdefault("jit", _jit)
        return self._real.CreateKernelConfig(**kw)
pk.ps = _PsProxy(ps)
