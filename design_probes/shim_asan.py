import warnings; warnings.filterwarnings("ignore")
import numpy as np, pystencils as ps
from pystencils.defaults import DEFAULTS
from pystencils.sympyextensions.typed_sympy import TypedSymbol, DynamicType
from pystencils.jit import CpuJit
DEFAULTS.spatial_counter_names = ("ctr_0","ctr_1","ctr_2","ctr_3")
DEFAULTS.spatial_counters = tuple(TypedSymbol(f"ctr_{i}", DynamicType.INDEX_TYPE) for i in range(4))
import sopht.utils.pyst_kernel_config as pk
from pystencils.jit.cpu.compiler_info import GccInfo
_jit = CpuJit(compiler_info=GccInfo(optlevel="1", extra_cxxflags=["-fsanitize=address,undefined","-fno-sanitize-recover=all","-fno-omit-frame-pointer","-g"]), objcache="/tmp/exp/asan_cache")
class _PsProxy:
    def __init__(self, real): self._real = real
    def __getattr__(self, n): return getattr(self._real, n)
    def CreateKernelConfig(self, **kw):
        kw.pop("default_number_float", None)
        kw.setdefault("jit", _jit)
        return self._real.CreateKernelConfig(**kw)
pk.ps = _PsProxy(ps)
