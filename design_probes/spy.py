import shim, numpy as np, pystencils as ps, collections
REG=[]; EVENTS=collections.Counter(); LEGAL=collections.Counter(); VIOL=[]
_orig=ps.create_kernel
class MK:
    def __init__(self, real, info, kid): self.real=real; self.info=info; self.kid=kid
    def __call__(self, **kw):
        arrs={k:v for k,v in kw.items() if isinstance(v,np.ndarray)}
        writes=self.info['writes']; acc=self.info['acc']
        EVENTS[self.kid]+=1
        for w in writes:
            for r,a in arrs.items():
                if r==w: continue
                if np.shares_memory(arrs[w],a):
                    same = (arrs[w].__array_interface__['data'][0]==a.__array_interface__['data'][0] and arrs[w].shape==a.shape and arrs[w].strides==a.strides)
                    ok = same and acc[r]<=writes[w] and r not in writes
                    if ok: LEGAL[(self.info['gen'],w,r)]+=1
                    else: VIOL.append((self.info['gen'],w,r,same,acc[r],writes[w]))
        return self.real(**kw)
class KP:
    def __init__(self,k,info,kid): self.k=k; self.info=info; self.kid=kid
    def compile(self): return MK(self.k.compile(), self.info, self.kid)
    def __getattr__(self,n): return getattr(self.k,n)
def spy(assignments,*a,**kw):
    import traceback
    k=_orig(assignments,*a,**kw)
    asg=list(assignments)
    writes=collections.defaultdict(set); acc=collections.defaultdict(set)
    for x in asg:
        l=x.lhs; writes[l.field.name].add((tuple(l.offsets),tuple(l.index)))
        for r in x.rhs.atoms(ps.Field.Access): acc[r.field.name].add((tuple(r.offsets),tuple(r.index)))
    # M1
    for f,ws in writes.items():
        if not acc[f]<=ws or len(ws)!=1: VIOL.append(("M1",f,ws,acc[f]))
    gen=[fr.name for fr in traceback.extract_stack() if fr.name.startswith("gen_")]
    info=dict(writes=dict(writes),acc=acc,gen=gen[-1] if gen else "?")
    REG.append(info)
    return KP(k,info,len(REG)-1)
ps.create_kernel=spy
