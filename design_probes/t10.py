import shim, numpy as np, sys
from scipy.signal import convolve
import sopht.numeric.eulerian_grid_ops as spne
def ref2d(f, dx, xr):
    ny,nx=f.shape
    dj=np.arange(-(ny-1),ny)[:,None]; di=np.arange(-(nx-1),nx)[None,:]
    r=dx*np.sqrt(dj**2+di**2.0)
    with np.errstate(divide='ignore'): G=-np.log(r)/(2*np.pi)
    G[ny-1,nx-1]=-(2*np.log(dx/np.sqrt(np.pi))-1)/(4*np.pi)
    full=convolve(f.astype(np.float64),G,mode='full',method='direct')
    bound=convolve(np.abs(f).astype(np.float64),np.abs(G),mode='full',method='direct')
    return full[ny-1:2*ny-1,nx-1:2*nx-1]*dx*dx, bound[ny-1:2*ny-1,nx-1:2*nx-1]*dx*dx
rng=np.random.default_rng(1)
for real_t in (np.float64,np.float32):
  for (ny,nx,xr) in [(7,12,1.0),(16,16,1.0),(9,5,6.0),(21,30,0.37)]:
    s=spne.UnboundedPoissonSolverPYFFTW2D(grid_size_y=ny,grid_size_x=nx,x_range=xr,num_threads=2,real_t=real_t)
    f=rng.standard_normal((ny,nx)).astype(real_t); out=np.zeros_like(f)
    s.solve(solution_field=out,rhs_field=f)
    ref,b=ref2d(f,float(s.dx),xr)
    eps=np.finfo(real_t).eps
    print(real_t.__name__,ny,nx,xr,"max err/eps/bound", (np.abs(out-ref)/(eps*b)).max(), "rel", np.abs(out-ref).max()/np.abs(ref).max())
