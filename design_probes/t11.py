import shim, numpy as np
import sopht.numeric.eulerian_grid_ops as spne
def negLapN(u, dx):
    up = np.pad(u, 1, mode='edge')
    out = np.zeros_like(u, dtype=np.float64)
    d = u.ndim
    for ax in range(d):
        sl_p=[slice(1,-1)]*d; sl_m=[slice(1,-1)]*d
        sl_p[ax]=slice(2,None); sl_m[ax]=slice(None,-2)
        out += 2*up[tuple([slice(1,-1)]*d)] - up[tuple(sl_p)] - up[tuple(sl_m)]
    return out/dx**2
rng=np.random.default_rng(0)
for real_t in (np.float64,np.float32):
  for shape in [(2,2,2),(3,5,4),(8,8,8),(6,17,11),(20,24,33)]:
    dx=real_t(1.0/shape[-1])
    s=spne.FastDiagPoissonSolver3D(*shape, dx=dx, real_t=real_t)
    f=rng.standard_normal(shape).astype(real_t); u=np.full(shape, 7, dtype=real_t)
    s.solve(solution_field=u, rhs_field=f)
    res = negLapN(u.astype(np.float64), float(dx)) - (f.astype(np.float64)-f.astype(np.float64).mean())
    eps=np.finfo(real_t).eps
    print(real_t.__name__, shape, "res/|f|/eps", np.abs(res).max()/np.abs(f).max()/eps, "mean u / |u| / eps", abs(u.astype(np.float64).mean())/np.abs(u).max()/eps, u.dtype, s.spectral_field_buffer.dtype)
