"""IO probes: N == dim misclassification (F3) and grid-only registration (F4). Run in an empty temp dir."""
import warnings; warnings.filterwarnings("ignore")
import numpy as np, h5py
import sopht.utils as spu
for dim in (2,3):
    for N in (1,2,3,4):
        io = spu.IO(dim=dim)
        grid = np.random.rand(dim,N); vec=np.random.rand(dim,N); sc=np.random.rand(N)
        try:
            io.add_as_lagrangian_fields_for_io(lagrangian_grid=grid, lagrangian_grid_name="g", vec=vec, sc=sc)
            io.save("a.h5", time=1.5)
            with h5py.File("a.h5") as f:
                names=[]; f.visit(names.append)
                vs = [n for n in names if n.endswith("/vec")]
                print(dim,N, io.lagrangian_fields_type, vs, f[vs[0]].shape, "grid", f["Lagrangian/g/Grid"].shape)
        except Exception as e:
            print(dim,N,"EXC",type(e).__name__,e)
io = spu.IO(dim=2); g=np.random.rand(2,5)
io.add_as_lagrangian_fields_for_io(lagrangian_grid=g, lagrangian_grid_name="g")
io.save("b.h5", time=2.0)
io2 = spu.IO(dim=2); g2=np.zeros((2,5))
io2.add_as_lagrangian_fields_for_io(lagrangian_grid=g2, lagrangian_grid_name="g")
t=io2.load("b.h5"); print("grid-only restored:", np.array_equal(g,g2), t)
io3 = spu.IO(dim=2); g3=np.zeros((2,5))
io3.add_as_lagrangian_fields_for_io(lagrangian_grid=g3, lagrangian_grid_name="zzz")
print("missing grid, no fields:", io3.load("b.h5"))
