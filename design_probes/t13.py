import shim, numpy as np, sys, hashlib
import sopht.numeric.eulerian_grid_ops as spne
rng=np.random.default_rng(1)
f=rng.standard_normal((24,36)); f3=rng.standard_normal((10,12,14))
for nt in (1,2,4,7):
  hs=[]
  for rep in range(3):
    s=spne.UnboundedPoissonSolverPYFFTW2D(grid_size_y=24,grid_size_x=36,x_range=1.0,num_threads=nt,real_t=np.float64)
    out=np.zeros_like(f); s.solve(solution_field=out,rhs_field=f)
    s3=spne.UnboundedPoissonSolverPYFFTW3D(10,12,14,x_range=1.0,num_threads=nt,real_t=np.float64)
    o3=np.zeros_like(f3); s3.solve(solution_field=o3,rhs_field=f3)
    hs.append((hashlib.md5(out.tobytes()).hexdigest()[:8], hashlib.md5(o3.tobytes()).hexdigest()[:8]))
  print(nt,hs)
