import shim, numpy as np, hashlib
import sopht.numeric.eulerian_grid_ops as spne
rng=np.random.default_rng(3)
for real_t in (np.float32, np.float64):
    f=rng.standard_normal((37,53)).astype(real_t); v=rng.standard_normal((2,37,53)).astype(real_t)
    f3=rng.standard_normal((11,13,17)).astype(real_t); v3=rng.standard_normal((3,11,13,17)).astype(real_t)
    res={}
    for nt in (False,1,2,3,5,16):
        k=spne.gen_advection_timestep_euler_forward_conservative_eno3_pyst_kernel_2d(real_t=real_t,num_threads=nt)
        a=f.copy(); fl=np.ones_like(a); k(field=a,advection_flux=fl,velocity=v,dt_by_dx=real_t(0.37))
        d=spne.gen_diffusion_timestep_euler_forward_pyst_kernel_3d(real_t=real_t,num_threads=nt,field_type="vector")
        b=v3.copy(); fl3=np.ones_like(f3); d(vector_field=b,diffusion_flux=fl3,nu_dt_by_dx2=real_t(0.11))
        c=spne.gen_curl_pyst_kernel_3d(real_t=real_t,num_threads=nt); cu=np.zeros_like(v3); c(curl=cu,field=v3,prefactor=real_t(0.7))
        res[nt]=tuple(hashlib.md5(x.tobytes()).hexdigest()[:6] for x in (a,b,cu))
    print(real_t.__name__, res)
