import shim, numpy as np, sys
from scipy.signal import convolve
import sopht.simulator as sps
def eno3_flux_div(f, v, axis):
    # returns Ff(i)-Fb(i) on interior [2:-2] along all axes
    f=np.moveaxis(f,axis,-1); v=np.moveaxis(v,axis,-1)
    g=f*v
    n=f.shape[-1]
    # face flux at i+1/2 for i in 1..n-3 (needs i-1..i+2)
    i=np.arange(1,n-2)
    up = v[...,i] > -v[...,i+1]
    F = np.where(up, (1/3)*g[...,i+1]+(5/6)*g[...,i]-(1/6)*g[...,i-1], (1/3)*g[...,i]+(5/6)*g[...,i+1]-(1/6)*g[...,i+2])
    # F[k] is face (k+1)+1/2 ; cell c in 2..n-3: Ffront(c)=F[c-1], Fback(c)=F[c-2]
    out=np.zeros_like(f)
    c=np.arange(2,n-2)
    out[...,c]=F[...,c-1]-F[...,c-2]
    return np.moveaxis(out,-1,axis)
def ref_step_2d(w, u, forcing, dt, dx, nu, rho, width, xr, fs, with_forcing, with_fs):
    w=w.astype(np.float64).copy(); u=u.astype(np.float64); ny,nx=w.shape
    if with_forcing:
        fx,fy=forcing.astype(np.float64)
        w[1:-1,1:-1]+= dt/(2*dx*rho)*(fy[1:-1,2:]-fy[1:-1,:-2]-fx[2:,1:-1]+fx[:-2,1:-1])
    flux=np.zeros_like(w)
    I=(slice(2,-2),slice(2,-2))
    flux[I] = -(dt/dx)*(eno3_flux_div(w,u[0],1)[I]+eno3_flux_div(w,u[1],0)[I])
    w+=flux
    d=np.zeros_like(w)
    d[1:-1,1:-1]=nu*dt/dx/dx*(w[1:-1,2:]+w[1:-1,:-2]+w[2:,1:-1]+w[:-2,1:-1]-4*w[1:-1,1:-1])
    w+=d
    if width>0:
        x=(np.arange(nx)+0.5)*dx; y=(np.arange(ny)+0.5)*dx
        sp=(np.pi/2)/(width*dx)
        w[:,:width]=w[:,width-1:width]; w[:,-width:]=w[:,-width:nx-width+1]
        w[:,:width]*=np.sin(sp*(x[:width]-x[0])); w[:,-width:]*=np.sin(sp*(x[-1]-x[-width:]))
        w[:width,:]=w[width-1:width,:]; w[-width:,:]=w[-width:ny-width+1,:]
        w[:width,:]*=np.sin(sp*(y[:width]-y[0]))[:,None]; w[-width:,:]*=np.sin(sp*(y[-1]-y[-width:]))[:,None]
    dj=np.arange(-(ny-1),ny)[:,None]; di=np.arange(-(nx-1),nx)[None,:]
    r=dx*np.sqrt(dj**2+di**2.0)
    with np.errstate(divide='ignore'): G=-np.log(r)/(2*np.pi)
    G[ny-1,nx-1]=-(2*np.log(dx/np.sqrt(np.pi))-1)/(4*np.pi)
    psi=convolve(w,G,mode='full',method='fft')[ny-1:2*ny-1,nx-1:2*nx-1]*dx*dx
    vel=np.zeros((2,ny,nx))
    vel[0,1:-1,1:-1]=(psi[2:,1:-1]-psi[:-2,1:-1])*0.5/dx
    vel[1,1:-1,1:-1]=-(psi[1:-1,2:]-psi[1:-1,:-2])*0.5/dx
    if with_fs: vel+=np.asarray(fs).reshape(2,1,1)
    return w,vel,psi
rng=np.random.default_rng(int(sys.argv[1]) if len(sys.argv)>1 else 0)
for real_t in (np.float64,np.float32):
  for (ny,nx,width) in [(14,19,0),(16,23,2),(22,17,4)]:
    xr=1.3; nu=3e-2; rho=1.7; dt=2e-3
    s=sps.UnboundedNavierStokesFlowSimulator2D(grid_size=(ny,nx),x_range=xr,kinematic_viscosity=nu,real_t=real_t,num_threads=2,with_forcing=True,with_free_stream_flow=True,flow_density=rho,penalty_zone_width=width,time=0.25)
    s.vorticity_field[...]=rng.standard_normal((ny,nx)); s.velocity_field[...]=rng.standard_normal((2,ny,nx)); s.eul_grid_forcing_field[...]=rng.standard_normal((2,ny,nx))
    w0=s.vorticity_field.copy(); u0=s.velocity_field.copy(); f0=s.eul_grid_forcing_field.copy()
    fs=np.array([0.7,-0.4])
    s.time_step(dt=dt, free_stream_velocity=fs)
    # reference uses the sim's real_t-rounded scalars? use exact documented values in float64
    w,vel,psi=ref_step_2d(w0,u0,f0,dt,float(s.dx),nu,rho,width,xr,fs,True,True)
    eps=np.finfo(real_t).eps
    print(real_t.__name__,(ny,nx,width),"w err/eps",np.abs(s.vorticity_field-w).max()/eps/np.abs(w).max(),"u err/eps",np.abs(s.velocity_field-vel).max()/eps/np.abs(vel).max(), "time", s.time==0.25+dt, "forcing0", not s.eul_grid_forcing_field.any())
