import shim, numpy as np
import sopht.numeric.eulerian_grid_ops as spne
rng=np.random.default_rng(0)
n=(9,10,11); w=rng.standard_normal((3,*n)); u=rng.standard_normal((3,*n)); h=0.05
flux=spne.gen_vorticity_stretching_flux_pyst_kernel_3d(real_t=np.float64,num_threads=2)
def A(x):
    out=np.zeros_like(x); flux(vorticity_stretching_flux_field=out, vorticity_field=x, velocity_field=u, prefactor=h); return out
mid=np.zeros_like(w)
rk=spne.gen_vorticity_stretching_timestep_ssprk3_pyst_kernel_3d(real_t=np.float64,midstep_buffer_vector_field=mid,num_threads=2)
ef=spne.gen_vorticity_stretching_timestep_euler_forward_pyst_kernel_3d(real_t=np.float64,num_threads=2)
x=w.copy(); fl=np.ones_like(w); rk(vorticity_field=x,velocity_field=u,vorticity_stretching_flux_field=fl,dt_by_2_dx=h)
a1=A(w); a2=A(a1); a3=A(a2)
nominal=w+a1+a2/2+a3/6
impl=w+2*a1/3+a2/3+a3/12
print("vs nominal", np.abs(x-nominal).max(), "vs (1+2A/3+A^2/3+A^3/12)", np.abs(x-impl).max())
y=w.copy(); ef(vorticity_field=y,velocity_field=u,vorticity_stretching_flux_field=fl,dt_by_2_dx=h); print("euler", np.abs(y-(w+a1)).max())
