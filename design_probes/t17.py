import shim, numpy as np, time
import sopht.simulator as sps
def lo_w(x,y,xc,yc,nu,gam,t): return gam/(4*np.pi*nu*t)*np.exp(-((x-xc)**2+(y-yc)**2)/(4*nu*t))
def lo_u(x,y,xc,yc,nu,gam,t):
    r=np.sqrt((x-xc)**2+(y-yc)**2); vt=gam/(2*np.pi*r)*(1-np.exp(-r**2/(4*nu*t)))
    return np.array([-vt*(y-yc)/r, vt*(x-xc)/r])
def run(n, real_t, nu=1e-3, U=(1.0,0.6), xc=0.35, yc=0.4, t0=1.0, T=0.15, cfl=0.1):
    gam=4*np.pi*nu*t0
    s=sps.UnboundedNavierStokesFlowSimulator2D(grid_size=(n,n),x_range=1.0,kinematic_viscosity=nu,real_t=real_t,num_threads=4,with_free_stream_flow=True,time=t0,cfl=cfl)
    X,Y=s.position_field
    s.vorticity_field[...]=lo_w(X,Y,xc,yc,nu,gam,t0); s.velocity_field[...]=lo_u(X,Y,xc,yc,nu,gam,t0)+np.array(U).reshape(2,1,1)
    fs=np.array(U); nsteps=0
    while s.time < t0+T-1e-12:
        dt=min(s.compute_stable_timestep(), t0+T-s.time); s.time_step(dt=dt,free_stream_velocity=fs); nsteps+=1
    t=s.time; ex=lo_w(X,Y,xc+U[0]*(t-t0),yc+U[1]*(t-t0),nu,gam,t)
    return np.linalg.norm(s.vorticity_field-ex)*s.dx, np.linalg.norm(ex)*s.dx, nsteps
for real_t in (np.float64,np.float32):
    prev=None
    for n in (32,48,64,96,128):
        t=time.time(); e,nrm,ns=run(n,real_t); 
        print(real_t.__name__, n, "L2 err", e, "rel", e/nrm, "ratio", (prev/e if prev else None), "steps", ns, "wall", round(time.time()-t,1)); prev=e
