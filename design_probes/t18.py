import shim, numpy as np, time
exec(open("t17.py").read().split("for real_t in")[0])
for U in [(1.0,0.6),(0.0,0.0)]:
  for n in (64,128):
    for cfl in (0.1,0.05,0.025):
        e,nrm,ns=run(n,np.float64,U=U,cfl=cfl); print("U",U,"n",n,"cfl",cfl,"rel err",e/nrm,"steps",ns)
