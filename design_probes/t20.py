import spy, numpy as np
import sopht.simulator as sps, sopht.numeric.eulerian_grid_ops as spne
rng=np.random.default_rng(0)
s=sps.UnboundedNavierStokesFlowSimulator2D(grid_size=(16,20),x_range=1.0,kinematic_viscosity=1e-2,real_t=np.float64,num_threads=2,with_forcing=True,with_free_stream_flow=True)
s.vorticity_field[...]=rng.standard_normal((16,20)); s.time_step(dt=1e-3,free_stream_velocity=np.array([1.,0.]))
for ps_ in ("greens_function_convolution","fast_diagonalisation"):
  for ft in ("multiplicative","convolution"):
    s3=sps.UnboundedNavierStokesFlowSimulator3D(grid_size=(10,12,14),x_range=1.0,kinematic_viscosity=1e-2,real_t=np.float64,num_threads=2,with_forcing=True,with_free_stream_flow=True,filter_vorticity=True,filter_setting_dict={"order":2,"type":ft},poisson_solver_type=ps_)
    s3.vorticity_field[...]=rng.standard_normal((3,10,12,14)); s3.velocity_field[...]=rng.standard_normal((3,10,12,14)); s3.time_step(dt=1e-3,free_stream_velocity=np.array([1.,0.,0.5])); s3.get_vorticity_divergence_l2_norm(); s3.compute_stable_timestep()
p=sps.PassiveTransportFlowSimulator(kinematic_viscosity=1e-2,grid_dim=3,grid_size=(8,9,10),x_range=1.0,real_t=np.float64,num_threads=2,field_type="vector"); p.time_step(dt=1e-3)
mid=np.zeros((3,8,9,10)); rk=spne.gen_vorticity_stretching_timestep_ssprk3_pyst_kernel_3d(real_t=np.float64,midstep_buffer_vector_field=mid,num_threads=2)
w=rng.standard_normal((3,8,9,10)); rk(vorticity_field=w,velocity_field=rng.standard_normal((3,8,9,10)),vorticity_stretching_flux_field=np.zeros((3,8,9,10)),dt_by_2_dx=0.1)
print("kernels",len(spy.REG),"calls",sum(spy.EVENTS.values()))
print("legal aliasings:"); 
for k,v in spy.LEGAL.items(): print("  ",k,v)
print("violations:",spy.VIOL)
