import shim, numpy as np
import sopht.numeric.eulerian_grid_ops as spne
rng=np.random.default_rng(0)
for real_t in (np.float64,np.float32):
    n=(9,10,11)
    F=rng.integers(-1024,1024,size=(3,*n)).astype(real_t)
    curl=spne.gen_curl_pyst_kernel_3d(real_t=real_t,num_threads=2); div=spne.gen_divergence_pyst_kernel_3d(real_t=real_t,num_threads=2)
    c=np.zeros_like(F); curl(curl=c,field=F,prefactor=real_t(0.5)); d=np.ones(n,dtype=real_t); div(divergence=d,field=c,inv_dx=real_t(4.0))
    print(real_t.__name__,"div curl interior max", np.abs(d[2:-2,2:-2,2:-2]).max(), "ring-adjacent nonzero?", np.abs(d[1:-1,1:-1,1:-1]).max())
    # 2D: curl curl psi = -wide laplacian
    psi=rng.integers(-1024,1024,size=(12,13)).astype(real_t)
    oc=spne.gen_outplane_field_curl_pyst_kernel_2d(real_t=real_t,num_threads=2); ic=spne.gen_inplane_field_curl_pyst_kernel_2d(real_t=real_t,num_threads=2)
    u=np.zeros((2,12,13),dtype=real_t); oc(curl=u,field=psi,prefactor=real_t(0.5)); w=np.zeros((12,13),dtype=real_t); ic(curl=w,field=u,prefactor=real_t(0.5))
    wide=-(psi[2:-2,4:]+psi[2:-2,:-4]+psi[4:,2:-2]+psi[:-4,2:-2]-4*psi[2:-2,2:-2])*0.25
    print("  curlcurl vs wide lap", np.abs(w[2:-2,2:-2]-wide).max(), "div u", np.abs((u[0,2:-2,3:-1]-u[0,2:-2,1:-3])+(u[1,3:-1,2:-2]-u[1,1:-3,2:-2])).max())
    # quadratic exactness on dyadic grid
    import sopht.simulator as sps
    nx=16; x=(np.arange(nx)+0.5)/16; y=(np.arange(12)+0.5)/16
    X,Y=np.meshgrid(x,y); f=(3*X*X-2*X*Y+5*Y*Y+7*X-Y+2).astype(real_t)
    lap=spne.gen_diffusion_flux_pyst_kernel_2d(real_t=real_t,num_threads=2); out=np.zeros_like(f); lap(diffusion_flux=out,field=f,prefactor=real_t(256.0))
    print("  laplacian of quadratic: expect 16, got range", out[1:-1,1:-1].min(), out[1:-1,1:-1].max())
