import shim, numpy as np
import sopht.simulator as sps
rng=np.random.default_rng(5)
def mk(ny,nx,real_t,w=2):
    return sps.UnboundedNavierStokesFlowSimulator2D(grid_size=(ny,nx),x_range=nx/32.0,kinematic_viscosity=2e-2,real_t=real_t,num_threads=2,with_forcing=True,with_free_stream_flow=True,flow_density=1.3,penalty_zone_width=w)
for real_t in (np.float64,np.float32):
    ny,nx=40,48; m=12
    a=mk(ny,nx,real_t); b=mk(nx,ny,real_t); c=mk(ny,nx,real_t)
    w0=np.zeros((ny,nx)); w0[m:-m,m:-m]=rng.standard_normal((ny-2*m,nx-2*m))
    f0=np.zeros((2,ny,nx)); f0[:,m:-m,m:-m]=rng.standard_normal((2,ny-2*m,nx-2*m))
    u0=rng.standard_normal((2,ny,nx)); U=np.array([0.7,-0.3]); dt=1e-3
    a.vorticity_field[...]=w0; a.velocity_field[...]=u0; a.eul_grid_forcing_field[...]=f0
    s0=a.vorticity_field.sum(dtype=np.float64)
    a.time_step(dt=dt,free_stream_velocity=U)
    print(real_t.__name__,"conservation: dSum/sum|w|", (a.vorticity_field.sum(dtype=np.float64)-s0)/np.abs(a.vorticity_field).sum(dtype=np.float64))
    # transpose: x<->y ; pseudo-scalar flips
    b.vorticity_field[...]=-w0.T; b.velocity_field[0]=u0[1].T; b.velocity_field[1]=u0[0].T; b.eul_grid_forcing_field[0]=f0[1].T; b.eul_grid_forcing_field[1]=f0[0].T
    b.time_step(dt=dt,free_stream_velocity=U[::-1].copy())
    eps=np.finfo(real_t).eps
    print("  transpose: w", np.abs(-b.vorticity_field.T-a.vorticity_field).max()/eps/np.abs(a.vorticity_field).max(), "u", np.abs(b.velocity_field[1].T-a.velocity_field[0]).max()/eps/np.abs(a.velocity_field).max(), np.abs(b.velocity_field[0].T-a.velocity_field[1]).max()/eps/np.abs(a.velocity_field).max())
    # mirror x
    c.vorticity_field[...]=-w0[:,::-1]; c.velocity_field[0]=-u0[0][:,::-1]; c.velocity_field[1]=u0[1][:,::-1]; c.eul_grid_forcing_field[0]=-f0[0][:,::-1]; c.eul_grid_forcing_field[1]=f0[1][:,::-1]
    c.time_step(dt=dt,free_stream_velocity=np.array([-U[0],U[1]]))
    print("  mirror-x: w", np.abs(-c.vorticity_field[:,::-1]-a.vorticity_field).max()/eps/np.abs(a.vorticity_field).max(), "u", np.abs(-c.velocity_field[0][:,::-1]-a.velocity_field[0]).max()/eps/np.abs(a.velocity_field).max(), np.abs(c.velocity_field[1][:,::-1]-a.velocity_field[1]).max()/eps/np.abs(a.velocity_field).max())
