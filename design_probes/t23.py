import warnings; warnings.filterwarnings("ignore")
import numpy as np
import sopht.numeric.immersed_boundary_ops as spi
rng=np.random.default_rng(0)
for real_t in (np.float64,np.float32):
  for kern in ("cosine","peskin"):
    nx=32; dx=real_t(1.0/nx); shift=real_t(dx/2)
    centres=(np.arange(4,nx-4)+0.5)*float(dx)
    pos=[]
    for c in centres:
        for t in (np.float64, real_t):
            v=t(c); pos+= [float(v), float(np.nextafter(v,t(10))), float(np.nextafter(v,t(-10)))]
    faces=np.arange(4,nx-4)*float(dx); pos+=list(faces)+[float(np.nextafter(np.float64(f),10)) for f in faces]+[float(np.nextafter(np.float64(f),-10)) for f in faces]
    pos+=list(rng.uniform(3*float(dx),1-3*float(dx),200))
    N=len(pos); P=np.zeros((2,N)); P[0]=pos; P[1]=rng.permutation(pos)
    c=spi.EulerianLagrangianGridCommunicator2D(dx=dx,eul_grid_coord_shift=shift,num_lag_nodes=N,interp_kernel_width=2,real_t=real_t,n_components=1,interp_kernel_type=kern)
    sup=np.zeros((2,4,4,N),dtype=real_t); idx=np.zeros((2,N),dtype=int); w=np.zeros((4,4,N),dtype=real_t)
    c.local_eulerian_grid_support_of_lagrangian_grid_kernel(sup,idx,P); sup0=sup.copy()
    c.interpolation_weights_kernel(w,sup)
    s=w.sum(axis=(0,1),dtype=np.float64)*float(dx)**2
    true_floor=np.floor((P-float(shift))/float(dx)).astype(int)
    # first moment
    xc=(idx[0][None,None,:]+np.arange(-1,3)[None,:,None]+0.5)*float(dx)
    m1=(w.astype(np.float64)*(xc-P[0][None,None,:])).sum(axis=(0,1))*float(dx)**2
    eps=np.finfo(real_t).eps
    print(real_t.__name__,kern,"N",N,"sum-1 max/eps",np.abs(s-1).max()/eps,"min w",w.min(),"floor shifted:",int((idx!=true_floor).sum()),"m1 max/dx/eps",np.abs(m1).max()/float(dx)/eps)
