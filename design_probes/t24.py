import warnings; warnings.filterwarnings("ignore")
import numpy as np
import sopht.numeric.immersed_boundary_ops as spi
for real_t in (np.float64,np.float32):
  for nx,xr in ((30,1.0),(37,1.3),(50,2*np.pi)):
    dx=real_t(xr/nx); shift=real_t(dx/2)
    k=np.arange(3,nx-3)
    cands=[("f64 (k+.5)*dx",(k+0.5)*float(dx)),("real_t linspace",np.linspace(float(shift),xr-float(shift),nx).astype(real_t)[3:-3].astype(np.float64)),("k*dx+shift in real_t",(k.astype(real_t)*dx+shift).astype(np.float64))]
    for name,p in cands:
        N=len(p); P=np.zeros((2,N)); P[0]=p; P[1]=p
        c=spi.EulerianLagrangianGridCommunicator2D(dx=dx,eul_grid_coord_shift=shift,num_lag_nodes=N,interp_kernel_width=2,real_t=real_t,n_components=1,interp_kernel_type="peskin")
        sup=np.zeros((2,4,4,N),dtype=real_t); idx=np.zeros((2,N),dtype=int); w=np.zeros((4,4,N),dtype=real_t)
        c.local_eulerian_grid_support_of_lagrangian_grid_kernel(sup,idx,P); c.interpolation_weights_kernel(w,sup)
        s=w.sum(axis=(0,1),dtype=np.float64)*float(dx)**2
        print(real_t.__name__,nx,name,"shifted",int((idx[0]!=k).sum()),"of",N,"sum-1 max/eps",np.abs(s-1).max()/np.finfo(real_t).eps)
