import shim, numpy as np, itertools
import sopht.numeric.eulerian_grid_ops as spne
rng=np.random.default_rng(0)
real_t=np.float64; n=(20,22,24)
Z,Y,X=np.meshgrid(*[np.arange(m) for m in n],indexing="ij")
worst=0
for ftype in ("multiplicative","convolution"):
  for order in (1,2,3,4):
    fb=rng.standard_normal(n); bb=rng.standard_normal(n)
    filt=spne.gen_laplacian_filter_kernel_3d(filter_order=order,filter_flux_buffer=fb,field_buffer=bb,real_t=real_t,num_threads=2,filter_type=ftype)
    for kk in [(0.3,1.1,2.0),(np.pi,np.pi,np.pi),(0,0,0),(2.5,0,1.0)]:
        for phase in (np.cos,np.sin):
            f=phase(kk[0]*X+kk[1]*Y+kk[2]*Z); g=f.copy(); filt(scalar_field=g)
            s=[np.sin(k/2)**2 for k in kk]
            sym = 1-(s[0]*s[1]*s[2])**order if ftype=="multiplicative" else np.prod([1-x**order for x in s])
            r=order+1; I=(slice(r,-r),)*3
            err=np.abs(g[I]-sym*f[I]).max(); worst=max(worst,err)
    # history independence
    f=rng.standard_normal(n); g1=f.copy(); filt(scalar_field=g1); fb[...]=rng.standard_normal(n)*1e6; bb[...]=-7; g2=f.copy(); filt(scalar_field=g2)
    print(ftype,order,"history bitwise same:",np.array_equal(g1,g2))
print("worst symbol error",worst)
# boundary damping bound
for w in (2,3,5,6):
    ny,nx=2*w+5,2*w+8; dx=0.1
    x=(np.arange(nx)+0.5)*dx; y=(np.arange(ny)+0.5)*dx; Xg,Yg=np.meshgrid(x,y)
    pen=spne.gen_penalise_field_boundary_pyst_kernel_2d(width=w,dx=dx,x_grid_field=Xg,y_grid_field=Yg,real_t=real_t,num_threads=2)
    f=rng.standard_normal((ny,nx))*10; f0=f.copy(); pen(field=f)
    J,I=np.meshgrid(np.arange(ny),np.arange(nx),indexing="ij"); dist=np.minimum.reduce([J,ny-1-J,I,nx-1-I])
    zone=dist<w; edge=dist==w-1
    print("w",w,"outside unchanged",np.array_equal(f[~zone],f0[~zone]),"ring max",np.abs(f[dist==0]).max(),"zone max",np.abs(f[zone]).max(),"<= inner edge max",np.abs(f0[edge]).max())
