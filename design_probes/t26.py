import shim, numpy as np
import sopht.simulator as sps
for mk in (lambda: sps.UnboundedNavierStokesFlowSimulator2D(grid_size=(12,14),x_range=1.0,kinematic_viscosity=1e-2,real_t=np.float64,num_threads=2,penalty_zone_width=1),
           lambda: sps.UnboundedNavierStokesFlowSimulator3D(grid_size=(8,9,10),x_range=1.0,kinematic_viscosity=1e-2,real_t=np.float64,num_threads=2,penalty_zone_width=1)):
    try:
        s=mk(); s.time_step(dt=1e-3); print("ok")
    except Exception as e: print(type(e).__name__, e)
