"""Restart continuity prototype: NS-2D + moving rigid cylinder, checkpoint at every step, fresh objects,
poisoned scratch buffers.  Writes checkpoint files into the current directory: run in an empty temp dir."""
import os, sys; sys.path.insert(0, os.path.dirname(os.path.abspath(__file__)))
import shim, numpy as np, elastica as ea
import sopht.simulator as sps, sopht.utils as spu
real_t=np.float64
def build(t0=0.0):
    flow=sps.UnboundedNavierStokesFlowSimulator2D(grid_size=(40,56),x_range=1.4,kinematic_viscosity=5e-3,real_t=real_t,num_threads=2,with_forcing=True,with_free_stream_flow=True,time=t0)
    class Sim(ea.BaseSystemCollection, ea.Forcing): ...
    sim=Sim()
    cyl=ea.Cylinder(np.array([0.5,0.5,0.]),np.array([0.,0.,1.]),np.array([1.,0.,0.]),1.0,0.08,density=2.0)
    sim.append(cyl)
    inter=sps.RigidBodyFlowInteraction(rigid_body=cyl,eul_grid_forcing_field=flow.eul_grid_forcing_field,eul_grid_velocity_field=flow.velocity_field,virtual_boundary_stiffness_coeff=-5e3,virtual_boundary_damping_coeff=-2e1,dx=flow.dx,grid_dim=2,real_t=real_t,forcing_grid_cls=sps.CircularCylinderForcingGrid,num_forcing_points=24,start_time=t0)
    sim.add_forcing_to(cyl).using(sps.FlowForces, inter)
    sim.finalize()
    ios=dict(flow=spu.EulerianFieldIO(position_field=flow.position_field,eulerian_fields_dict={"vorticity":flow.vorticity_field,"velocity":flow.velocity_field}))
    fio=spu.IO(dim=2,real_dtype=real_t); fio.add_as_lagrangian_fields_for_io(lagrangian_grid=inter.forcing_grid.position_field,lagrangian_grid_name="cyl",pos_mismatch=inter.lag_grid_position_mismatch_field,vel_mismatch=inter.lag_grid_velocity_mismatch_field)
    ios["forcing"]=fio
    return flow,sim,cyl,inter,ios,ea.PositionVerlet()
U=np.array([1.0,0.2]); dt=2e-3
def step(flow,sim,cyl,inter,ts):
    t=np.float64(flow.time)
    for _ in range(2):
        t=ts.step(sim,t,np.float64(dt/2)); inter.time_step(dt=dt/2)
    inter(); flow.time_step(dt=dt,free_stream_velocity=U)
def snap(flow,cyl,inter): return [flow.vorticity_field.copy(),flow.velocity_field.copy(),np.array([flow.time]),cyl.position_collection.copy(),cyl.velocity_collection.copy(),cyl.director_collection.copy(),cyl.omega_collection.copy(),inter.lag_grid_position_mismatch_field.copy()]
N=8
flow,sim,cyl,inter,ios,ts=build()
cyl.velocity_collection[:2,0]=[0.1,-0.05]; cyl.omega_collection[2,0]=0.7
traj=[snap(flow,cyl,inter)]
for k in range(N):
    ios["flow"].save(f"sopht_{k:04d}.h5",time=flow.time); ios["forcing"].save(f"forcing_grid_{k:04d}.h5",time=flow.time); ea.save_state(sim,f"restart_{k:04d}",np.float64(flow.time))
    step(flow,sim,cyl,inter,ts); traj.append(snap(flow,cyl,inter))
rng=np.random.default_rng(0)
for k in range(N):
    f2,s2,c2,i2,io2,ts2=build()
    for a in (f2.buffer_scalar_field,f2.stream_func_field,f2._unbounded_poisson_solver.domain_doubled_buffer,i2.lag_grid_flow_velocity_field,i2.lag_grid_forcing_field,i2.interp_weights,i2.local_eul_grid_support_of_lag_grid):
        a[...]=rng.standard_normal(a.shape)*1e3
    f2._unbounded_poisson_solver.convolution_buffer[...]=1e3
    f2.time=io2["flow"].load(f"sopht_{k:04d}.h5"); io2["forcing"].load(f"forcing_grid_{k:04d}.h5"); ea.load_state(s2,f"restart_{k:04d}",False)
    worst=0
    for j in range(k,N):
        step(f2,s2,c2,i2,ts2)
        for a,b in zip(snap(f2,c2,i2),traj[j+1]):
            worst=max(worst,np.abs(a-b).max()/(np.abs(b).max()+1e-300))
    print("restart at",k,"worst rel diff",worst)
