import warnings; warnings.filterwarnings("ignore")
import numpy as np, elastica as ea, logging
logging.disable(logging.CRITICAL)
import sopht.simulator as sps
rng=np.random.default_rng(0)
def randrot():
    q,_=np.linalg.qr(rng.standard_normal((3,3))); 
    if np.linalg.det(q)<0: q[0]*=-1
    return q
def rod(n, planar=False):
    r=ea.CosseratRod.straight_rod(n,np.array([0.3,0.4,0.0 if planar else 0.2]),np.array([1.,0.,0.]) if planar else np.array([0.,0.,1.]),np.array([0.,0.,1.]) if planar else np.array([0.,1.,0.]),1.0,np.linspace(0.06,0.015,n),density=800,youngs_modulus=1e4,shear_modulus=1e4/1.5)
    s=np.linspace(0,1,n+1)
    if planar: r.position_collection[...]=np.array([0.3+s, 0.4+0.2*np.sin(3*s), 0*s])
    else: r.position_collection[...]=np.array([0.3+0.1*np.cos(4*s),0.4+0.1*np.sin(4*s),0.2+s])
    for e in range(n):
        t=r.position_collection[:,e+1]-r.position_collection[:,e]; t/=np.linalg.norm(t)
        if planar: d3=t; d2=np.array([0,0,1.0]); d1=np.cross(d2,d3)
        else:
            a=rng.standard_normal(3); d1=a-a.dot(t)*t; d1/=np.linalg.norm(d1); d3=t; d2=np.cross(d3,d1)
        r.director_collection[:,:,e]=np.array([d1,d2,d3])
    r.compute_internal_forces_and_torques(0.0)
    r.velocity_collection[...]=rng.standard_normal((3,n+1)); r.omega_collection[...]=rng.standard_normal((3,n))
    if planar: r.velocity_collection[2]=0; r.omega_collection[:2]=0
    return r
def check(grid,r,dim):
    grid.compute_lag_grid_position_field(); grid.compute_lag_grid_velocity_field()
    N=grid.num_lag_nodes; F=rng.standard_normal((dim,N)); bf=np.zeros((3,r.n_elems+1)); bt=np.zeros((3,r.n_elems))
    grid.transfer_forcing_from_grid_to_body(bf,bt,F)
    F3=np.zeros((3,N)); F3[:dim]=F; X3=np.zeros((3,N)); X3[:dim]=grid.position_field
    P=rng.standard_normal(3)
    netF=bf.sum(axis=1)+F3.sum(axis=1)
    tau_lab=np.einsum('jie,je->ie',r.director_collection,bt)
    M=np.cross((r.position_collection-P[:,None]).T,bf.T).sum(axis=0)+tau_lab.sum(axis=1)+np.cross((X3-P[:,None]).T,F3.T).sum(axis=0)
    return np.abs(netF).max(),np.abs(M).max(),N
for n in (2,5,16):
    r=rod(n); 
    for cap in (False,True):
        for dens in (3,8,20):
            g=sps.CosseratRodSurfaceForcingGrid(grid_dim=3,cosserat_rod=r,surface_grid_density_for_largest_element=dens,with_cap=cap)
            print("surface n",n,"cap",cap,"dens",dens,check(g,r,3))
    g=sps.CosseratRodElementCentricForcingGrid(grid_dim=3,cosserat_rod=r); print("elemcentric3d",check(g,r,3))
    rp=rod(n,planar=True)
    g=sps.CosseratRodEdgeForcingGrid(grid_dim=2,cosserat_rod=rp); print("edge",check(g,rp,2))
    g=sps.CosseratRodElementCentricForcingGrid(grid_dim=2,cosserat_rod=rp); print("elemcentric2d",check(g,rp,2))
    g=sps.CosseratRodNodalForcingGrid(grid_dim=2,cosserat_rod=rp); print("nodal (force only)",check(g,rp,2)[0])
