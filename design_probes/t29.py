import warnings; warnings.filterwarnings("ignore")
import numpy as np, elastica as ea, logging
logging.disable(logging.CRITICAL)
import sopht.simulator as sps
from elastica.rod.data_structures import overload_operator_kinematic_numba as kin
rng=np.random.default_rng(1)
def randrot():
    q,_=np.linalg.qr(rng.standard_normal((3,3)))
    if np.linalg.det(q)<0: q[0]*=-1
    return q
def fd(body,grid,h):
    p0=body.position_collection.copy(); q0=body.director_collection.copy()
    kin(np.float64(h),body.position_collection,body.director_collection,body.velocity_collection,body.omega_collection); grid.compute_lag_grid_position_field(); xp=grid.position_field.copy()
    body.position_collection[...]=p0; body.director_collection[...]=q0
    kin(np.float64(-h),body.position_collection,body.director_collection,body.velocity_collection,body.omega_collection); grid.compute_lag_grid_position_field(); xm=grid.position_field.copy()
    body.position_collection[...]=p0; body.director_collection[...]=q0; grid.compute_lag_grid_position_field()
    return (xp-xm)/(2*h)
def run(name,body,grid,dim):
    grid.compute_lag_grid_position_field(); grid.compute_lag_grid_velocity_field()
    Q=body.director_collection[:,:,0]; Om=Q.T@body.omega_collection[:,0]
    r=np.zeros((3,grid.num_lag_nodes)); r[:dim]=grid.position_field-body.position_collection[:dim]
    vref=body.velocity_collection+np.cross(Om,r.T).T
    e_formula=np.abs(grid.velocity_field-vref[:dim]).max()
    e1=np.abs(fd(body,grid,1e-3)-grid.velocity_field).max(); e2=np.abs(fd(body,grid,5e-4)-grid.velocity_field).max()
    print(name,"formula err",e_formula,"fd err",e1,e2,"ratio",e1/e2 if e2>0 else None)
cyl=ea.Cylinder(np.array([0.5,0.5,0.5]),np.array([0.,0.,1.]),np.array([1.,0.,0.]),0.6,0.1,density=10.)
cyl.director_collection[:,:,0]=randrot(); cyl.velocity_collection[:,0]=rng.standard_normal(3); cyl.omega_collection[:,0]=rng.standard_normal(3)
run("3D cylinder",cyl,sps.OpenEndCircularCylinderForcingGrid(grid_dim=3,rigid_body=cyl,num_forcing_points_along_length=7),3)
sph=ea.Sphere(np.array([0.5,0.5,0.5]),0.2,density=10.); sph.director_collection[:,:,0]=randrot(); sph.velocity_collection[:,0]=rng.standard_normal(3); sph.omega_collection[:,0]=rng.standard_normal(3)
run("sphere",sph,sps.SphereForcingGrid(grid_dim=3,rigid_body=sph,num_forcing_points_along_equator=10),3)
Q=randrot(); pl=sps.RectangularPlane(origin=np.array([0.4,0.5,0.6]),plane_normal=Q[2].copy(),plane_tangent_along_length=Q[0].copy(),plane_length=0.5,plane_breadth=0.3)
pl.velocity_collection[:,0]=rng.standard_normal(3); pl.omega_collection[:,0]=rng.standard_normal(3)
try: run("plane",pl,sps.RectangularPlaneForcingGrid(grid_dim=3,rigid_body=pl,num_forcing_points_along_length=6),3)
except Exception as e: print("plane exc",type(e).__name__,e)
c2=ea.Cylinder(np.array([0.5,0.5,0.]),np.array([0.,0.,1.]),np.array([1.,0.,0.]),1.0,0.1,density=10.)
th=0.7; c2.director_collection[:,:,0]=np.array([[np.cos(th),np.sin(th),0],[-np.sin(th),np.cos(th),0],[0,0,1]]); c2.velocity_collection[:2,0]=rng.standard_normal(2); c2.omega_collection[2,0]=1.3
run("2D cylinder",c2,sps.CircularCylinderForcingGrid(grid_dim=2,rigid_body=c2,num_forcing_points=12),2)
