import shim, numpy as np, elastica as ea, logging
logging.disable(logging.CRITICAL)
import sopht.simulator as sps
rng=np.random.default_rng(2)
def phi_cos(r): return np.where(np.abs(r)<=2,0.25*(1+np.cos(np.pi*r/2)),0.0)
ny,nx=40,48; dx=1.0/nx; real_t=np.float64
u=rng.standard_normal((2,ny,nx)); f=np.zeros((2,ny,nx))
cyl=ea.Cylinder(np.array([0.5,0.4,0.]),np.array([0.,0.,1.]),np.array([1.,0.,0.]),1.0,0.11,density=10.)
cyl.velocity_collection[:2,0]=[0.3,-0.2]; cyl.omega_collection[2,0]=0.9
k,c=-3e3,-7.0; Nm=20
it=sps.RigidBodyFlowInteraction(rigid_body=cyl,eul_grid_forcing_field=f,eul_grid_velocity_field=u,virtual_boundary_stiffness_coeff=k,virtual_boundary_damping_coeff=c,dx=real_t(dx),grid_dim=2,real_t=real_t,forcing_grid_cls=sps.CircularCylinderForcingGrid,num_forcing_points=Nm)
smax=0.11*2*np.pi/Nm; keff=k*smax; ceff=c*smax
xc=(np.arange(nx)+0.5)*dx; yc=(np.arange(ny)+0.5)*dx
def W(X):  # dense weights [m, j, i] (already times dx^2 => interpolation weights)
    return phi_cos((yc[None,:,None]-X[1][:,None,None])/dx)*phi_cos((xc[None,None,:]-X[0][:,None,None])/dx)
I=np.zeros((2,Nm)); e=np.zeros((2,Nm)); t=0.0; fmodel=np.zeros_like(f); worst=0
for step in range(60):
    op=rng.choice(["call","forces","dt","move","flow"])
    if op=="dt":
        dt=10**rng.uniform(-5,-1); it.time_step(dt); I=I+dt*e; t+=dt
    elif op=="move":
        cyl.position_collection[:2,0]+=rng.uniform(-.01,.01,2); cyl.velocity_collection[:2,0]=rng.standard_normal(2); cyl.omega_collection[2,0]=rng.standard_normal()
    elif op=="flow": u[...]=rng.standard_normal(u.shape)
    else:
        u0=u.copy()
        if op=="call": it()
        else: it.compute_flow_forces_and_torques()
        X=it.forcing_grid.position_field; V=it.forcing_grid.velocity_field; w=W(X)
        e=np.einsum('mji,cji->cm',w,u)-V; F=keff*I+ceff*e
        if op=="call": fmodel+=np.einsum('mji,cm->cji',w,F)/dx**2
        worst=max(worst,np.abs(it.lag_grid_forcing_field-F).max()/np.abs(F).max(),np.abs(f-fmodel).max()/(np.abs(fmodel).max()+1e-300)); assert np.array_equal(u,u0)
    worst=max(worst,np.abs(it.lag_grid_position_mismatch_field-I).max()/(np.abs(I).max()+1e-300),abs(it.time-t))
print("worst rel deviation over history",worst, "keff ok", np.isclose(it.virtual_boundary_stiffness_coeff,keff))
