import shim, numpy as np
import sopht.numeric.eulerian_grid_ops as spne
rng=np.random.default_rng(0)
lap=spne.gen_diffusion_flux_pyst_kernel_2d(real_t=np.float64,num_threads=3,reset_ghost_zone=True)
def ref(f,p):
    o=np.zeros_like(f); o[1:-1,1:-1]=p*(f[1:-1,2:]+f[1:-1,:-2]+f[2:,1:-1]+f[:-2,1:-1]-4*f[1:-1,1:-1]); return o
cases={}
big=rng.standard_normal((30,40)); obig=np.full((30,40),np.nan)
cases["strided"]=(big[::2,1:-1:3], obig[1:16,5:18])
cases["fortran"]=(np.asfortranarray(rng.standard_normal((7,9))), np.asfortranarray(np.full((7,9),np.nan)))
cases["negstride"]=(rng.standard_normal((8,11))[::-1,::-1], np.full((8,11),np.nan)[:, ::-1])
cases["minimal3x3"]=(rng.standard_normal((3,3)), np.full((3,3),np.nan))
cases["2x5 (empty interior)"]=(rng.standard_normal((2,5)), np.full((2,5),np.nan))
for name,(f,o) in cases.items():
    try:
        f0=f.copy(); parent_before=obig.copy()
        lap(diffusion_flux=o,field=f,prefactor=0.5)
        print(name,"ok; max err",np.nanmax(np.abs(o-ref(f0,0.5))) if o.size else None,"input intact",np.array_equal(f,f0))
    except Exception as e: print(name,"EXC",type(e).__name__,str(e)[:100])
mask=np.ones_like(obig,bool); mask[1:16,5:18]=False
print("parent outside view untouched:", np.isnan(obig[mask]).all())
# complex product on strided real/imag views, and set_fixed_val_at_boundaries vector
cp=spne.gen_elementwise_complex_product_pyst_kernel_2d(real_t=np.float64,num_threads=2)
a=rng.standard_normal((6,7))+1j*rng.standard_normal((6,7)); b=rng.standard_normal((6,7))+1j*rng.standard_normal((6,7)); c=np.zeros_like(a)
cp(product_field=c,field_1=a,field_2=b); print("complex",np.abs(c-a*b).max())
