import shim_asan, numpy as np, time
import sopht.simulator as sps
t=time.time(); rng=np.random.default_rng(0)
s=sps.UnboundedNavierStokesFlowSimulator2D(grid_size=(9,11),x_range=1.0,kinematic_viscosity=1e-2,real_t=np.float32,num_threads=2,with_forcing=True,with_free_stream_flow=True,penalty_zone_width=2)
s.vorticity_field[...]=rng.standard_normal((9,11)); s.time_step(dt=1e-3,free_stream_velocity=np.array([1.,0.]))
s3=sps.UnboundedNavierStokesFlowSimulator3D(grid_size=(7,8,9),x_range=1.0,kinematic_viscosity=1e-2,real_t=np.float64,num_threads=2,with_forcing=True,with_free_stream_flow=True,filter_vorticity=True,penalty_zone_width=2)
s3.vorticity_field[...]=rng.standard_normal((3,7,8,9)); s3.time_step(dt=1e-3,free_stream_velocity=np.array([1.,0.,0.5]))
print("asan steps ok", time.time()-t, np.isfinite(s3.velocity_field).all())
