import shim, numpy as np, time
import sopht.simulator as sps
def gauss(pos,c,nu,t,d,A): 
    r2=sum((pos[i]-c[i])**2 for i in range(d)); return A/(4*np.pi*nu*t)**(d/2)*np.exp(-r2/(4*nu*t))
def run(d,n,real_t,nu,U,c0,t0,T,cfl=0.1,ft="scalar"):
    gs=(n,)*d
    s=sps.PassiveTransportFlowSimulator(kinematic_viscosity=nu,grid_dim=d,grid_size=gs,x_range=1.0,real_t=real_t,num_threads=4,time=t0,cfl=cfl,field_type=ft)
    A=(4*np.pi*nu*t0)**(d/2)
    for i in range(d): s.velocity_field[i]=U[i]
    f0=gauss(s.position_field,c0,nu,t0,d,A)
    if ft=="scalar": s.primary_field[...]=f0
    else:
        for i in range(d): s.primary_field[i]=f0*(i+1)
    while s.time<t0+T-1e-12:
        dt=min(s.compute_stable_timestep(),t0+T-s.time); s.time_step(dt=dt)
    c=[c0[i]+U[i]*T for i in range(d)]; ex=gauss(s.position_field,c,nu,t0+T,d,A)
    got=s.primary_field if ft=="scalar" else s.primary_field[0]
    return np.linalg.norm(got-ex)/np.linalg.norm(ex)
for (d,ns) in ((2,(32,48,64,96,128)),(3,(16,24,32,48))):
    for nu,U in ((1e-3,(1.0,0.6,-0.4)),(4e-3,(0.5,-0.3,0.2))):
        t0=1.0 if d==2 else 2.0
        es=[run(d,n,np.float64,nu,U[:d],(0.4,)*d,t0,0.15) for n in ns]
        sl=np.polyfit(np.log(1/np.array(ns)),np.log(es),1)[0]
        print("d",d,"nu",nu,"U",U[:d],"rel errs",[f"{e:.3e}" for e in es],"LSQ slope",round(sl,2),"pair orders",[round(np.log(es[i]/es[i+1])/np.log(ns[i+1]/ns[i]),2) for i in range(len(ns)-1)])
