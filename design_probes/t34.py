import shim, numpy as np
exec(open("t33.py").read().split("for (d,ns) in")[0])
for (d,ns) in ((2,(32,48,64,96,128)),(3,(16,24,32,48))):
    for nu,U,t0,T in ((2e-2,(0.2,-0.1,0.15),0.05,0.05),(1e-2,(0.4,0.3,-0.2),0.1,0.08)):
        es=[run(d,n,np.float64,nu,U[:d],(0.45,)*d,t0,T,cfl=0.5) for n in ns]
        sl=np.polyfit(np.log(1/np.array(ns)),np.log(es),1)[0]
        print("d",d,"nu",nu,"U",U[:d],"rel errs",[f"{e:.3e}" for e in es],"LSQ slope",round(sl,2),"pair orders",[round(float(np.log(es[i]/es[i+1])/np.log(ns[i+1]/ns[i])),2) for i in range(len(ns)-1)])
