import shim, numpy as np, sys
from scipy.signal import fftconvolve
from scipy.fft import dctn, idctn
import sopht.simulator as sps
def curl3(F,pref):  # x last axis; F[0]=x comp
    fx,fy,fz=F; c=np.zeros_like(F); I=(slice(1,-1),)*3
    def d(a,ax):  # centred difference along array axis ax on interior
        sl_p=[slice(1,-1)]*3; sl_m=[slice(1,-1)]*3; sl_p[ax]=slice(2,None); sl_m[ax]=slice(None,-2); return a[tuple(sl_p)]-a[tuple(sl_m)]
    # array axes: 0=z,1=y,2=x
    c[0][I]=pref*(d(fz,1)-d(fy,0)); c[1][I]=pref*(d(fx,0)-d(fz,2)); c[2][I]=pref*(d(fy,2)-d(fx,1)); return c
def lap1d(f,ax):
    out=np.zeros_like(f); I=(slice(1,-1),)*3
    sl_p=[slice(1,-1)]*3; sl_m=[slice(1,-1)]*3; sl_p[ax]=slice(2,None); sl_m[ax]=slice(None,-2)
    out[I]=0.25*(2*f[I]-f[tuple(sl_p)]-f[tuple(sl_m)]); return out
def filt(f,order,ftype):
    f=f.copy()
    if ftype=="multiplicative":
        b=f.copy()
        for _ in range(order):
            for ax in (2,1,0): b=lap1d(b,ax)
        return f-b
    for ax in (2,1,0):
        b=f.copy()
        for _ in range(order): b=lap1d(b,ax)
        f=f-b
    return f
def damp(w,width,dx):
    if width==0: return w
    n=w.shape
    for ax in (2,1,0):
        m=n[ax]; c=(np.arange(m)+0.5)*dx; sp=(np.pi/2)/(width*dx)
        w=np.moveaxis(w,ax,-1).copy()
        w[...,:width]=w[...,width-1:width]; w[...,-width:]=w[...,m-width:m-width+1]
        w[...,:width]*=np.sin(sp*(c[:width]-c[0])); w[...,-width:]*=np.sin(sp*(c[-1]-c[-width:]))
        w=np.moveaxis(w,-1,ax)
    return w
def greens3(f,dx):
    nz,ny,nx=f.shape
    dz=np.arange(-(nz-1),nz)[:,None,None]; dy=np.arange(-(ny-1),ny)[None,:,None]; di=np.arange(-(nx-1),nx)[None,None,:]
    r=dx*np.sqrt(dz**2+dy**2+di**2.0)
    with np.errstate(divide='ignore'): G=1/(4*np.pi*r)
    G[nz-1,ny-1,nx-1]=1/(4*np.pi*dx)
    return fftconvolve(f,G,mode='full')[nz-1:2*nz-1,ny-1:2*ny-1,nx-1:2*nx-1]*dx**3
def neumann(f,dx):
    fh=dctn(f,type=2,norm='ortho'); n=f.shape
    lam=sum((2-2*np.cos(np.pi*np.arange(n[a])/n[a])).reshape([-1 if i==a else 1 for i in range(3)]) for a in range(3))/dx**2
    lam[0,0,0]=np.inf; return idctn(fh/lam,type=2,norm='ortho')
def ref3(w,u,forc,dt,dx,nu,rho,width,fs,with_forcing,with_fs,flt,solver):
    w=w.astype(np.float64).copy(); u=u.astype(np.float64)
    if with_forcing: w+=curl3(forc.astype(np.float64),dt/(2*dx*rho))
    uxw=np.cross(u,w,axis=0); w+=curl3(uxw,dt/(2*dx))
    I=(slice(1,-1),)*3
    for c in range(3):
        f=w[c]; d=np.zeros_like(f); d[I]=nu*dt/dx**2*(f[2:,1:-1,1:-1]+f[:-2,1:-1,1:-1]+f[1:-1,2:,1:-1]+f[1:-1,:-2,1:-1]+f[1:-1,1:-1,2:]+f[1:-1,1:-1,:-2]-6*f[I]); w[c]=f+d
    if flt:
        for c in range(3): w[c]=filt(w[c],*flt)
    for c in range(3): w[c]=damp(w[c],width,dx)
    psi=np.array([greens3(w[c],dx) if solver=="greens_function_convolution" else neumann(w[c],dx) for c in range(3)])
    vel=curl3(psi,0.5/dx)
    if with_fs: vel+=np.asarray(fs).reshape(3,1,1,1)
    return w,vel
rng=np.random.default_rng(int(sys.argv[1]) if len(sys.argv)>1 else 0)
for real_t in (np.float64,np.float32):
  for (shape,width,flt,solver) in [((9,11,13),0,None,"greens_function_convolution"),((12,10,14),2,(2,"multiplicative"),"fast_diagonalisation"),((11,13,12),3,(3,"convolution"),"greens_function_convolution"),((10,10,12),2,(1,"convolution"),"fast_diagonalisation")]:
    nu=2e-2; rho=1.4; dt=3e-3; xr=1.2
    kw=dict(filter_vorticity=True,filter_setting_dict={"order":flt[0],"type":flt[1]}) if flt else {}
    s=sps.UnboundedNavierStokesFlowSimulator3D(grid_size=shape,x_range=xr,kinematic_viscosity=nu,real_t=real_t,num_threads=2,with_forcing=True,with_free_stream_flow=True,flow_density=rho,penalty_zone_width=width,poisson_solver_type=solver,time=1.0,**kw)
    for a in (s.vorticity_field,s.velocity_field,s.eul_grid_forcing_field): a[...]=rng.standard_normal(a.shape)
    w0,u0,f0=s.vorticity_field.copy(),s.velocity_field.copy(),s.eul_grid_forcing_field.copy(); fs=np.array([0.6,-0.2,0.3])
    s.time_step(dt=dt,free_stream_velocity=fs)
    w,vel=ref3(w0,u0,f0,dt,float(s.dx),nu,rho,width,fs,True,True,flt,solver)
    eps=np.finfo(real_t).eps
    print(real_t.__name__,shape,width,flt,solver[:6],"w err/eps",np.abs(s.vorticity_field-w).max()/eps/np.abs(w).max(),"u err/eps",np.abs(s.velocity_field-vel).max()/eps/np.abs(vel).max(),s.time==1.0+dt,not s.eul_grid_forcing_field.any())
