import warnings; warnings.filterwarnings("ignore")
import numpy as np, pystencils as ps, sympy as sp, time, os
from pystencils.jit import CpuJit
from pystencils.jit.cpu.compiler_info import GccInfo
ci = GccInfo(optlevel="1", extra_cxxflags=["-fsanitize=address,undefined","-fno-omit-frame-pointer","-g","-fno-sanitize-recover=undefined"])
jit = CpuJit(compiler_info=ci, objcache="/tmp/exp/asan_cache")
os.makedirs("/tmp/exp/asan_cache", exist_ok=True)
@ps.kernel
def st():
    out, f = ps.fields("out, f : float64[2D]")
    out[0,0] @= f[0,1] + f[0,-1] + f[1,0] + f[-1,0] - 4*f[0,0]
cfg = ps.CreateKernelConfig(default_dtype="float64", jit=jit)
# deliberately wrong ghost layers => OOB read
bad = os.environ.get("BAD")
if bad:
    cfg.ghost_layers = 0
t=time.time()
k = ps.create_kernel(st, config=cfg).compile()
print("compiled", time.time()-t)
f = np.random.rand(8,9); out = np.zeros((8,9))
k(out=out, f=f)
print("ran ok", out[1,1])
