import warnings; warnings.filterwarnings("ignore")
import numpy as np, pystencils as ps, sympy as sp, time, os
from pystencils.jit import CpuJit
from pystencils.jit.cpu.compiler_info import GccInfo
ci = GccInfo(optlevel="1", extra_cxxflags=["-fsanitize=thread","-fno-omit-frame-pointer","-g"])
os.makedirs("/tmp/exp/tsan_cache", exist_ok=True)
jit = CpuJit(compiler_info=ci, objcache="/tmp/exp/tsan_cache")
@ps.kernel
def st():
    out, f = ps.fields("out, f : float64[2D]")
    out[0,0] @= f[0,1] + f[0,-1] + f[1,0] + f[-1,0] - 4*f[0,0]
@ps.kernel
def st2():
    g, out = ps.fields("g, out : float64[2D]")
    g[0,0] @= out[0,1] + out[0,-1] + out[1,0] + out[-1,0]
cfg = ps.CreateKernelConfig(default_dtype="float64", jit=jit)
cfg.cpu.openmp.enable=True; cfg.cpu.openmp.num_threads=4
k = ps.create_kernel(st, config=cfg).compile()
k2 = ps.create_kernel(st2, config=cfg).compile()
f = np.random.rand(64,64); out = np.zeros((64,64)); g=np.zeros((64,64))
for i in range(3):
    k(out=out, f=f)
    k2(g=g, out=out)
print("ran ok", out[1,1])
if os.environ.get("RACY"):
    cfg2 = ps.CreateKernelConfig(default_dtype="float64", jit=jit, skip_independence_check=True)
    cfg2.cpu.openmp.enable=True; cfg2.cpu.openmp.num_threads=4
    k3 = ps.create_kernel(st, config=cfg).compile()
    k3(out=f, f=f)  # aliasing: real race
    print("racy done")
