"""rv — runtime monitoring of SophT (see /verif/DESIGN.md)."""
