"""Region/formula/input audit of one kernel call (DESIGN §3.3 'region audit', §4 C13).

``Arrays`` hands out the arrays of a case in one of three layouts and remembers their parents:

* contig   — exactly-sized C-contiguous arrays (under ASan the first out-of-region byte is a red zone)
* embedded — interior slices of larger parents filled with NaN-payload sentinels
* strided  — every second element of a larger parent along each axis (non-contiguous strides)
* mixed    — every array of the call draws one of the three on its own (arguments of one call differ in strides)

``audit(case, ...)`` snapshots everything, calls the real kernel, and checks: inputs bit-identical,
outputs equal to the closed form on the documented region (noise-floor tolerance), bit-identical
(or value-identical for time-step kernels) elsewhere, parents untouched outside the views.
"""
import numpy as np

from . import util

F = np.float64


class Arrays:
    def __init__(self, rng, real_t, layout="contig"):
        self.rng = rng
        self.real_t = np.dtype(real_t)
        self.layout = layout
        self.parents = []  # (parent, view_mask)
        self.level = 1.0

    # -- raw allocation -----------------------------------------------------------------------------
    def _alloc(self, shape, dtype):
        shape = tuple(int(n) for n in shape)
        layout = self.layout
        if layout == "mixed":
            # every array of the call draws its OWN layout: result and operands then differ in strides (a kernel that indexes all of
            # its arguments with the strides of the first one is only wrong - and writes out of bounds - in this case)
            layout = ("contig", "embedded", "strided")[int(self.rng.integers(3))]
        if layout == "contig" or len(shape) == 0:
            return np.empty(shape, dtype)
        if layout == "embedded":
            pad = 2
            parent = self._sentinels(tuple(n + 2 * pad for n in shape), dtype)
            sl = tuple(slice(pad, pad + n) for n in shape)
        elif layout == "strided":
            parent = self._sentinels(tuple(2 * n + 1 for n in shape), dtype)
            sl = tuple(slice(1, 2 * n + 1, 2) for n in shape)
        else:
            raise ValueError(self.layout)
        view = parent[sl]
        mask = np.zeros(parent.shape, bool)
        mask[sl] = True
        self.parents.append((parent, mask, parent.copy()))
        return view

    def _sentinels(self, shape, dtype):
        dtype = np.dtype(dtype)
        if dtype.kind == "c":
            rt = np.float32 if dtype == np.complex64 else np.float64
            a = np.empty(shape, dtype)
            a.real = util.sentinel_like(self.rng, shape, rt)
            a.imag = util.sentinel_like(self.rng, shape, rt)
            return a
        return util.sentinel_like(self.rng, shape, dtype).copy()

    def _values(self, shape, kind):
        r = self.rng
        if kind == "unit":
            a = r.uniform(0, 1, size=shape)
            a[r.random(size=shape) < 0.2] = 0.0
            a[r.random(size=shape) < 0.1] = 1.0
            return a
        if kind == "levelset":
            from .ref import kernels as K

            a = r.uniform(-2 * K.BLEND, 2 * K.BLEND, size=shape)
            flat = a.reshape(-1)
            if flat.size >= 4:
                flat[0], flat[1] = K.BLEND, -K.BLEND
                flat[2] = 0.0
            return a
        if kind == "vel_ties":
            # velocities with exact zeros and exact ties v[i+1] == -v[i] along every axis (ENO3 upwind switch v_i > -v_{i+1})
            a = r.standard_normal(shape) * self.level
            a[r.random(size=shape) < 0.15] = 0.0
            for ax in range(1, len(shape)):
                n = shape[ax]
                if n >= 2:
                    idx = r.integers(0, n - 1, size=max(1, n // 3))
                    src = np.take(a, idx, axis=ax)
                    sl = [slice(None)] * len(shape)
                    for j, i in enumerate(idx):
                        sl[ax] = int(i) + 1
                        a[tuple(sl)] = -np.take(src, j, axis=ax)
            return a
        a = r.standard_normal(shape) * self.level
        if len(shape) >= 3 and shape[0] >= 2 and r.random() < 0.3:
            # identically-zero components / planes (axis-aligned vector fields): a skipped output shows as a surviving sentinel
            k = r.permutation(shape[0])[: int(r.integers(1, shape[0]))]
            a[k] = 0.0
        return a

    # -- roles ----------------------------------------------------------------------------------------
    def inp(self, shape, kind="noise"):
        v = self._alloc(shape, self.real_t)
        v[...] = self._values(tuple(shape), kind).astype(self.real_t)
        return v

    inout = inp
    scratch = inp

    def out(self, shape):
        v = self._alloc(shape, self.real_t)
        v[...] = util.sentinel_like(self.rng, tuple(shape), self.real_t)
        return v

    def plain(self, shape, kind="noise"):
        return np.ascontiguousarray(self._values(tuple(shape), kind).astype(self.real_t))

    def _cdtype(self):
        return np.complex64 if self.real_t == np.float32 else np.complex128

    def cinp(self, shape):
        v = self._alloc(shape, self._cdtype())
        v[...] = (self.rng.standard_normal(shape) + 1j * self.rng.standard_normal(shape)).astype(self._cdtype())
        return v

    def cout(self, shape):
        v = self._alloc(shape, self._cdtype())
        v[...] = self._sentinels(tuple(shape), self._cdtype())
        return v

    def parents_intact(self):
        for parent, mask, before in self.parents:
            if parent[~mask].tobytes() != before[~mask].tobytes():
                return False
        return True


def _to64(a):
    return np.asarray(a, np.complex128 if a.dtype.kind == "c" else F)


def _same_value(a, b):
    return (a == b) | ((a != a) & (b != b))


def audit(name, case, A, rec, rng, real_t, meta, K_TOL=32.0):
    """returns True if the call completed"""
    eps = util.eps(real_t)
    arrs = {k: v for k, v in case.kw.items() if isinstance(v, np.ndarray)}
    before = {k: np.array(v, copy=True) for k, v in arrs.items()}
    try:
        case.fn(**case.kw)
    except Exception as e:
        mech = f"{name}-raises"
        if "penalise_field_boundary" in name and name.endswith("_w1") and isinstance(e, ValueError):
            mech = "boundary-damping-width1-raises"
        rec.violation(mech, f"{type(e).__name__}: {e} {meta}", {"meta": meta})
        return False
    ok = True
    # inputs untouched
    for k, role in case.roles.items():
        if role == "in" and not util.bits_equal(arrs[k], before[k]):
            rec.violation(f"{name}:input-modified", f"input '{k}' changed {meta}", {"meta": meta, "arg": k})
            ok = False
    if not A.parents_intact():
        rec.violation(f"{name}:write-outside-view", f"bytes of the parent array outside the passed view changed {meta}", {"meta": meta})
        ok = False
    inp = {k: _to64(v) for k, v in before.items()}
    exp = case.expect(inp)
    # noise floor: re-evaluate the closed form on inputs perturbed by (1 +- eps)
    spread = {k: 0.0 for k in exp}
    if any(ref is not None for ref, _m in exp.values()):
        for _ in range(3):
            pin = dict(inp)
            for k in case.smooth:
                pin[k] = inp[k] * (1.0 + rng.uniform(-eps, eps, size=inp[k].shape))
            pexp = case.expect(pin)
            for k, (ref, mask) in exp.items():
                if ref is None:
                    continue
                dlt = np.abs(pexp[k][0] - ref)[mask]
                if dlt.size:
                    spread[k] = max(spread[k], float(np.max(dlt)))
    for k, (ref, mask) in exp.items():
        got = arrs[k]
        b = before[k]
        outside = ~mask
        if outside.any():
            if k in case.close_compare:
                # documented exception (SSP-RK3): ring cells are recombined as (1/3) w + (2/3) w', equal to w only up to rounding
                same = np.abs(_to64(got) - _to64(b)) <= 8 * eps * np.abs(_to64(b))
            elif k in case.value_compare:
                same = _same_value(got, b)
            else:
                same = np.ascontiguousarray(got).view(np.uint8).reshape(got.shape + (-1,)) == np.ascontiguousarray(b).view(np.uint8).reshape(b.shape + (-1,))
                same = same.all(axis=-1)
            bad = outside & ~same
            rec.count("cells_outside_region_checked", int(outside.sum()))
            if bad.any():
                idx = tuple(int(x) for x in np.argwhere(bad)[0])
                rec.violation(f"{name}:write-outside-region", f"'{k}' changed at {idx} outside the documented region ({int(bad.sum())} cells) {meta}",
                              {"meta": meta, "arg": k, "index": idx})
                ok = False
        if ref is not None and mask.any():
            g = _to64(got)[mask]
            r = ref[mask]
            mag = float(np.max(np.abs(r))) if r.size else 0.0
            tol = K_TOL * max(8 * eps * max(mag, case.scale), spread[k]) + 1e-300
            d = np.abs(g - r)
            ratio = float(np.max(d) / tol) if np.all(np.isfinite(d)) else float("inf")
            rec.stat("formula_" + name.split("_")[0], ratio)
            rec.stat("formula", ratio)
            rec.count("cells_in_region_compared", int(mask.sum()))
            if ratio > 1:
                idx = tuple(int(x) for x in np.argwhere(mask)[int(np.argmax(np.where(np.isfinite(d), d, np.inf)))])
                rec.violation(f"{name}:value!=closed-form", f"'{k}' at {idx}: err/tol={ratio:.3g} {meta}", {"meta": meta, "arg": k, "index": idx})
                ok = False
        elif ref is None and mask.any():
            # region-only audit: the region must at least have been written with finite values
            if not np.all(np.isfinite(_to64(got)[mask])):
                rec.violation(f"{name}:non-finite-in-region", f"'{k}' {meta}", {"meta": meta})
                ok = False
    return ok
