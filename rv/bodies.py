"""Random immersed bodies + every SophT forcing-grid class (shared by C08, C09, C10, C18).

Three layers, all harness-side (nothing here is code under test):

1. **builders** -- ``random_rotation``, ``make_rod``, ``make_rigid``, ``make_case``: PyElastica 1.0 bodies
   in generic poses (QR rotations with det +1, helical / curved centre lines, tapers that collapse
   surface-grid elements to a single centre marker, per-element random directors whose d3 is the
   element tangent, random V / omega) and the forcing grid of the requested *kind*.
   Building needs no pystencils kernel and only PyElastica's own (disk-cached) numba helpers.
2. **interaction builders** -- ``make_interaction_case``: the same bodies placed inside a small
   Eulerian box and wrapped in ``CosseratRodFlowInteraction`` / ``RigidBodyFlowInteraction``.
   SophT's numba closures are specialised on ``(dx, num_lag_nodes)``; to compile rarely the marker
   counts come from the fixed pool ``IX_POOL`` (2-D: 12 markers, 3-D: 24 or 18 markers).
3. **reference bookkeeping** (written from the property statements, float64, public arrays only) --
   ``lab_omega``, ``element_centres``, ``element_velocity_mass_weighted``, ``marker_elements``,
   ``wrench_residuals``, ``pose_advanced``.

Conventions (PyElastica): ``director_collection[:, :, e]`` has the body axes d1, d2, d3 as ROWS, so
``v_body = Q v_lab`` and ``v_lab = Q^T v_body``; ``omega_collection`` and ``external_torques`` live in the
body frame; nodal quantities are (3, n_elems + 1), element quantities (3, n_elems); rigid bodies are
one "element" with (3, 1) arrays.  2-D grids use the first two lab components; 2-D bodies are built
in the plane z = 0 with their angular velocity along the lab z axis.

Kinds
-----
rods  : ``nodal2d nodal3d elem2d elem3d edge2d surface3d surfacecap3d``
rigid : ``cyl2d cyl3d sphere3d plane3d generic2d generic3d``  (``generic*`` = the constructible base
classes ``TwoDimensionalCylinderForcingGrid`` / ``ThreeDimensionalRigidBodyForcingGrid`` with random
body-fixed marker offsets, exactly the way the derived classes use them)
"""
import contextlib
from dataclasses import dataclass, field

import numpy as np

ROD_KINDS = ("nodal2d", "nodal3d", "elem2d", "elem3d", "edge2d", "surface3d", "surfacecap3d")
RIGID_KINDS = ("cyl2d", "cyl3d", "sphere3d", "plane3d", "generic2d", "generic3d")
ALL_KINDS = ROD_KINDS + RIGID_KINDS
# grids whose markers are fixed in the body frame (C09 pose-advance check); the sphere grid is not
BODY_FIXED_RIGID = ("cyl2d", "cyl3d", "plane3d", "generic2d", "generic3d")
# rod grids whose markers lie off the nodes (C08 moment balance applies)
OFF_NODE_ROD = ("elem2d", "elem3d", "edge2d", "surface3d", "surfacecap3d")
TAPERS = ("none", "linear", "quadratic", "steep", "bulge")
CENTRELINES_3D = ("helix", "arc", "wavy", "straight")
CENTRELINES_2D = ("arc", "wavy", "straight")


def kind_dim(kind):
    return 2 if kind.endswith("2d") else 3


def kind_family(kind):
    return "rod" if kind in ROD_KINDS else "rigid"


@dataclass
class Case:
    """one body + forcing grid (+ optionally the flow interaction object around them)"""

    kind: str
    dim: int
    family: str  # "rod" | "rigid"
    body: object
    grid: object
    meta: dict = field(default_factory=dict)
    # filled by make_interaction_case
    it: object = None
    eul_force: np.ndarray = None
    eul_vel: np.ndarray = None
    dx: float = None


# ------------------------------------------------------------------------------------------------
# 1. builders
# ------------------------------------------------------------------------------------------------
def random_rotation(rng):
    """uniformly random proper rotation: QR of a gaussian matrix, sign-fixed, det +1"""
    q, r = np.linalg.qr(rng.standard_normal((3, 3)))
    q = q * np.sign(np.diag(r))
    if np.linalg.det(q) < 0:
        q[0] *= -1.0
    return np.ascontiguousarray(q)


def planar_rotation(rng, flip=None):
    """director matrix (rows d1, d2, d3) of a 2-D body: d1, d2 in the XY plane, d3 = +z or -z
    (``flip`` True -> -z; None -> random); det +1"""
    th = rng.uniform(0, 2 * np.pi)
    if flip is None:
        flip = bool(rng.integers(2))
    c, s = np.cos(th), np.sin(th)
    if not flip:
        return np.array([[c, s, 0.0], [-s, c, 0.0], [0.0, 0.0, 1.0]])
    return np.array([[c, s, 0.0], [s, -c, 0.0], [0.0, 0.0, -1.0]])


def _radius_profile(taper, n, r0, rng):
    s = (np.arange(n) + 0.5) / n
    if taper == "none":
        return np.full(n, r0)
    if taper == "linear":
        return r0 * (1.0 - rng.uniform(0.3, 0.7) * s)
    if taper == "quadratic":
        return r0 * (1.0 - rng.uniform(0.4, 0.8) * s**2)
    if taper == "steep":  # tip radius below 3/density of the base: surface elements collapse to 1 marker
        return r0 * (1.0 - 0.93 * s ** rng.uniform(0.6, 1.5))
    if taper == "bulge":  # thin at both ends (caps on single-marker end elements), thick in the middle
        return r0 * (0.12 + 0.88 * np.sin(np.pi * s) ** 2)
    raise ValueError(taper)


def _centreline(shape, n, length, dim, rng):
    """(3, n+1) node positions of a curve of roughly the given length, in a local frame"""
    s = np.linspace(0.0, 1.0, n + 1)
    ph = rng.uniform(0, 2 * np.pi)
    if shape == "straight":
        x = np.array([s, 0 * s, 0 * s])
    elif shape == "arc":  # circular arc, opening angle up to ~250 degrees
        a = rng.uniform(0.5, 4.4)
        x = np.array([np.sin(a * s) / a, (1 - np.cos(a * s)) / a, 0 * s])
    elif shape == "wavy":
        k = rng.uniform(2.0, 9.0)
        amp = rng.uniform(0.03, 0.2)
        x = np.array([s, amp * np.sin(k * s + ph), (0 * s if dim == 2 else amp * np.cos(0.7 * k * s))])
    elif shape == "helix":
        turns = rng.uniform(0.3, 2.5)
        rad = rng.uniform(0.05, 0.25)
        a = 2 * np.pi * turns
        pitch = np.sqrt(max(1.0 - (rad * a) ** 2, 0.05))
        x = np.array([rad * np.cos(a * s + ph), rad * np.sin(a * s + ph), pitch * s])
    else:
        raise ValueError(shape)
    return x * length


def refresh_rod_geometry(rod):
    """recompute lengths / tangents / radius (volume-preserving) from the current node positions with
    PyElastica's own public entry point"""
    rod.compute_internal_forces_and_torques(0.0)


def make_rod(rng, dim, n_elems=None, taper=None, centreline=None, length=None, r0=None, centre=None,
             roll="random", moving=True):
    """Random Cosserat rod in a generic pose.

    dim=3: centre line rotated by a random rotation, per-element directors d3 = tangent, d1 random in
    the normal plane, random nodal velocities and body-frame element angular velocities.
    dim=2: rod in the plane z=0, d3 = tangent, directors rolled about the tangent by a per-element
    angle (``roll``: "random" | "aligned" -> roll 0, i.e. d2 = z), nodal velocities in-plane,
    lab-frame angular velocity along z (``omega_body = Q @ (0, 0, w_e)``).
    Geometry caches (lengths, tangents, radius) are refreshed; read ``rod.radius`` afterwards.
    """
    import elastica as ea

    n = int(n_elems if n_elems is not None else rng.integers(2, 25))
    taper = taper or str(rng.choice(TAPERS))
    centreline = centreline or str(rng.choice(CENTRELINES_3D if dim == 3 else CENTRELINES_2D))
    length = float(length if length is not None else 10 ** rng.uniform(-0.7, 0.5))
    r0 = float(r0 if r0 is not None else length * rng.uniform(0.02, 0.15))
    radius = _radius_profile(taper, n, r0, rng)
    rod = ea.CosseratRod.straight_rod(
        n, np.zeros(3), np.array([1.0, 0.0, 0.0]), np.array([0.0, 0.0, 1.0]) if dim == 2 else np.array([0.0, 1.0, 0.0]),
        length, radius, density=float(10 ** rng.uniform(1, 3)), youngs_modulus=1e5, shear_modulus=1e5 / 1.5,
    )
    x = _centreline(centreline, n, length, dim, rng)
    if dim == 3:
        x = random_rotation(rng).T @ x
    else:
        th = rng.uniform(0, 2 * np.pi)
        rot = np.array([[np.cos(th), -np.sin(th), 0.0], [np.sin(th), np.cos(th), 0.0], [0.0, 0.0, 1.0]])
        x = rot @ x
    if centre is None:
        centre = rng.standard_normal(3) * rng.choice([0.3, 3.0])
    centre = np.asarray(centre, float).copy()
    if dim == 2:
        centre[2] = 0.0
    x = x - x.mean(axis=1, keepdims=True) + centre[:, None]
    rod.position_collection[...] = x
    set_rod_directors(rod, rng, dim, roll=roll)
    refresh_rod_geometry(rod)
    if moving:
        set_rod_velocities(rod, rng, dim)
    return rod, {"n_elems": n, "taper": taper, "centreline": centreline, "length": length, "r0": r0}


def rebind_arrays(body):
    """What PyElastica's ``simulator.finalize()`` does to every rod / rigid body: each array ATTRIBUTE is replaced by another array
    object holding the same values (a view into the simulator's memory block).  SophT's documented order is body -> forcing grid /
    interactor -> finalize() -> stepping, so a grid must read the body's arrays through the body at every evaluation; a reference
    to an array taken at construction is orphaned here.  Returns the number of attributes rebound."""
    n = 0
    for name, val in list(vars(body).items()):
        if isinstance(val, np.ndarray):
            block = np.empty((2,) + val.shape, val.dtype)  # "memory block": the new array is a view, like after finalize()
            block[1] = val
            try:
                setattr(body, name, block[1])
                n += 1
            except Exception:
                pass
    return n


def stretch_rod(rod, rng, lo=0.7, hi=1.4):
    """change the rod's cross-sections AFTER a forcing grid may have been built on it: every element is stretched /
    compressed along its own tangent by a random factor in [lo, hi] (directions, hence directors, stay valid), then
    PyElastica's own geometry update rescales ``rod.radius`` per element (volume conservation: r ~ 1/sqrt(length)).
    Returns the per-element factors."""
    x = rod.position_collection
    lam = rng.uniform(lo, hi, rod.n_elems)
    if rng.random() < 0.3:
        lam[...] = float(rng.choice([0.7, 1.3]))  # uniform 30 % compression / stretch
    seg = (x[:, 1:] - x[:, :-1]) * lam[None, :]
    x[:, 1:] = x[:, :1] + np.cumsum(seg, axis=1)
    refresh_rod_geometry(rod)
    return lam


def set_rod_directors(rod, rng, dim, roll="random"):
    """per-element directors with d3 = element tangent (rows d1, d2, d3; det +1)"""
    x = rod.position_collection
    n = rod.n_elems
    for e in range(n):
        t = x[:, e + 1] - x[:, e]
        t = t / np.linalg.norm(t)
        if dim == 3:
            a = rng.standard_normal(3)
            d1 = a - a.dot(t) * t
            d1 /= np.linalg.norm(d1)
        else:
            nrm = np.cross(np.array([0.0, 0.0, 1.0]), t)  # in-plane normal
            phi = 0.0 if roll == "aligned" else (rng.uniform(0, 2 * np.pi) if rng.random() < 0.7 else rng.integers(4) * np.pi / 2)
            d1 = np.cos(phi) * nrm + np.sin(phi) * np.array([0.0, 0.0, 1.0])
        d2 = np.cross(t, d1)
        rod.director_collection[:, :, e] = np.array([d1, d2, t])


def set_rod_velocities(rod, rng, dim, scale=None):
    n = rod.n_elems
    sc = float(scale if scale is not None else 10 ** rng.uniform(-1, 1))
    rod.velocity_collection[...] = rng.standard_normal((3, n + 1)) * sc
    if dim == 3:
        rod.omega_collection[...] = rng.standard_normal((3, n)) * 10 ** rng.uniform(-1, 1.3)
    else:
        rod.velocity_collection[2] = 0.0
        w = rng.standard_normal(n) * 10 ** rng.uniform(-1, 1.3)
        lab = np.zeros((3, n))
        lab[2] = w
        rod.omega_collection[...] = np.einsum("ije,je->ie", rod.director_collection, lab)


def set_rigid_state(body, rng, dim, centre=None, moving=True, flip=None, keep_directors=False):
    """random pose and velocity of a one-element rigid body (2-D: in-plane pose, d3 = +-z, V in-plane,
    omega = (0, 0, w) in the body frame)"""
    if centre is None:
        centre = rng.standard_normal(3) * rng.choice([0.3, 3.0])
    centre = np.asarray(centre, float).copy()
    if dim == 2:
        centre[2] = 0.0
    body.position_collection[:, 0] = centre
    if not keep_directors:
        body.director_collection[:, :, 0] = random_rotation(rng) if dim == 3 else planar_rotation(rng, flip)
    if moving:
        sc = 10 ** rng.uniform(-1, 1)
        body.velocity_collection[:, 0] = rng.standard_normal(3) * sc
        body.omega_collection[:, 0] = rng.standard_normal(3) * 10 ** rng.uniform(-1, 1.3)
        if dim == 2:
            body.velocity_collection[2, 0] = 0.0
            body.omega_collection[:2, 0] = 0.0
    else:
        body.velocity_collection[...] = 0.0
        body.omega_collection[...] = 0.0


def make_rigid(rng, kind, centre=None, size=None, moving=True, flip=None):
    """PyElastica / SophT rigid body for ``kind`` in a random pose.  Returns (body, meta)."""
    import elastica as ea
    import sopht.simulator as sps

    dim = kind_dim(kind)
    size = float(size if size is not None else 10 ** rng.uniform(-1.0, 0.3))
    z, x = np.array([0.0, 0.0, 1.0]), np.array([1.0, 0.0, 0.0])
    if kind in ("cyl2d", "generic2d"):
        body = ea.Cylinder(np.zeros(3), z, x, 1.0, size, density=float(10 ** rng.uniform(0, 3)))
        meta = {"radius": size}
    elif kind in ("cyl3d", "generic3d"):
        aspect = float(rng.uniform(0.15, 1.2))  # radius / length
        body = ea.Cylinder(np.zeros(3), z, x, size, size * aspect, density=float(10 ** rng.uniform(0, 3)))
        meta = {"length": size, "radius": size * aspect}
    elif kind == "sphere3d":
        body = ea.Sphere(np.zeros(3), size, density=float(10 ** rng.uniform(0, 3)))
        meta = {"radius": size}
    elif kind == "plane3d":
        q = random_rotation(rng)
        breadth = size * float(rng.uniform(0.35, 1.6))
        body = sps.RectangularPlane(origin=np.zeros(3), plane_normal=q[2].copy(), plane_tangent_along_length=q[0].copy(),
                                    plane_length=size, plane_breadth=breadth)
        meta = {"length": size, "breadth": breadth}
    else:
        raise ValueError(kind)
    # the plane builds its own directors from (normal, tangent): keep them (already a random rotation)
    set_rigid_state(body, rng, dim, centre=centre, moving=moving, flip=flip, keep_directors=(kind == "plane3d"))
    return body, meta


def make_grid(kind, body, rng=None, **kw):
    """forcing grid of ``kind`` around ``body``.  kw: ``density`` (surface grids), ``num`` (rigid grids:
    points along circumference / length / equator; generic: marker count)"""
    import sopht.simulator as sps

    if kind in ("nodal2d", "nodal3d"):
        return sps.CosseratRodNodalForcingGrid(grid_dim=kind_dim(kind), cosserat_rod=body)
    if kind in ("elem2d", "elem3d"):
        return sps.CosseratRodElementCentricForcingGrid(grid_dim=kind_dim(kind), cosserat_rod=body)
    if kind == "edge2d":
        return sps.CosseratRodEdgeForcingGrid(grid_dim=2, cosserat_rod=body)
    if kind in ("surface3d", "surfacecap3d"):
        return sps.CosseratRodSurfaceForcingGrid(grid_dim=3, cosserat_rod=body, surface_grid_density_for_largest_element=int(kw["density"]),
                                                 with_cap=(kind == "surfacecap3d"))
    if kind == "cyl2d":
        return sps.CircularCylinderForcingGrid(grid_dim=2, rigid_body=body, num_forcing_points=int(kw["num"]))
    if kind == "cyl3d":
        return sps.OpenEndCircularCylinderForcingGrid(grid_dim=3, rigid_body=body, num_forcing_points_along_length=int(kw["num"]))
    if kind == "sphere3d":
        return sps.SphereForcingGrid(grid_dim=3, rigid_body=body, num_forcing_points_along_equator=int(kw["num"]))
    if kind == "plane3d":
        return sps.RectangularPlaneForcingGrid(grid_dim=3, rigid_body=body, num_forcing_points_along_length=int(kw["num"]))
    if kind in ("generic2d", "generic3d"):
        g = _generic_grid_cls(kind)(grid_dim=kind_dim(kind), num_lag_nodes=int(kw["num"]), rigid_body=body)
        _fill_generic(g, kind, body, rng)
        return g
    raise ValueError(kind)


def _generic_grid_cls(kind):
    import sopht.simulator as sps

    return sps.TwoDimensionalCylinderForcingGrid if kind == "generic2d" else sps.ThreeDimensionalRigidBodyForcingGrid


def _fill_generic(g, kind, body, rng):
    """random body-fixed marker offsets (asymmetric cloud, |offset| <= body radius), as a derived class would"""
    rad = float(np.asarray(body.radius).reshape(-1)[0])
    shp = g.local_frame_relative_position_field.shape
    g.local_frame_relative_position_field[...] = rng.uniform(-1, 1, shp) * rad / np.sqrt(shp[0])  # |offset| <= rad
    g.local_frame_relative_position_field[:, 0] *= 0.0  # one marker on the body centre
    g.compute_lag_grid_position_field()
    g.compute_lag_grid_velocity_field()


def generic_grid_factory(kind, num, rng, spacing):
    """returns a class usable as ``forcing_grid_cls`` in a flow interaction for the generic kinds (the base
    classes leave ``get_maximum_lagrangian_grid_spacing`` to the derived class: supply ``spacing``)"""
    base = _generic_grid_cls(kind)

    class _Generic(base):
        def __init__(self, grid_dim, rigid_body):
            super().__init__(grid_dim=grid_dim, num_lag_nodes=num, rigid_body=rigid_body)
            _fill_generic(self, kind, rigid_body, rng)

        def get_maximum_lagrangian_grid_spacing(self):
            return spacing

    _Generic.__name__ = "Generic" + base.__name__
    return _Generic


def sample_grid_kwargs(rng, kind):
    if kind in ("surface3d", "surfacecap3d"):
        return {"density": int(rng.integers(3, 25))}
    if kind == "cyl2d":
        return {"num": int(rng.integers(3, 65))}
    if kind == "cyl3d":
        return {"num": int(rng.integers(2, 11))}
    if kind == "sphere3d":
        return {"num": int(rng.integers(4, 21))}
    if kind == "plane3d":
        return {"num": int(rng.integers(3, 13))}
    if kind in ("generic2d", "generic3d"):
        return {"num": int(rng.integers(1, 41))}
    return {}


def make_case(rng, kind, moving=True, **opts):
    """random body + grid of ``kind``; ``opts`` are forwarded to make_rod / make_rigid (n_elems, taper,
    centreline, length, r0, centre, size, flip) and to make_grid (density, num)"""
    dim = kind_dim(kind)
    gkw = sample_grid_kwargs(rng, kind)
    for k in ("density", "num"):
        if k in opts:
            gkw[k] = opts.pop(k)
    if kind in ROD_KINDS:
        body, meta = make_rod(rng, dim, moving=moving, **opts)
    else:
        body, meta = make_rigid(rng, kind, moving=moving, **opts)
    grid = make_grid(kind, body, rng=rng, **gkw)
    meta = {"kind": kind, **meta, **gkw, "markers": int(grid.num_lag_nodes)}
    return Case(kind, dim, kind_family(kind), body, grid, meta)


def refresh_grid(grid):
    """position then velocity, the order every SophT interaction uses"""
    grid.compute_lag_grid_position_field()
    grid.compute_lag_grid_velocity_field()


# ------------------------------------------------------------------------------------------------
# 2. flow-interaction builders (fixed (dx, N) pool => numba closures compile once and stay cached)
# ------------------------------------------------------------------------------------------------
IX_POOL = {
    # dim: nx (x cells; x_range = 1 => dx = 1/nx), admissible sizes of the other axes, marker counts
    2: {"nx": 40, "other": (32, 36, 40, 44), "N": (12,)},
    3: {"nx": 24, "other": (20, 22, 24), "N": (24, 18)},
}
# kind -> {N: deterministic construction options}
IX_RECIPES = {
    "cyl2d": {12: dict(num=12)},
    "generic2d": {12: dict(num=12)},
    "nodal2d": {12: dict(n_elems=11)},
    "elem2d": {12: dict(n_elems=12)},
    "edge2d": {12: dict(n_elems=4)},
    "cyl3d": {24: dict(num=3, aspect=0.4)},  # ceil(3 * 2 pi * 0.4) = 8 around, 3 along
    "plane3d": {24: dict(num=6, breadth_ratio=0.7)},  # 6 x int(6 * 0.7) = 6 x 4
    "generic3d": {24: dict(num=24), 18: dict(num=18)},
    "sphere3d": {18: dict(num=8)},  # latitudes 1 + 8 + 8 + 1
    "nodal3d": {24: dict(n_elems=23), 18: dict(n_elems=17)},
    "elem3d": {24: dict(n_elems=24), 18: dict(n_elems=18)},
    "surface3d": {24: dict(n_elems=3, density=8, profile=(1.0, 1.0, 1.0)), 18: dict(n_elems=3, density=8, profile=(1.0, 0.75, 0.5))},
    # caps: an end element with n > 1 ring markers gets max(int(n / 2 pi), 1) inner rings (here: 1 centre marker)
    "surfacecap3d": {18: [dict(n_elems=2, density=8, profile=(1.0, 1.0)), dict(n_elems=3, density=8, profile=(0.2, 1.0, 1.0))],
                     24: dict(n_elems=3, density=8, profile=(0.75, 1.0, 1.0))},  # (6 + 1) + 8 + (8 + 1)
}


def ix_kinds(dim, N):
    return [k for k in ALL_KINDS if kind_dim(k) == dim and N in IX_RECIPES.get(k, {})]


def make_interaction_case(rng, kind, N, reset=False, real_t=np.float64, stiffness=None, damping=None, field_layout=None):
    """Body of ``kind`` with exactly ``N`` markers inside a unit-width box (dx = 1/nx from IX_POOL, random
    size of the other axes), random pose / velocities, random flow velocity field, zero Eulerian forcing
    field, wrapped in the matching SophT flow-interaction class.  All markers stay >= 3 cells away from
    the box faces (delta support inside the grid).  Raises if the recipe does not give N markers."""
    import elastica as ea
    import sopht.simulator as sps

    dim = kind_dim(kind)
    pool = IX_POOL[dim]
    rec = IX_RECIPES[kind][N]
    rec = dict(rec[int(rng.integers(len(rec)))] if isinstance(rec, list) else rec)
    nx = pool["nx"]
    shape = tuple(int(rng.choice(pool["other"])) for _ in range(dim - 1)) + (nx,)
    dx = 1.0 / nx
    ext = np.array([shape[-1 - i] * dx for i in range(dim)])  # box extent along x, y(, z)
    centre = np.zeros(3)
    centre[:dim] = ext / 2 + rng.uniform(-0.06, 0.06, dim)
    span = float(min(ext)) / 2 - 0.06 - 4 * dx  # max distance of any marker from the body centre
    k = float(stiffness if stiffness is not None else -(10 ** rng.uniform(2, 4)))
    c = float(damping if damping is not None else -(10 ** rng.uniform(0, 1.5)))
    u = np.ascontiguousarray(rng.standard_normal((dim,) + shape).astype(real_t))
    f = np.zeros((dim,) + shape, dtype=real_t)
    if field_layout == "interior":
        # the solver's fields are the interiors of ghost-padded allocations (non-contiguous views): the interaction must read and
        # write THESE arrays, not private contiguous copies of them
        g = 2
        pu = np.full((dim,) + tuple(n + 2 * g for n in shape), np.nan, dtype=real_t)
        pf = np.full((dim,) + tuple(n + 2 * g for n in shape), np.nan, dtype=real_t)
        I = (slice(None),) + tuple(slice(g, g + n) for n in shape)
        pu[I] = u
        pf[I] = 0
        u, f = pu[I], pf[I]
    elif field_layout == "fortran":
        u, f = np.asfortranarray(u), np.asfortranarray(f)
    common = dict(eul_grid_forcing_field=f, eul_grid_velocity_field=u, virtual_boundary_stiffness_coeff=k,
                  virtual_boundary_damping_coeff=c, dx=real_t(dx), grid_dim=dim, real_t=real_t,
                  enable_eul_grid_forcing_reset=bool(reset), num_threads=2)
    meta = {"kind": kind, "shape": shape, "dx": dx, "N": N, "stiffness": k, "damping": c, "reset": bool(reset)}
    if field_layout:
        meta["field_layout"] = field_layout
    if kind in ROD_KINDS:
        n = rec["n_elems"]
        length = rng.uniform(0.6, 0.9) * 2 * span
        if "profile" in rec:  # deterministic radius profile => deterministic marker count
            r0 = 0.09 * length
            rod, m = make_rod(rng, dim, n_elems=n, taper="none", centreline=str(rng.choice(["arc", "straight"])), length=length, r0=r0, centre=centre)
            _impose_radius_profile(rod, np.asarray(rec["profile"]) * r0)
        else:
            rod, m = make_rod(rng, dim, n_elems=n, taper=str(rng.choice(["none", "linear", "quadratic"])),
                              centreline=str(rng.choice(["arc", "wavy", "straight"])), length=length, r0=0.04 * length, centre=centre)
        gkw = {}
        if kind in ("surface3d", "surfacecap3d"):
            gkw = dict(surface_grid_density_for_largest_element=rec["density"], with_cap=(kind == "surfacecap3d"))
        cls = {"nodal": sps.CosseratRodNodalForcingGrid, "elem": sps.CosseratRodElementCentricForcingGrid,
               "edge": sps.CosseratRodEdgeForcingGrid, "surface": sps.CosseratRodSurfaceForcingGrid,
               "surfacecap": sps.CosseratRodSurfaceForcingGrid}[kind[:-2]]
        it = sps.CosseratRodFlowInteraction(cosserat_rod=rod, forcing_grid_cls=cls, **common, **gkw)
        body = rod
        meta.update(m)
    else:
        size = rng.uniform(0.5, 0.95) * span
        z, x = np.array([0.0, 0.0, 1.0]), np.array([1.0, 0.0, 0.0])
        dens = float(10 ** rng.uniform(0, 3))
        if kind in ("cyl2d", "generic2d"):
            body = ea.Cylinder(np.zeros(3), z, x, 1.0, size, density=dens)
        elif kind == "cyl3d":
            # marker distance from the centre <= sqrt((L/2)^2 + R^2)
            L = size / np.sqrt(0.25 + rec["aspect"] ** 2)
            body = ea.Cylinder(np.zeros(3), z, x, L, L * rec["aspect"], density=dens)
        elif kind == "generic3d":
            body = ea.Cylinder(np.zeros(3), z, x, size, size / np.sqrt(3.0), density=dens)
        elif kind == "sphere3d":
            body = ea.Sphere(np.zeros(3), size, density=dens)
        elif kind == "plane3d":
            q = random_rotation(rng)
            L = size / np.sqrt(0.25 + 0.25 * rec["breadth_ratio"] ** 2)
            body = sps.RectangularPlane(origin=np.zeros(3), plane_normal=q[2].copy(), plane_tangent_along_length=q[0].copy(),
                                        plane_length=L, plane_breadth=L * rec["breadth_ratio"])
        set_rigid_state(body, rng, dim, centre=centre, keep_directors=(kind == "plane3d"))
        if kind in ("generic2d", "generic3d"):
            cls, gkw = generic_grid_factory(kind, rec["num"], rng, spacing=1.3 * dx), {}
        else:
            cls = {"cyl2d": sps.CircularCylinderForcingGrid, "cyl3d": sps.OpenEndCircularCylinderForcingGrid,
                   "sphere3d": sps.SphereForcingGrid, "plane3d": sps.RectangularPlaneForcingGrid}[kind]
            key = {"cyl2d": "num_forcing_points", "cyl3d": "num_forcing_points_along_length",
                   "sphere3d": "num_forcing_points_along_equator", "plane3d": "num_forcing_points_along_length"}[kind]
            gkw = {key: rec["num"]}
        it = sps.RigidBodyFlowInteraction(rigid_body=body, forcing_grid_cls=cls, **common, **gkw)
    grid = it.forcing_grid
    if grid.num_lag_nodes != N:
        raise RuntimeError(f"interaction recipe for {kind} gave {grid.num_lag_nodes} markers, expected {N}")
    refresh_grid(grid)
    lo, hi = grid.position_field.min(axis=1), grid.position_field.max(axis=1)
    if np.any(lo < 3 * dx) or np.any(hi > ext - 3 * dx):
        raise RuntimeError(f"interaction body {kind} leaves the box interior: {lo} {hi} {ext}")
    meta["markers"] = int(N)
    return Case(kind, dim, kind_family(kind), body, grid, meta, it=it, eul_force=f, eul_vel=u, dx=dx)


def _impose_radius_profile(rod, radius):
    """make ``rod.radius`` equal to the requested profile for the CURRENT element lengths (volume is what
    PyElastica conserves, so set it) and refresh the geometry caches"""
    refresh_rod_geometry(rod)
    rod.volume[...] = np.pi * np.asarray(radius) ** 2 * rod.lengths
    refresh_rod_geometry(rod)


# ------------------------------------------------------------------------------------------------
# 3. reference bookkeeping (float64, from the property statements; public arrays only)
# ------------------------------------------------------------------------------------------------
def pad3(a):
    """(dim, N) -> (3, N) with zero z for 2-D grids"""
    a = np.asarray(a, np.float64)
    if a.shape[0] == 3:
        return a.copy()
    out = np.zeros((3, a.shape[1]))
    out[: a.shape[0]] = a
    return out


def lab_omega(body):
    """(3, n_elems) lab-frame angular velocity  Omega_e = Q_e^T omega_e  (directors are rows = body axes)"""
    Q = np.asarray(body.director_collection, np.float64)
    w = np.asarray(body.omega_collection, np.float64)
    out = np.zeros_like(w)
    for e in range(w.shape[1]):
        out[:, e] = Q[:, :, e].T @ w[:, e]
    return out


def to_lab(body, vec_body):
    """rotate per-element body-frame vectors (3, n_elems) to the lab frame:  v_lab = Q_e^T v_body"""
    Q = np.asarray(body.director_collection, np.float64)
    v = np.asarray(vec_body, np.float64)
    out = np.zeros_like(v)
    for e in range(v.shape[1]):
        out[:, e] = Q[:, :, e].T @ v[:, e]
    return out


def element_centres(rod):
    x = np.asarray(rod.position_collection, np.float64)
    return 0.5 * (x[:, :-1] + x[:, 1:])


def element_velocity_mass_weighted(rod):
    """velocity of the centre of mass of the two nodes of each element (momentum-conserving average)"""
    m = np.asarray(rod.mass, np.float64)
    v = np.asarray(rod.velocity_collection, np.float64)
    return (m[None, :-1] * v[:, :-1] + m[None, 1:] * v[:, 1:]) / (m[:-1] + m[1:])[None, :]


def marker_elements(case):
    """element index of every marker (N,), and the marker role (N,) in {"node","centre","edge+","edge-","surface"}.
    Layout is the documented public one: edge grid = [centres | +normal | -normal]; surface grid = per
    element windows ``start_idx[e]:end_idx[e]`` (checked to partition range(N))."""
    g, kind = case.grid, case.kind
    N = g.num_lag_nodes
    if kind in ("nodal2d", "nodal3d"):
        return np.arange(N), np.array(["node"] * N)
    n = case.body.n_elems
    if kind in ("elem2d", "elem3d"):
        return np.arange(N), np.array(["centre"] * N)
    if kind == "edge2d":
        if N != 3 * n:
            raise AssertionError("edge grid marker count")
        return np.tile(np.arange(n), 3), np.array(["centre"] * n + ["edge+"] * n + ["edge-"] * n)
    if kind in ("surface3d", "surfacecap3d"):
        el = -np.ones(N, int)
        role = np.array(["surface"] * N, dtype=object)
        for e in range(n):
            s, t = int(g.start_idx[e]), int(g.end_idx[e])
            if np.any(el[s:t] >= 0):
                raise AssertionError("surface grid windows overlap")
            el[s:t] = e
            if t - s == 1:
                role[s] = "centre"
        if np.any(el < 0):
            raise AssertionError("surface grid windows do not cover all markers")
        return el, role.astype(str)
    raise ValueError(kind)


def wrench_residuals(case, body_forces, body_torques, F, P):
    """Residuals of action = reaction from public arrays (all float64, lab frame, (3,) vectors):

    force  = sum_k f_k + sum_m F_m
    moment = sum_k (x_k - P) x f_k + sum_e Q_e^T tau_e + sum_m (x_m - P) x F_m
    power  = sum_k f_k . v_k + sum_e tau_e . omega_e + sum_m F_m . v_m      (rigid bodies; one node)

    with scale factors (sum of |terms|) for the noise floor.  f_k: body_forces (3, nodes) applied at the
    nodes / body centre, tau_e: body_torques (3, elems) in the body frame, F: (dim, N) marker forces at
    ``grid.position_field`` with velocities ``grid.velocity_field``."""
    body, g = case.body, case.grid
    f = np.asarray(body_forces, np.float64)
    tau = np.asarray(body_torques, np.float64)
    F3 = pad3(F)
    X3 = pad3(g.position_field)
    if case.dim == 2:
        X3[2] = 0.0
    xb = np.asarray(body.position_collection, np.float64).copy()
    if case.dim == 2:
        xb[2] = 0.0
    P = np.asarray(P, np.float64).reshape(3, 1)
    tau_lab = to_lab(body, tau)
    res_force = f.sum(axis=1) + F3.sum(axis=1)
    scale_force = np.abs(F3).sum() + np.abs(f).sum()
    res_moment = np.cross((xb - P).T, f.T).sum(axis=0) + tau_lab.sum(axis=1) + np.cross((X3 - P).T, F3.T).sum(axis=0)
    absF = np.linalg.norm(F3, axis=0)
    # positions themselves carry rounding ~eps|x| (x_m = fl(X + r_m)), so the arms are bounded by |x| + |P|
    arm_m = np.linalg.norm(X3, axis=0) + np.linalg.norm(P)
    arm_b = np.linalg.norm(xb, axis=0) + np.linalg.norm(P)
    scale_moment = (arm_m * absF).sum() + (arm_b * np.linalg.norm(f, axis=0)).sum() + np.abs(tau).sum()
    out = {"force": res_force, "force_scale": scale_force, "moment": res_moment, "moment_scale": scale_moment}
    if case.family == "rigid":
        V = np.asarray(body.velocity_collection, np.float64)[:, 0]
        w = np.asarray(body.omega_collection, np.float64)[:, 0]
        Om = lab_omega(body)[:, 0]
        v3 = pad3(g.velocity_field)
        p_body = float(f[:, 0] @ V + tau_lab[:, 0] @ Om)
        p_mark = float((F3 * v3).sum())
        out["power"] = p_body + p_mark
        reach = np.linalg.norm(X3 - xb[:, :1], axis=0)
        out["power_scale"] = float(2.0 * (absF * (np.linalg.norm(V) + np.linalg.norm(w) * reach)).sum()
                                   + np.abs(f[:, 0] * V).sum() + np.abs(tau[:, 0] * w).sum())
    return out


@contextlib.contextmanager
def pose_advanced(body, h):
    """temporarily advance the pose of ``body`` by time ``h`` along its (V, omega) with PyElastica's own
    kinematic operator (what its symplectic steppers apply); pose restored bit-exactly on exit"""
    from elastica.rod.data_structures import overload_operator_kinematic_numba as kin

    p0 = body.position_collection.copy()
    q0 = body.director_collection.copy()
    try:
        kin(np.float64(h), body.position_collection, body.director_collection, body.velocity_collection, body.omega_collection)
        yield body
    finally:
        body.position_collection[...] = p0
        body.director_collection[...] = q0
