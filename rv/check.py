import sys

from .driver import main

if __name__ == "__main__":
    sys.exit(main())
