"""C01 — one flow time step realises the documented vorticity–velocity discretisation (DESIGN §4 C01).

Oracle: rv.ref.step (independent float64 evaluation of the documented operator sequence) fed with
exactly the state the real simulator received; tolerance = measured noise floor of that pipeline
(rv.ref.step.noise_tol).  Also: clock advanced by exactly dt; forcing field all-zero bytes on return;
inputs that must not change (free-stream argument) unchanged.

Deliberate breaks this check was validated against: see selftest/RESULTS.md (rows C01).
"""
import numpy as np

from .. import sims, util
from ..ref import step as rstep

ID = "C01"
LEVEL = "exploration"
TITLE = "A flow time step realises the documented vorticity-velocity discretisation"
TECHNIQUE = "runtime monitoring: independent float64 reference model of the whole step vs the real simulators, noise-floor tolerance"
RULE = (
    "covering array (all pairs; thorough: + random extra) over {forcing, free stream, boundary-zone width 0..4, precision} "
    "for the 2-D Navier-Stokes simulator, additionally {filter off|multiplicative|convolution x order 1..3, Green's|fast-diag "
    "solver} in 3-D, and {2-D scalar, 3-D scalar, 3-D vector} x precision for passive transport; per configuration 3 states "
    "(noise / spikes+checkerboard / scaled 1e3 or 1e-3) with independent random vorticity, velocity and forcing, dt, viscosity and "
    "density log-uniform over 4 decades, non-square/non-cubic shapes.  Every time_step is one evaluation; distinct = "
    "(simulator, configuration, state kind); non-trivial = the reference update changed vorticity and velocity by more than "
    "the tolerance (i.e. the step did something observable)."
)
ASSUMPTIONS = [
    "rv.ref.step / rv.ref.ops transcribe the documented operator sequence (written from the property text and cited papers, "
    "validated to 1-7 eps against the unchanged tree)",
    "tolerance = 32 x max(8 eps |y|, spread of the reference pipeline under per-stage (1+-eps) perturbations)",
    "grids smaller than 2*max(width,2)+3 per side are treated as inadmissible",
]
REQUIRE = {"steps_ns2d": 6, "steps_ns3d": 6, "steps_passive": 4, "clock_checks": 16, "forcing_zero_checks": 4,
           "steps_observed_with_zero_component_at_poisson_solve": 6, "simulators_in_small_dimensional_regime": 4}

# the last two of each pool have ONE LONG AXIS (> 32 cells): seams of slab-/block-wise processing only exist there
POOL2 = [(14, 19), (16, 23), (22, 17), (13, 12), (24, 15), (18, 21), (12, 20), (20, 13), (41, 12), (12, 37)]
POOL3 = [(10, 11, 13), (12, 10, 14), (11, 13, 12), (13, 12, 10), (10, 14, 11), (14, 11, 12), (35, 9, 10), (10, 34, 9)]
XR = [1.0, 1.3, 0.37, 6.283185307179586]
FILTERS = [None, (1, "multiplicative"), (2, "multiplicative"), (3, "multiplicative"), (1, "convolution"), (2, "convolution"), (3, "convolution")]


def configs(tier, seed):
    rng = util.rng_for(seed, "C01", "configs")
    ax2 = {"forcing": [False, True], "free_stream": [False, True], "width": [0, 1, 2, 3, 4], "dtype": ["float64", "float32"]}
    ax3 = dict(ax2, filter=list(range(len(FILTERS))), solver=["greens_function_convolution", "fast_diagonalisation"])
    extra = 0 if tier == "quick" else 24
    c2 = util.pairwise_cover(ax2, rng, extra=extra)
    c3 = util.pairwise_cover(ax3, rng, extra=extra * 2)
    out = []
    for c in c2:
        out.append(dict(c, kind="ns2d"))
    for c in c3:
        c = dict(c, kind="ns3d")
        c["filter"] = FILTERS[c["filter"]]
        out.append(c)
    for ft, d in (("scalar", 2), ("scalar", 3), ("vector", 3)):
        for dt in ("float64", "float32"):
            out.append({"kind": "passive", "field_type": ft, "dim": d, "dtype": dt})
    reps = 1 if tier == "quick" else 3
    full = []
    for r in range(reps):
        for i, c in enumerate(out):
            full.append(dict(c, cid=i, rep=r))
    return full


def shards(tier, seed):
    cfgs = configs(tier, seed)
    # interleave so that every shard gets a mix of cheap and expensive configurations
    n = 16 if tier == "quick" else 32
    groups = [cfgs[i::n] for i in range(n)]
    return [{"name": f"g{i}", "cfgs": g} for i, g in enumerate(groups) if g]


def _state(rng, kind, shape, lead, real_t):
    if kind in ("noise", "ties"):
        return util.field(rng, lead + shape, "noise", real_t)
    if kind == "mixed":
        return (util.field(rng, lead + shape, "spikes", real_t) + util.field(rng, lead + shape, "checker", real_t)).astype(real_t)
    return util.field(rng, lead + shape, "big" if rng.random() < 0.5 else "small", real_t)


def run_shard(sh, rec):
    seed, tier = sh["seed"], sh["tier"]
    seen = {}
    sh_base = util.rng_for(seed, "C01", "shard-shape", sh["name"]).integers(0, 64)
    for c in sh["cfgs"]:
        rng = util.rng_for(seed, "C01", c["kind"], c["cid"], c["rep"])
        real_t = util.DT[c["dtype"]]
        kind = c["kind"]
        d = c.get("dim", 2 if kind == "ns2d" else 3)
        if tier == "thorough" and c["rep"] > 0:
            lo = 2 * max(c.get("width", 2), 2) + 3
            shape = util.shape2d(rng, max(lo, 8), 40) if d == 2 else util.shape3d(rng, max(lo, 8), 18)
        else:
            # consecutive configurations of one worker process share a grid shape but differ in domain length, and the
            # shape changes every second configuration while domain lengths repeat: anything cached across simulator
            # objects under an incomplete key (shape only, or spacing only) is then hit within one process
            pool = POOL2 if d == 2 else POOL3
            cnt = seen.get(d, 0)
            seen[d] = cnt + 1
            if c.get("solver") == "fast_diagonalisation":
                # the rounding error of the fast-diagonalisation solver grows like n^2 eps (LAPACK eigenvectors; C11 carries that bound),
                # which the perturbation-spread noise floor of this check does not model: a (10, 34, 9) grid reached err/tol 0.78 on
                # the unchanged tree.  Long axes for that solver are C11's business; here it keeps the compact shapes.
                pool = pool[:-2]
            shape = pool[(int(sh_base) + cnt // 2) % len(pool)]
            xr_idx = cnt % len(XR)
        xr = XR[int(rng.integers(len(XR)))] if (tier == "thorough" and c["rep"] > 0) else XR[xr_idx]
        nu = float(10 ** rng.uniform(-4, 0))
        if c["cid"] % 7 == 3:
            nu = 0.0  # inviscid run (the Hill's vortex example): the diffusion stage contributes exactly nothing
            rec.count("simulators_with_zero_viscosity")
        small = c["cid"] % 5 == 2 and nu > 0
        if small:
            # dimensional regime "water in a millimetre box, SI units": domain 1e-3, viscosity 1e-7..3e-6 (around and below 10 eps of
            # float32), steps with nu dt/dx^2 = 0.02..0.2 - the diffusion term is as large as in any other run although nu is tiny
            xr = 1e-3 * xr
            nu = float(10 ** rng.uniform(-7, -5.5))
            rec.count("simulators_in_small_dimensional_regime")
        rho = float(10 ** rng.uniform(-2, 2))
        t0 = float(rng.choice([0.0, 0.25, 17.5]))
        cfg = dict(kind=kind, shape=shape, x_range=xr, nu=nu, dtype=c["dtype"], threads=2, forcing=c.get("forcing", False),
                   free_stream=c.get("free_stream", False), width=c.get("width", 2), rho=rho, filter=c.get("filter"),
                   solver=c.get("solver", "greens_function_convolution"), field_type=c.get("field_type", "scalar"), time=t0,
                   via_factory=(c["cid"] % 3 == 1))  # every third configuration is built through the documented factory functions
        if cfg["via_factory"] and kind != "passive":
            rec.count("simulators_built_via_factory_function")
        if max(shape) > 32:
            rec.count("simulators_with_one_long_axis")
        label = {k: cfg[k] for k in ("kind", "shape", "x_range", "dtype", "forcing", "free_stream", "width", "filter", "solver", "field_type")}
        try:
            sim = sims.build(cfg)
        except Exception as e:
            rec.violation("constructor-raises", f"{type(e).__name__}: {e} cfg={label}", {"cfg": cfg})
            rec.case(None)
            continue
        dx = float(sim.dx)
        # ONE free-stream container per simulator object, updated IN PLACE between the steps (how a caller ramps a free stream);
        # alternately a numpy array and a python list
        fs_box = np.zeros(d) if c["cid"] % 2 == 0 else [0.0] * d
        for skind in ("noise", "mixed", "scaled", "ties") + (("planar",) if kind == "ns3d" else ()):
            dt = float(10 ** rng.uniform(-5, -1))
            if small:
                dt = float(rng.uniform(0.02, 0.2) * dx * dx / nu)
            # dt as the caller might pass it: python float, numpy double, or the working precision
            dt = [dt, np.float64(dt), real_t(dt)][int(rng.integers(3))]
            lead_w = () if (kind == "ns2d" or (kind == "passive" and cfg["field_type"] == "scalar")) else (3,)
            w0 = _state(rng, skind, shape, lead_w, real_t)
            u0 = _state(rng, skind, shape, (d,), real_t)
            if skind == "ties":
                # exact zeros and exact ties v[i+1] == -v[i] in the advecting velocity (ENO3 upwind switch), all-zero for passive 2-D
                u0[rng.random(size=u0.shape) < 0.3] = 0
                for cc in range(d):
                    ax = d - 1 - cc
                    v = np.moveaxis(u0[cc], ax, -1)
                    v[..., 1::3] = -v[..., 0:-1:3][..., : v[..., 1::3].shape[-1]]
                if kind == "passive" and d == 2:
                    u0[...] = 0
                rec.count("states_with_velocity_ties")
            f0 = _state(rng, skind, shape, (d,), real_t) if cfg["forcing"] else None
            if skind == "planar":
                # LAST step of this simulator object: planar vorticity that stays planar up to the Poisson solve (component zc identically
                # zero, uniform velocity with u_zc = 0 or fluid at rest, forcing only along zc), after steps in which that component was
                # not zero: the stream function of the vanishing component must be recomputed (= 0), not kept
                zc = int(rng.integers(3))
                w0[zc] = 0
                for cc in range(3):
                    u0[cc] = real_t(rng.uniform(0.5, 2.0)) if (cc != zc and c["cid"] % 2) else 0
                if f0 is not None:
                    for cc in range(3):
                        if cc != zc:
                            f0[cc] = 0
            fs = rng.standard_normal(d)
            if skind in ("mixed", "ties"):
                # axis-aligned free streams: one or two components exactly zero (python/numpy zeros), the rest generic
                for i_ in rng.permutation(d)[: int(rng.integers(1, d))]:
                    fs[int(i_)] = 0.0
                rec.count("steps_with_axis_aligned_free_stream")
            prim = sims.primary(sim)
            prim[...] = w0
            sim.velocity_field[...] = u0
            if f0 is not None:
                sim.eul_grid_forcing_field[...] = f0
            # scratch garbage must not matter
            sims.poison(rng, sims.scratch_arrays(sim), 1e2)
            sim.time = t0
            kw = {}
            if kind != "passive":
                for i_ in range(d):
                    fs_box[i_] = float(fs[i_])
                kw["free_stream_velocity"] = fs_box
                rec.count("steps_with_free_stream_container_updated_in_place")
            try:
                sim.time_step(dt=dt, **kw)
            except Exception as e:
                if cfg["width"] == 1 and isinstance(e, ValueError) and kind != "passive":
                    rec.violation("boundary-damping-width1-raises", f"time_step raises {type(e).__name__}: {e} cfg={label}", {"cfg": cfg})
                else:
                    rec.violation("time_step-raises", f"{type(e).__name__}: {e} cfg={label}", {"cfg": cfg})
                rec.case(None)
                break
            rec.count("steps_" + kind)
            if skind == "planar" and not np.asarray(prim[zc]).any():
                rec.count("steps_observed_with_zero_component_at_poisson_solve")
            # clock and forcing
            rec.count("clock_checks")
            if not (sim.time == t0 + dt):  # same float addition, same operand types
                rec.violation("clock!=t0+dt", f"time {sim.time!r} expected {t0 + dt!r} cfg={label}", {"cfg": cfg})
            if f0 is not None:
                rec.count("forcing_zero_checks")
                if np.ascontiguousarray(sim.eul_grid_forcing_field).view(np.uint8).any():
                    rec.violation("forcing-not-zero-on-return", f"forcing field has non-zero bytes after the step cfg={label}", {"cfg": cfg})
            if kind != "passive" and not np.array_equal(np.asarray(kw["free_stream_velocity"], np.float64), fs):
                rec.violation("free-stream-argument-modified", f"cfg={label}", {"cfg": cfg})

            # reference
            if kind == "ns2d":
                run = lambda P: rstep.ns2d_step(w0, u0, f0, dt, dx, nu, rho, cfg["width"], fs, cfg["forcing"], cfg["free_stream"], real_t, P)[:2]
            elif kind == "ns3d":
                run = lambda P: rstep.ns3d_step(w0, u0, f0, dt, dx, nu, rho, cfg["width"], fs, cfg["forcing"], cfg["free_stream"], cfg["filter"], cfg["solver"], real_t, P)[:2]
            else:
                run = lambda P: (rstep.passive_step(w0, u0, dt, dx, nu, real_t, P), np.asarray(u0, np.float64))
            (wr, ur), (tw, tu) = rstep.noise_tol(run, real_t, rng)
            rw = util.err_over_tol(prim, wr, tw)
            ru = util.err_over_tol(sim.velocity_field, ur, tu)
            rec.stat(f"{kind}_primary", rw)
            rec.stat(f"{kind}_velocity", ru)
            if max(rw, ru) > 0.2:
                rec.note(f"ratio>0.2: rw={rw:.3g} ru={ru:.3g} state={skind} dt={dt:.3g} nu={nu:.3g} rho={rho:.3g} cfg={label}")
            changed = util.maxabs(wr - w0.astype(np.float64)) > tw and (kind == "passive" or util.maxabs(ur - u0.astype(np.float64)) > tu)
            cls = (kind, c["dtype"], cfg["forcing"], cfg["free_stream"], cfg["width"], str(cfg["filter"]), cfg["solver"][:5], cfg["field_type"], skind)
            rec.case(cls if changed else None, sample={**label, "state": skind, "dt": dt, "nu": nu, "rho": rho, "err_over_tol": [rw, ru]})
            wit = {"cfg": cfg, "dt": dt, "w0": w0, "u0": u0, "f0": f0, "fs": fs}
            if rw > 1:
                rec.violation(f"{kind}-vorticity!=reference" if kind != "passive" else "passive-field!=reference",
                              f"max err/tol={rw:.3g} state={skind} dt={dt:.3g} nu={nu:.3g} rho={rho:.3g} cfg={label}", wit)
            if ru > 1:
                rec.violation(f"{kind}-velocity!=reference", f"max err/tol={ru:.3g} state={skind} dt={dt:.3g} cfg={label}", wit)
