"""C02 — convergence to analytic Navier–Stokes / advection–diffusion solutions (DESIGN §4 C02).

Oracle split (measured, see DESIGN): on the diffusion-limited path B (dt ∝ dx², verified from the dt the
simulator itself returns) the least-squares slope and every pairwise order must be >= 1; on the default-CFL
path A only calibrated bounds, monotone decrease and a calibrated overall-order floor are asserted.
Bounds come from calibration/C02.json (tools/calibrate_c02.py, committed; never recalibrated at run time).
"""
import json
import os

import numpy as np

from .. import env, sims, util

ID = "C02"
LEVEL = "exploration"
TITLE = "Simulations converge to analytic Navier-Stokes / advection-diffusion solutions"
TECHNIQUE = "runtime monitoring: error trace of real simulations against closed-form solutions over refinement families; order and calibrated-bound oracle"
RULE = (
    "families of resolutions (2-D 32..128, 3-D 16..48) for: Lamb-Oseen vortex in a free stream (2-D Navier-Stokes), Gaussian blob in uniform flow "
    "(passive transport 2-D scalar, 3-D scalar, 3-D vector); parameters (centre, strength, viscosity, stream direction/speed, start time) drawn "
    "from committed boxes that keep the solution away from the boundary zone; time step always the simulator's own compute_stable_timestep(); "
    "path B = diffusion-limited (checked from the returned dt on every grid, other draws are discarded and counted), path A = default CFL.  "
    "One evaluation = one complete simulation; distinct = (case, path, dtype, resolution); non-trivial = the exact solution moved by more than "
    "the discretisation error (advection distance > dx) and the regime check passed."
)
ASSUMPTIONS = [
    "closed forms: Lamb-Oseen vortex advected by U; heat kernel advected by U (written from the textbook formulas)",
    "bounds = 3 x worst error over >= 48 calibration draws on the pinned tree (calibration/C02.json); order floors as committed there",
    "asymptotic order inferred from 3-5 grids; on path A only a necessary condition of first-order convergence is tested (measured: pre-asymptotic)",
]
REQUIRE = {"families_path_B": 3, "families_path_A": 3, "simulations": 18}
SHARD_TIMEOUT = {"quick": 1500, "thorough": 3400}

CASES = ("lamb_oseen", "passive2d", "passive3d_scalar", "passive3d_vector")
RES = {2: (32, 48, 64, 96, 128), 3: (16, 24, 32, 48)}
RES_QUICK = {2: (32, 64, 128), 3: (16, 32, 48)}


def draw(case, path, rng):
    d = 2 if case in ("lamb_oseen", "passive2d") else 3
    dirn = rng.standard_normal(d)
    dirn /= np.linalg.norm(dirn)
    if path == "B":
        nu = float(rng.uniform(1e-2, 2e-2))
        t0 = float(rng.uniform(0.05, 0.09))
        T = float(rng.uniform(0.04, 0.07))
        speed = float(rng.uniform(0.15, 0.45))
        cfl = 0.5
    else:
        nu = float(rng.uniform(1e-3, 3e-3))
        t0 = 1.0 if d == 2 else 2.0
        T = float(rng.uniform(0.10, 0.15))
        speed = float(rng.uniform(0.6, 1.2))
        cfl = 0.1
    U = dirn * speed
    ext = np.array([1.0, 0.75, 1.0][:d])  # extents along x, y(, z): grids are (3n/4, n) and (n, 3n/4, n)
    c0 = 0.5 * ext - U * T / 2 + rng.uniform(-0.04, 0.04, size=d)
    p = {"case": case, "path": path, "dim": d, "nu": nu, "t0": t0, "T": T, "U": U.tolist(), "c0": c0.tolist(), "cfl": cfl}
    rc = np.sqrt(4 * nu * t0)
    if case == "lamb_oseen":
        vmax = 0.1 if path == "B" else float(rng.uniform(0.1, 0.4))
        p["gamma"] = float(vmax * 2 * np.pi * rc / 0.72)  # peak swirl velocity ~ vmax
    else:
        p["amp"] = float(rng.uniform(0.5, 2.0))
    # the simulator object is CONSTRUCTED with another viscosity (x3 or x0.3) and the public attribute is set to the wanted value before
    # the run (a viscosity sweep on one live object): every step, like compute_stable_timestep, must use the live value
    p["ctor_nu_factor"] = float(rng.choice([1.0, 3.0, 0.3]))
    return p


def _gauss(pos, c, nu, t, d, A):
    r2 = sum((pos[i] - c[i]) ** 2 for i in range(d))
    return A / (4 * np.pi * nu * t) ** (d / 2) * np.exp(-r2 / (4 * nu * t))


def _lo_velocity(pos, c, nu, gam, t):
    x, y = pos[0] - c[0], pos[1] - c[1]
    r = np.sqrt(x * x + y * y)
    with np.errstate(divide="ignore", invalid="ignore"):
        vt = np.where(r > 0, gam / (2 * np.pi * r) * (1 - np.exp(-r * r / (4 * nu * t))), 0.0)
        return np.array([np.where(r > 0, -vt * y / r, 0.0), np.where(r > 0, vt * x / r, 0.0)])


def simulate(p, n, dtype):
    """one real simulation; returns dict(err_end, err_max, steps, regime_ok, moved_cells)"""
    d = p["dim"]
    real_t = util.DT[dtype]
    nu, t0, T, U, c0 = p["nu"], p["t0"], p["T"], np.array(p["U"]), np.array(p["c0"])
    # grids are NON-square / NON-cubic, (3n/4, n) and (n, 3n/4, n): the y extent is 3/4 of the x (and z) extent, so the simulator's
    # own coordinate field, on which the exact solution is evaluated, must get every axis extent from the right grid size
    shape = ((3 * n) // 4, n) if d == 2 else (n, (3 * n) // 4, n)
    nu_ctor = nu * p.get("ctor_nu_factor", 1.0)
    if p["case"] == "lamb_oseen":
        # path A through the documented factory function, path B through the class
        sim = sims.build(dict(kind="ns2d", shape=shape, x_range=1.0, nu=nu_ctor, dtype=dtype, threads=1, free_stream=True, time=t0, cfl=p["cfl"],
                              via_factory=(p["path"] == "A")))
    else:
        sim = sims.build(dict(kind="passive", shape=shape, x_range=1.0, nu=nu_ctor, dtype=dtype, threads=1, time=t0, cfl=p["cfl"],
                              field_type="vector" if p["case"].endswith("vector") else "scalar"))
    if nu_ctor != nu:
        sim.kinematic_viscosity = nu
    pos = np.asarray(sim.position_field, np.float64)
    dx = float(sim.dx)

    def exact(t):
        c = c0 + U * (t - t0)
        if p["case"] == "lamb_oseen":
            return _gauss(pos, c, nu, t, 2, p["gamma"])
        return _gauss(pos, c, nu, t, d, p["amp"] * (4 * np.pi * nu * t0) ** (d / 2))

    if p["case"] == "lamb_oseen":
        sim.vorticity_field[...] = exact(t0)
        sim.velocity_field[...] = _lo_velocity(pos, c0, nu, p["gamma"], t0) + U.reshape(2, 1, 1)
    else:
        for i in range(d):
            sim.velocity_field[i] = U[i]
        f0 = exact(t0)
        if p["case"].endswith("vector"):
            for i in range(d):
                sim.primary_field[i] = f0 * (i + 1)
        else:
            sim.primary_field[...] = f0

    def err():
        ex = exact(float(sim.time))
        got = sims.primary(sim)
        if p["case"].endswith("vector"):
            return max(float(np.linalg.norm(np.asarray(got[i], np.float64) - ex * (i + 1)) / np.linalg.norm(ex * (i + 1))) for i in range(d))
        return float(np.linalg.norm(np.asarray(got, np.float64) - ex) / np.linalg.norm(ex))

    t_end = t0 + T
    marks = [t0 + T * k / 4 for k in (1, 2, 3)]
    trace = []
    steps = 0
    regime_ok = True
    diff_lim = 0.9 * dx * dx / (2 * d) / nu
    while sim.time < t_end - 1e-12 * t_end:
        dt_s = float(sim.compute_stable_timestep())
        if not np.isfinite(dt_s) or dt_s <= 0:
            return {"err_end": float("inf"), "err_max": float("inf"), "steps": steps, "regime_ok": False, "bad_dt": dt_s}
        # which limit SHOULD be active is decided from the parameters (documented limits), not from the dt the simulator
        # returned: a simulator that recommends a wrong step in the intended regime must fail the convergence oracle,
        # not be discarded as "wrong regime"
        adv_lim = p["cfl"] * dx / (float(np.max(np.sum(np.abs(np.asarray(sim.velocity_field, np.float64)), axis=0))) + 1e-300)
        is_diff = diff_lim < adv_lim
        margin = max(diff_lim, adv_lim) / min(diff_lim, adv_lim)
        if (p["path"] == "B") != is_diff or margin < 1.05:
            regime_ok = False
        dt = min(dt_s, t_end - float(sim.time))
        if p["case"] == "lamb_oseen":
            sim.time_step(dt=dt, free_stream_velocity=U)
        else:
            sim.time_step(dt=dt)
        steps += 1
        if marks and sim.time >= marks[0]:
            marks.pop(0)
            trace.append(err())
        if steps > 200000:
            break
    e_end = err()
    trace.append(e_end)
    verr = 0.0
    if p["case"] == "lamb_oseen":
        # velocity recovered through the unbounded Poisson solve vs the analytic swirl + free stream, on the central half box
        c = c0 + U * (float(sim.time) - t0)
        uex = _lo_velocity(pos, c, nu, p["gamma"], float(sim.time))
        box = (slice(shape[0] // 4, 3 * shape[0] // 4), slice(n // 4, 3 * n // 4))
        du = np.asarray(sim.velocity_field, np.float64) - U.reshape(2, 1, 1) - uex
        verr = float(np.linalg.norm(du[(slice(None),) + box]) / np.linalg.norm(uex[(slice(None),) + box]))
    return {"verr_end": verr, "err_end": e_end, "err_max": float(np.nanmax(trace)) if np.all(np.isfinite(trace)) else float("inf"), "steps": steps,
            "regime_ok": regime_ok, "moved_cells": float(np.linalg.norm(U) * T / dx), "time_error": abs(float(sim.time) - t_end)}


def orders(ns, errs):
    ns, errs = np.array(ns, float), np.array(errs, float)
    pair = [float(np.log(errs[i] / errs[i + 1]) / np.log(ns[i + 1] / ns[i])) for i in range(len(ns) - 1)]
    slope = float(np.polyfit(np.log(1 / ns), np.log(errs), 1)[0])
    overall = float(np.log(errs[0] / errs[-1]) / np.log(ns[-1] / ns[0]))
    return pair, slope, overall


def load_cal():
    with open(os.path.join(env.ROOT, "calibration", "C02.json")) as f:
        return json.load(f)


def shards(tier, seed):
    out = []
    draws = 1 if tier == "quick" else 6
    for case in CASES:
        for path in ("A", "B"):
            for k in range(draws):
                if tier == "quick":
                    dts = ["float64"] if (CASES.index(case) + seed + (path == "B")) % 2 == 0 else ["float32"]
                else:
                    dts = ["float64", "float32"]
                for dt in dts:
                    out.append({"name": f"{case}-{path}-{k}-{dt}", "case": case, "path": path, "draw": k, "dtype": dt})
    return out


def run_shard(sh, rec):
    tier, seed = sh["tier"], sh["seed"]
    cal = load_cal()
    case, path, dtype = sh["case"], sh["path"], sh["dtype"]
    d = 2 if case in ("lamb_oseen", "passive2d") else 3
    ns = (RES_QUICK if tier == "quick" else RES)[d]
    rng = util.rng_for(seed, "C02", case, path, sh["draw"])
    key = f"{case}:{path}:{dtype}"
    cb = cal["cases"][key]
    for attempt in range(4):
        p = draw(case, path, rng)
        res = []
        ok = True
        for n in ns:
            r = simulate(p, n, dtype)
            rec.count("simulations")
            res.append(r)
            if not r["regime_ok"]:
                ok = False
                break
        if ok:
            break
        rec.count("draws_discarded_wrong_regime")
    else:
        rec.inconclusive_(f"no draw in the intended time-step regime for {key}")
        return
    if p.get("ctor_nu_factor", 1.0) != 1.0:
        rec.count("families_on_simulators_constructed_with_another_viscosity")
    # one more run at an "awkward" resolution (prime-ish cell counts, doubled length not an FFT-friendly size): judged against the
    # calibrated bound of the next SMALLER calibrated resolution (errors decrease with n on both paths)
    n_awk = ((37, 53, 74, 97) if d == 2 else (17, 19, 23, 29))[(seed + sh["draw"] + CASES.index(case)) % 4]
    n_cal = max(int(k) for k in cb["bound"] if int(k) <= n_awk)
    r_awk = simulate(p, n_awk, dtype)
    rec.count("simulations")
    rec.count("simulations_at_awkward_resolution")
    if r_awk["regime_ok"]:
        b = cb["bound"][str(n_cal)]
        rec.stat(f"err_over_bound_awkward_{path}", r_awk["err_max"] / b)
        if not (r_awk["err_max"] <= b):
            rec.violation(f"{case}:error>calibrated-bound:path{path}", f"awkward resolution n={n_awk} err={r_awk['err_max']:.3e} bound(n={n_cal})={b:.3e} nu={p['nu']} U={p['U']}", {"p": p, "n": n_awk})
        if case == "lamb_oseen" and not (r_awk["verr_end"] <= cb["vbound"][str(n_cal)]):
            rec.violation(f"{case}:velocity-error>calibrated-bound:path{path}", f"awkward resolution n={n_awk} verr={r_awk['verr_end']:.3e} bound(n={n_cal})={cb['vbound'][str(n_cal)]:.3e}", {"p": p, "n": n_awk})
    else:
        rec.count("awkward_resolution_runs_outside_intended_regime")
    errs = [r["err_end"] for r in res]
    pair, slope, overall = orders(ns, errs) if all(np.isfinite(errs)) and min(errs) > 0 else ([float("-inf")], float("-inf"), float("-inf"))
    rec.count("families_path_" + path)
    label = {"case": case, "path": path, "dtype": dtype, "ns": ns, "errors": errs, "pairwise_orders": pair, "lsq_slope": slope, "overall_order": overall,
             "nu": p["nu"], "U": p["U"], "steps": [r["steps"] for r in res]}
    for n, r in zip(ns, res):
        nontrivial = r["moved_cells"] > 1.0
        rec.case((case, path, dtype, n) if nontrivial else None, sample=label if n == ns[-1] else None)
        b = cb["bound"][str(n)]
        rec.stat(f"err_over_bound_{path}", r["err_max"] / b)
        if not (r["err_max"] <= b):
            rec.violation(f"{case}:error>calibrated-bound:path{path}", f"n={n} err={r['err_max']:.3e} bound={b:.3e} {label}", {"p": p, "label": label})
        if case == "lamb_oseen":
            vb = cb["vbound"][str(n)]
            rec.stat(f"velocity_err_over_bound_{path}", r["verr_end"] / vb)
            if not (r["verr_end"] <= vb):
                rec.violation(f"{case}:velocity-error>calibrated-bound:path{path}", f"n={n} verr={r['verr_end']:.3e} bound={vb:.3e} {label}", {"p": p, "label": label})
        if r["time_error"] > 1e-9:
            rec.violation(f"{case}:end-time-not-reached", f"n={n} |t-t_end|={r['time_error']:.3e}", {"p": p})
    if path == "B":
        rec.stat("min_pairwise_order_B_deficit", 1.0 - min(pair))  # < 0 means margin
        if not (slope >= 1.0 and min(pair) >= 1.0):
            rec.violation(f"{case}:order<1:pathB", f"lsq slope={slope:.2f} pairwise={['%.2f' % x for x in pair]} {label}", {"p": p, "label": label})
    else:
        if not all(errs[i + 1] < errs[i] for i in range(len(errs) - 1)):
            rec.violation(f"{case}:error-not-decreasing:pathA", f"{label}", {"p": p, "label": label})
        if not (overall >= cb["overall_floor"]):
            rec.violation(f"{case}:overall-order<floor:pathA", f"overall={overall:.2f} floor={cb['overall_floor']:.2f} {label}", {"p": p, "label": label})
