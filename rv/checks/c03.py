"""C03 — unbounded Poisson solve = free-space Green's-function convolution (DESIGN §4 C03)."""
import numpy as np

from .. import util
from ..ref import ops

ID = "C03"
LEVEL = "exploration"
TECHNIQUE = "runtime monitoring: reference-model oracle (direct long-double Green's-function convolution, impulse responses vs G itself) + bitwise call-history differential on one solver object + sibling objects in one process"
TITLE = "Unbounded Poisson solve equals the free-space Green's-function convolution"
RULE = (
    "solver objects over random non-square/non-cubic shapes (odd and even sizes), domain lengths "
    "{0.37,1,2pi,10}, both precisions, 1 or 4 threads; per object: random/big/constant right-hand "
    "sides compared with a direct O(N^2) aperiodic convolution, unit impulses (corners, edge "
    "mid-points, interior) compared entry-wise with G itself, source/target symmetry, linearity, "
    "bitwise history independence after random earlier solves, vector solve == 3 scalar solves "
    "bitwise.  A case is non-trivial if the rhs is non-zero; distinct = (dim, dtype, size parities, "
    "x_range, rhs kind, sub-check)."
)
ASSUMPTIONS = [
    "scipy.signal.convolve(method='direct') in float64 is the trusted aperiodic convolution",
    "tolerance 256*eps*(pointwise sum|G||f| + 0.25*||f||2*||G||2)*dx^d models FFT round-off; calibrated headroom >= 10x",
    "bitwise history independence is only asserted inside one process / one FFTW plan",
]
REQUIRE = {"long_axis_objects": 2, "vector_solves_with_zero_components": 2, "sibling_objects_same_shape_other_domain_length": 4, "solves_vs_direct_convolution": 4, "impulse_cells_compared": 100, "history_probes_bitwise": 2}
XR = (0.37, 1.0, 2 * np.pi, 10.0)


def shards(tier, seed):
    n = 16 if tier == "quick" else 48
    out = []
    for i in range(n):
        out.append({"name": f"obj{i}", "idx": i, "dim": 2 if i % 2 == 0 else 3, "dtype": "float64" if (i // 2) % 2 == 0 else "float32"})
    return out


def _tol(eps, f, G, dx, d, bound):
    return 256 * eps * (bound + 0.25 * np.linalg.norm(f) * np.linalg.norm(G) * dx**d) + 1e-300


def run_shard(sh, rec):
    import sopht.numeric.eulerian_grid_ops as spne

    tier, seed = sh["tier"], sh["seed"]
    d = sh["dim"]
    real_t = util.DT[sh["dtype"]]
    eps = util.eps(real_t)
    rng = util.rng_for(seed, "C03", sh["idx"])
    nobj = 2 if tier == "quick" else 5
    hi = (40 if d == 2 else 14) if tier == "quick" else (48 if d == 2 else 18)
    prev = None
    for k in range(nobj):
        shape = util.shape2d(rng, 3, hi) if d == 2 else util.shape3d(rng, 3, hi)
        if k == 0 and sh["idx"] % 5 == 0:
            shape = tuple([3] * (d - 1) + [int(rng.integers(3, 9))])  # minimal slab
        if k == 0 and sh["idx"] % 5 in (1, 2):
            # one long axis (33..72 cells) with thin other axes: blocked / slab-wise construction of the Green's function table
            # (blocks of 32 or 64 planes of the doubled domain) is only exercised by long axes
            ls = [int(x) for x in rng.integers(2, 5, size=d)]
            ls[int(rng.integers(d))] = int(rng.integers(33, 73))
            shape = tuple(ls)
            rec.count("long_axis_objects")
        xr = float(XR[int(rng.integers(len(XR)))])
        nt = int(rng.choice([1, 4]))
        if prev is not None and k % 2 == 1:
            # sibling object: same grid shape and precision as the previous object in this process, different domain
            # length (and thread count) - anything cached per shape/precision across objects shows up here
            shape = prev[0]
            xr = float([x for x in XR if x != prev[1]][int(rng.integers(len(XR) - 1))])
            nt = 5 - prev[2]
            rec.count("sibling_objects_same_shape_other_domain_length")
        prev = (shape, xr, nt)
        if k == 0:
            # predecessor of the OTHER precision in this process with the same shape, domain length and thread count
            other_t = np.float32 if real_t is np.float64 else np.float64
            try:
                if d == 2:
                    sp_ = spne.UnboundedPoissonSolverPYFFTW2D(grid_size_y=shape[0], grid_size_x=shape[1], x_range=xr, num_threads=nt, real_t=other_t)
                else:
                    sp_ = spne.UnboundedPoissonSolverPYFFTW3D(shape[0], shape[1], shape[2], x_range=xr, num_threads=nt, real_t=other_t)
                fo = util.field(rng, shape, "noise", other_t)
                sp_.solve(solution_field=np.zeros_like(fo), rhs_field=fo)
                rec.count("other_precision_predecessors")
            except Exception as e:
                rec.note(f"other-precision predecessor failed: {type(e).__name__}: {e}")
        if d == 2:
            s = spne.UnboundedPoissonSolverPYFFTW2D(grid_size_y=shape[0], grid_size_x=shape[1], x_range=xr, num_threads=nt, real_t=real_t)
        else:
            s = spne.UnboundedPoissonSolverPYFFTW3D(shape[0], shape[1], shape[2], x_range=xr, num_threads=nt, real_t=real_t)
        dx = float(real_t(xr / shape[-1]))
        G = ops.greens_kernel(shape, dx)
        par = tuple(n % 2 for n in shape)
        base = (d, sh["dtype"], par, round(xr, 2))
        meta = {"dim": d, "dtype": sh["dtype"], "shape": shape, "x_range": xr, "threads": nt}

        ncall = [0]

        def solve(f):
            out = util.sentinel_like(rng, shape, real_t)
            ncall[0] += 1
            if ncall[0] % 3 == 2:
                # the caller's arrays are non-contiguous views (interior of a padded allocation, every second cell, column-major):
                # the solver only copies in and out, so layout must not matter
                out = util.noncontiguous_copy(rng, out)
                f = util.noncontiguous_copy(rng, f)
                rec.count("solves_with_noncontiguous_arguments")
            f0 = f.copy()
            s.solve(solution_field=out, rhs_field=f)
            rec.check(util.bits_equal(np.ascontiguousarray(f), np.ascontiguousarray(f0)), "rhs-modified", f"solve modified its right-hand side {meta}", {"meta": meta})
            rec.check(out.dtype == np.dtype(real_t), "dtype", f"solution dtype {out.dtype}", {"meta": meta})
            return np.ascontiguousarray(out)

        # 1. random rhs vs direct convolution
        for kind in ("noise", "big", "const", "spikes"):
            f = util.field(rng, shape, kind, real_t)
            if kind == "const":
                f[...] = 1.0
            try:
                u = solve(f)
            except Exception as e:
                rec.violation("solve-raises", f"{type(e).__name__}: {e} {meta}", {"meta": meta})
                rec.case(None)
                continue
            ref, bound = ops.greens_convolution(f, dx, method="auto", with_bound=True)
            tol = _tol(eps, f.astype(np.float64), G, dx, d, bound)
            r = util.err_over_tol(u, ref, tol)
            rec.stat("solve_vs_convolution", r); rec.stat(f"svc_{kind}_{sh['dtype']}_{d}", r)
            rec.count("solves_vs_direct_convolution")
            rec.case((*base, kind, "conv"), sample={**meta, "rhs": kind, "err_over_tol": r})
            if r > 1:
                rec.violation("solve!=greens-convolution", f"max err/tol={r:.3g} rhs={kind} {meta}", {"meta": meta, "f": f, "u": u, "ref": ref})

        # 2. impulses: corners, edge mid-point, random interior -> u = G(. - a) dx^d, entry by entry
        cells = [tuple(0 for _ in shape), tuple(n - 1 for n in shape), tuple((n - 1) * (i == 0) for i, n in enumerate(shape)),
                 tuple(n // 2 if i else 0 for i, n in enumerate(shape)), tuple(int(rng.integers(0, n)) for n in shape)]
        resp = {}
        for a in cells:
            f = np.zeros(shape, real_t)
            amp = float(rng.choice([1.0, -3.0, 0.5]))
            f[a] = amp
            try:
                u = solve(f)
            except Exception as e:
                rec.violation("solve-raises", f"{type(e).__name__}: {e} {meta}", {"meta": meta})
                continue
            sl = tuple(slice(n - 1 - ai, 2 * n - 1 - ai) for n, ai in zip(shape, a))
            ref = amp * G[sl] * dx**d
            tol = _tol(eps, f.astype(np.float64), G, dx, d, np.abs(ref))
            r = util.err_over_tol(u, ref, tol)
            rec.stat("impulse_response", r); rec.stat(f"imp_{sh['dtype']}_{d}", r)
            rec.count("impulse_cells_compared", u.size)
            rec.case((*base, "impulse"), sample=None)
            if r > 1:
                bad = np.unravel_index(int(np.argmax(np.abs(u.astype(np.float64) - ref) / tol)), shape)
                rec.violation("impulse-response!=G", f"source {a} target {bad} err/tol={r:.3g} {meta}", {"meta": meta, "a": a, "u": u, "ref": ref})
            resp[a] = (amp, u.astype(np.float64), tol)
        # symmetry: u_a[b]/amp_a == u_b[a]/amp_b
        keys = list(resp)
        for i in range(len(keys)):
            for j in range(i + 1, len(keys)):
                a, b = keys[i], keys[j]
                ua, ub = resp[a][1][b] / resp[a][0], resp[b][1][a] / resp[b][0]
                t = np.max(resp[a][2]) / abs(resp[a][0]) + np.max(resp[b][2]) / abs(resp[b][0])
                rec.stat("symmetry", abs(ua - ub) / t)
                rec.count("symmetry_pairs")
                if abs(ua - ub) > t:
                    rec.violation("source-target-asymmetry", f"u_{a}[{b}]={ua} u_{b}[{a}]={ub} {meta}", {"meta": meta})

        # 3. linearity
        f1 = util.field(rng, shape, "noise", real_t)
        f2 = util.field(rng, shape, "spikes", real_t)
        al = real_t(rng.choice([2.0, -0.5, 4.0]))  # exact scalings
        try:
            u1, u2 = solve(f1), solve(f2)
            u12 = solve((f1 + al * f2).astype(real_t))
            G2 = np.linalg.norm(G)
            tol = 3 * _tol(eps, np.abs(f1).astype(np.float64) + abs(float(al)) * np.abs(f2), G, dx, d, 0.0) + 64 * eps * (np.abs(u1) + abs(float(al)) * np.abs(u2)).astype(np.float64)
            r = util.err_over_tol(u12, u1.astype(np.float64) + float(al) * u2.astype(np.float64), tol)
            rec.stat("linearity", r)
            rec.case((*base, "linearity"))
            if r > 1:
                rec.violation("nonlinear", f"err/tol={r:.3g} {meta}", {"meta": meta})
        except Exception as e:
            rec.violation("solve-raises", f"{type(e).__name__}: {e} {meta}", {"meta": meta})

        # 4. history independence (bitwise, same object, same plan)
        probe = util.field(rng, shape, "noise", real_t)
        try:
            first = solve(probe)
            nh = int(rng.integers(3, 9))
            hist = []
            for _ in range(nh):
                kind = str(rng.choice(["noise", "big", "ones", "spikes", "huge"]))
                g = util.field(rng, shape, "noise" if kind in ("ones", "huge") else kind, real_t)
                if kind == "ones":
                    g[...] = 1.0
                if kind == "huge":
                    g *= real_t(1e6)
                hist.append(kind)
                solve(g)
            again = solve(probe)
            rec.count("history_probes_bitwise")
            rec.case((*base, "history"), sample={**meta, "history": hist})
            if not util.bits_equal(first, again):
                rec.violation("history-dependent", f"probe solve differs after history {hist}: {util.nbits_differ(first, again)} bytes {meta}", {"meta": meta, "hist": hist})
        except Exception as e:
            rec.violation("solve-raises", f"{type(e).__name__}: {e} {meta}", {"meta": meta})

        # 5. vector solve == three scalar solves (3-D), bitwise
        if d == 3:
            fv = util.field(rng, (3, *shape), "noise", real_t)
            uv = util.sentinel_like(rng, (3, *shape), real_t)
            try:
                fv0 = fv.copy()
                if k % 2 == 1:
                    # planar / axis-aligned right-hand side: one or two components exactly zero (output is sentinel-filled)
                    zc = rng.permutation(3)[: int(rng.integers(1, 3))]
                    fv[zc] = 0
                    fv0 = fv.copy()
                    rec.count("vector_solves_with_zero_components")
                if k % 3 == 2 or sh["idx"] % 3 == 0:
                    uv = util.noncontiguous_copy(rng, uv)
                    fv = util.noncontiguous_copy(rng, fv)
                    rec.count("vector_solves_with_noncontiguous_arguments")
                s.vector_field_solve(solution_vector_field=uv, rhs_vector_field=fv)
                uv, fv = np.ascontiguousarray(uv), np.ascontiguousarray(fv)
                ok = util.bits_equal(fv, fv0)
                for c in range(3):
                    uc = solve(fv[c])
                    ok = ok and util.bits_equal(uc, uv[c])
                rec.count("vector_solves")
                rec.case((*base, "vector"))
                if not ok:
                    rec.violation("vector!=3-scalar-solves", f"{meta}", {"meta": meta})
            except Exception as e:
                rec.violation("solve-raises", f"{type(e).__name__}: {e} {meta}", {"meta": meta})
