"""C04 — transport, diffusion and forcing conserve total vorticity / transported scalar (DESIGN §4 C04).

Runtime monitoring of the REAL simulators and kernels; the oracle is the algebraic invariant itself
(grid sums, face-flux pairing), never a transcription of a kernel.

(a) End to end, ONE ``time_step`` of UnboundedNavierStokesFlowSimulator2D/3D and
    PassiveTransportFlowSimulator (2-D scalar, 3-D scalar, 3-D vector) over a pairwise covering array
    of {forcing, free stream, filter off | multiplicative 1..3 | convolution 1..3, Green's | fast
    diagonalisation, zone width 0,2,3,4, precision}: vorticity / scalar and forcing supported at
    least m = w + order + 6 cells from every face, arbitrary NON-compact velocity, random nu, rho and
    dt up to 10^3 x the stability limits.  Reach of one step (cells the support can grow):
    forcing curl 1 + (ENO3 2 | rotational-form curl 1) + diffusion 1 + filter `order` <= order + 4,
    so m - reach >= w + 2 and the boundary-zone damping only ever multiplies exact zeros; a case with
    m - reach < w would be discarded and counted (``e2e_cases_discarded`` — none with the fixed pools).
    Monitor: for every component |sum_after - sum_before| <= 16 eps_t S, where S is the sum of the
    magnitudes of all terms the step adds up:  S = (sum|w| + 4 c_F sum|F|) (1 + a_adv)(1 + 4 d b)(2 + 3p),
    c_F = dt/(2 dx rho), a_adv = (8d/3)(dt/dx) max|u| (ENO3) or 4 (dt/dx) max|u| (3-D rotational form),
    b = nu dt/dx^2, p = filter order.  The sharper figure |d sum| / (16 eps sum(|before|+|after|)) is
    recorded as ``e2e_vs_before_after_*`` (informational; it equals the enforced ratio within a small
    factor for rough fields and is larger for smooth ones where increments cancel).
    Zone width 1 is not used here (finding F6, owned by C19/C13).
    Workload diversity (added after the seeded-change campaign): in the quick tier every other configuration runs on the
    tall (2-D, grid_size_y > grid_size_x) / permuted (3-D) pool shape; per shard 1-2 configurations build a SIBLING
    simulator (same shape, precision and options, x_range x 2.5) in the same process, step it, and then step the FIRST
    object again; face / flux / update kernels get their scalar arguments alternately as python float and as real_t, and
    the face kernels see a tall, a wide and (3-D) a middle-axis-longest grid on the same generated kernel objects.
    The public diffusion-flux kernel (ghost reset on) is called three times with the SAME flux array object, refilled with
    garbage (ring included) in between.  Self-test: diffusion_flux_2d.py:70 ghost-ring reset of the flux performed only the first time an array object (id) is seen (sed)
    -> VIOLATION diffusion-flux-sum!=0 with 'call_on_same_flux_array': 2.
(b) Cell level on the compiled sub-kernels taken from the kernel registry (identified by their access
    signature on ``field``: {-1,0,1,2} e_a = front face of axis a, {-2,-1,0,1} e_a = back face): each
    run ALONE on a zeroed flux array with inv_dx = 1;  front_out[i] == -back_out[i+1]  for every
    interior face within 16 eps_t x (largest |f v| in the 4-cell stencil; measured <= 1.1 eps_t, the
    ratio against DESIGN's 4 ulp is recorded as ``face_pairing_vs_4eps_info``), over velocity fields realising
    ++, --, diverging, converging, ties v_i == -v_{i+1} (both zero included) and one-sided zeros; faces
    are counted per pattern per axis (REQUIRE >= 100 each).
    Black box at the public boundary: delta_k field, random velocities => the public ENO3 flux sums
    to zero; compact fields => public ENO3 flux, diffusion flux (2-D, 3-D scalar/vector, with and
    without ghost reset) sum to zero; forcing-curl update and Laplacian filter (orders 1..3, both types,
    scalar/vector) leave the sum unchanged.

Workload dimensions added later, kernel-level legs only (face kernels / public ENO3 flux kernel, and the flux / update / filter kernels;
the end-to-end leg drives whole simulators and is out of scope).  No existing assertion or tolerance was changed; every new execution is
judged by the module's own monitors at their existing tolerances, never bitwise against an execution with another layout:
  (a) array layout -- every third (grid, axis) pair of face-kernel calls, every third public-flux call (delta probes, compact field) and
      every third call of the diffusion-flux / forcing-update / filter kernels gets ALL caller arrays (zeroed or garbage-filled flux,
      field, velocity, in/out vorticity, forcing) as non-contiguous views of the same values (pad / step / fortran per array,
      util.noncontiguous_copy); results are read back with np.ascontiguousarray.  A third of the filter objects is generated with
      non-contiguous WORK BUFFERS.
  (b) histories of TEMPORARY views on one kernel object, compared afterwards -- the two compiled face kernels of each axis (K = 3: flux,
      field, velocity = stack[j]; pairing judged per j), the public ENO3 kernel (K = 4 single-cell fields with their own velocities and
      inv_dx), diffusion flux scalar / vector with and without ghost reset (K = 4, own prefactors), forcing update (K = 4), every
      filter object (K = 3).
  (c) exactly-zero multipliers -- diffusion-flux prefactor EXACTLY 0 (one draw per (dim, reset) and the two repeat calls on the same flux
      object; NaN sentinels in the flux array when the ghost zone is reset): every term vanishes, so the module's own tolerance
      16 eps sum|terms| is 0 and the flux must sum to exactly 0; forcing-update prefactor 0 (same monitor).  Not applicable to the face /
      public advection kernels (inv_dx = 1/dx > 0; zero VELOCITIES are already a pattern class) and to the filters (no scalar argument).
  (d) other-precision predecessors -- the ENO3 flux generator (before the registry mark, so its sub-kernels are not taken for the observed
      ones), every diffusion-flux / forcing-update generator call and the scalar filter generators are first called for the OTHER precision
      with otherwise identical options and the result called once.
  Self-test (tools/mut.sh, quick, seed 0; "before" = this module at the preceding commit, run from a git worktree):
  diffusion_flux_3d.py:73   ghost-ring reset on np.ascontiguousarray(diffusion_flux) (a copy iff the flux is not contiguous)        before HELD (by construction); now diffusion-flux-sum!=0 (view calls)
  diffusion_flux_3d.py      vector wrapper takes the x component of the OUTPUT from a dict keyed by id(vector_field_diffusion_flux)    before HELD; now diffusion-flux-sum!=0 ('history_call': ...)
  advection_flux_2d.py      x-front sweep takes velocity[x] from a dict keyed by id(velocity)                                        before HELD; now delta-flux-sum!=0
  diffusion_flux_2d.py      stencil kernel skipped when prefactor == 0 (ghost ring still reset)                                      before HELD; now diffusion-flux-sum!=0 (nan) at prefactor 0.0
  diffusion_flux_2d.py      bare (no-reset) stencil kernel memoised per num_threads without the precision                            before HELD; now diffusion-flux-raises (kernel of the other precision served)
  No false alarm occurred while adding (a)-(d).

Measured max err/tol on the unchanged tree (seeds 0..5 quick, 0..1 thorough, both precisions):
  end to end (16 eps S)                           ns2d 0.038  ns3d 0.0075  passive 0.022
  end to end vs 16 eps sum(|before|+|after|)      0.058  (informational, not enforced)
  face pairing (16 eps max|f v|)                  0.083  (= 0.33 of DESIGN's 4 eps; a sum of three products in two
                                                  association orders differs by <= ~1.3 eps max|f v|)
  delta / compact ENO3 flux sums, diffusion flux, forcing curl, filter sums (16 eps sum|terms|)   <= 0.031
  no case discarded, no non-finite state, support growth == computed reach in the worst case.
Wall (16 cores shared with other checks): quick 40-45 s (15 s unloaded), thorough 130-200 s.

MUTATIONS  (tools/mut.sh --sed, quick tier, seed 0; every one reported VIOLATION with the mechanisms listed)
  advection_flux_2d.py:65   back-x kernel 5/6 -> 4/6 (upwind branch only)        face-flux-mismatch:2d-x, delta-flux-sum!=0, advection-flux-sum!=0,
                                                                                grid-sum-changed:ns2d, grid-sum-changed:passive
  advection_flux_3d.py:121  back-y kernel 5/6 -> 4/6 (else branch only)          face-flux-mismatch:3d-y, delta-flux-sum!=0, advection-flux-sum!=0, grid-sum-changed:passive
  advection_flux_3d.py:170  back-z kernel 1/3 -> 1/2 (else branch only)          face-flux-mismatch:3d-z, delta-flux-sum!=0, advection-flux-sum!=0, grid-sum-changed:passive
  advection_flux_2d.py:93   front-y condition '>' -> '<' (one kernel only)       face-flux-mismatch:2d-y, delta-flux-sum!=0, advection-flux-sum!=0, grid-sum-changed:ns2d/passive
  advection_flux_3d.py:41   front-x condition '>' -> '>=' (differs on ties only) face-flux-mismatch:3d-x (pattern 'tie'), delta-flux-sum!=0, grid-sum-changed:passive
  update_vorticity_from_velocity_forcing_2d.py:39  '- f_y[0,-1]' -> '- 0.9*f_y[0,-1]'       forcing-curl-sum-changed, grid-sum-changed:ns2d
  update_vorticity_from_velocity_forcing_3d.py:44  '+ f_y[-1,0,0]' -> '+ 1.1*f_y[-1,0,0]'   forcing-curl-sum-changed, grid-sum-changed:ns3d (also the advection term)
  diffusion_flux_2d.py:35   centre weight 4 -> 5                                 diffusion-flux-sum!=0, grid-sum-changed:ns2d/passive
  diffusion_flux_3d.py:43   centre weight 6 -> 5                                 diffusion-flux-sum!=0, grid-sum-changed:ns3d/passive
  laplacian_filter_3d.py:68 y stencil '2 * field' -> '2.1 * field'               filter-sum-changed, grid-sum-changed:ns3d
  laplacian_filter_3d.py:61 x stencil '- field[0,0,-1]' -> '- 0.9 * field[0,0,-1]'  filter-sum-changed, grid-sum-changed:ns3d
  advection_timestep_2d.py:46  reset of the advection-flux buffer dropped        grid-sum-changed:ns2d/passive (scratch arrays are poisoned before each step)
  diffusion_flux_3d.py:73   ghost-ring reset of the diffusion flux dropped       diffusion-flux-sum!=0 only (kernel level: flux array pre-loaded with garbage);
                                                                                not observable end to end -- every caller zeroes or fully overwrites the buffer first
"""
import numpy as np

from .. import util

ID = "C04"
LEVEL = "exploration"
TECHNIQUE = "runtime monitoring: conservation invariants on the real simulators (grid sums before/after one step) + face-flux pairing monitor on the compiled ENO3 sub-kernels taken from the kernel registry"
TITLE = "Transport, diffusion and forcing conserve total vorticity / transported scalar"
RULE = (
    "end to end: pairwise covering array over {forcing, free stream, filter off|mult 1..3|conv 1..3, solver, zone width "
    "0/2/3/4, precision} on fixed non-cubic shape pools (boundary-damping kernels bake width/dx/extent), per configuration "
    "3-8 random states (field class noise/spikes/checker/smooth/big/plateau with non-zero mean, velocity class "
    "noise/big/const/zeros-mixed, log-uniform nu, rho, dt with Courant and diffusion numbers 1e-3..1e3), ONE step; "
    "cell level: random non-cubic shapes, velocity fields built from sign blocks + exact ties + zeros so that every upwind "
    "pattern occurs on every axis; every third kernel-level call on non-contiguous views, tight-loop histories on temporary views, "
    "prefactor exactly 0, other-precision predecessors first.  distinct = (simulator, options, precision, field class, velocity class, dt regime) "
    "resp. (dim, precision, axis, sub-check, input class)."
)
ASSUMPTIONS = [
    "float64 np.sum(dtype=float64) of the grid is exact enough: its own error <= N eps64 sum|x| / 2 is far below 16 eps_t S",
    "support margin m = w + order + 6 >= w + reach of one step, so the damping zone sees exact zeros",
    "sub-kernels are identified by access signature; if a signature is missing the run is INCONCLUSIVE, not HELD",
    "zone width 1 is excluded (finding F6)",
]
PATTERNS = ("pp", "mm", "div", "conv", "tie", "zero1")
REQUIRE = {
    "e2e_steps_ns2d": 24,
    "e2e_steps_ns3d": 24,
    "e2e_steps_passive": 12,
    "e2e_components_checked": 100,
    "e2e_steps_beyond_stability": 10,
    "e2e_steps_with_forcing": 10,
    "e2e_steps_filter_multiplicative": 3,
    "e2e_steps_filter_convolution": 3,
    "e2e_steps_fast_diag": 2,
    "e2e_steps_width0": 3,
    "e2e_steps_width_ge2": 10,
    "delta_probes": 100,
    # workload diversity added after the seeded-change campaign (shape orientation, sibling objects, scalar argument types)
    "e2e_steps_tall_or_permuted_shape": 40,
    "e2e_steps_sibling_same_shape_other_dx": 10,
    "e2e_steps_first_object_after_sibling": 5,
    "face_shapes_first_axis_longest": 4,
    "face_shapes_last_axis_longest": 4,
    "face_kernel_calls_scalar_python_float": 8,
    "face_kernel_calls_scalar_real_t": 8,
    "kernel_calls_on_reused_scratch_object": 16,
    "kernel_sum_checks": 60,
    # workload dimensions (a)-(d) of the kernel-level legs
    "face_kernel_pairs_on_noncontiguous_views": 8,
    "public_flux_calls_on_noncontiguous_views": 30,
    "kernel_calls_on_noncontiguous_views": 16,
    "filter_objects_with_noncontiguous_work_buffers": 4,
    "face_kernel_calls_on_temporary_views": 30,
    "public_flux_calls_on_temporary_views": 16,
    "kernel_calls_on_temporary_views": 60,
    "kernel_calls_with_exactly_zero_prefactor": 8,
    "other_precision_predecessors": 16,
    **{f"faces_{d}d_ax{a}_{p}": 100 for d in (2, 3) for a in range(d) for p in PATTERNS},
}
SHARD_TIMEOUT = {"quick": 900, "thorough": 2400}
FILTERS = [None, (1, "multiplicative"), (2, "multiplicative"), (3, "multiplicative"), (1, "convolution"), (2, "convolution"), (3, "convolution")]
WIDTHS = [0, 2, 3, 4]


# ------------------------------------------------------------------------------------------------
# shards
# ------------------------------------------------------------------------------------------------
def _configs(kind, tier, seed):
    if kind == "ns3d":
        axes = {"forcing": [False, True], "free_stream": [False, True], "filter": FILTERS, "solver": ["greens_function_convolution", "fast_diagonalisation"], "width": WIDTHS, "dtype": ["float64", "float32"]}
    elif kind == "ns2d":
        axes = {"forcing": [False, True], "free_stream": [False, True], "width": WIDTHS, "dtype": ["float64", "float32"]}
    else:
        axes = {"variant": ["2d-scalar", "3d-scalar", "3d-vector"], "dtype": ["float64", "float32"]}
    if kind == "ns3d":
        rng = util.rng_for(seed, ID, "cfg", kind) if tier != "quick" else None
        cfgs = util.pairwise_cover(axes, rng=rng, extra=40 if tier != "quick" else 0)
    else:
        import itertools

        cfgs = [dict(zip(axes, v)) for v in itertools.product(*axes.values())]
    out = []
    for c in cfgs:
        c = dict(c)
        c["kind"] = kind
        if c.get("filter") is not None:
            c["filter"] = list(c["filter"])
        out.append(c)
    return out


def shards(tier, seed):
    out = []
    for d in (2, 3):
        for dt in ("float64", "float32"):
            out.append({"name": f"faces{d}d-{dt}", "group": "faces", "dim": d, "dtype": dt})
    for dt in ("float64", "float32"):
        out.append({"name": f"kern-{dt}", "group": "kern", "dtype": dt})
    for kind, nsh in (("ns3d", 6 if tier == "quick" else 10), ("ns2d", 4), ("passive", 1)):
        cfgs = _configs(kind, tier, seed)
        # fast-diag steps are slow: spread them
        cfgs.sort(key=lambda c: (c.get("solver", ""), c.get("dtype", "")))
        parts = [cfgs[i::nsh] for i in range(nsh)]
        for i, part in enumerate(parts):
            if part:
                out.append({"name": f"{kind}-{i}", "group": "e2e", "kind": kind, "configs": part})
    return out


def run_shard(sh, rec):
    {"faces": _faces, "kern": _kern, "e2e": _e2e}[sh["group"]](sh, rec)


# ------------------------------------------------------------------------------------------------
# (a) end to end
# ------------------------------------------------------------------------------------------------
def _pool(kind, cfg, thorough_alt):
    """fixed (shape, x_range) per zone width so that the boundary-damping kernels are compiled once"""
    w = cfg.get("width", 0)
    if kind == "ns2d":
        m = w + 6
        return ((2 * m + 6, 2 * m + 11), 1.0) if not thorough_alt else ((2 * m + 13, 2 * m + 5), 2 * np.pi)
    if kind == "ns3d":
        m = w + 3 + 6  # room for the largest filter order
        return ((2 * m + 4, 2 * m + 5, 2 * m + 8), 1.0) if not thorough_alt else ((2 * m + 7, 2 * m + 3, 2 * m + 4), 0.37)
    v = cfg["variant"]
    if v == "2d-scalar":
        return ((23, 31), 1.0) if not thorough_alt else ((40, 27), 10.0)
    return ((18, 19, 22), 1.0) if not thorough_alt else ((24, 17, 20), 0.37)


FIELD_KINDS = ("noise+1", "spikes", "checker", "smooth", "big", "plateau", "noise")
VEL_KINDS = ("noise", "big", "const", "zeros-mixed", "shear")


def _compact(rng, shape, m, kind, real_t, lead=()):
    if kind == "noise+1":
        a = util.compact(rng, shape, m, "noise", np.float64, lead)
        a[(Ellipsis, *[slice(m, n - m) for n in shape])] += 1.0
    elif kind == "plateau":
        a = np.zeros(tuple(lead) + tuple(shape))
        a[(Ellipsis, *[slice(m, n - m) for n in shape])] = float(rng.choice([-2.5, 1.0, 7.0]))
    else:
        a = util.compact(rng, shape, m, kind, np.float64, lead)
    return np.ascontiguousarray(a.astype(real_t))


def _velocity(rng, shape, kind, real_t, scale):
    d = len(shape)
    full = (d, *shape)
    if kind == "noise":
        v = rng.standard_normal(full)
    elif kind == "big":
        v = rng.standard_normal(full) * 30
    elif kind == "const":
        v = np.broadcast_to(rng.standard_normal(d).reshape((d,) + (1,) * d), full).copy()
    elif kind == "zeros-mixed":
        v = rng.standard_normal(full)
        v[rng.random(full) < 0.3] = 0.0
        neg = rng.random(full) < 0.2
        v = np.where(neg, -np.roll(v, 1, axis=-1), v)  # exact ties v_i == -v_{i+1} along x
    else:  # shear: smooth large-scale + sign changes
        g = np.indices(shape).astype(float)
        v = np.stack([np.sin(0.37 * g[(c + 1) % d] + c) * (1 + 0.3 * np.cos(0.9 * g[c])) for c in range(d)])
    return np.ascontiguousarray((v * scale).astype(real_t))


def _e2e(sh, rec):
    from .. import sims

    kind = sh["kind"]
    thorough = sh["tier"] != "quick"
    rng = util.rng_for(sh["seed"], ID, sh["name"])
    for ci, cfg in enumerate(sh["configs"]):
        real_t = util.DT[cfg["dtype"]]
        eps = util.eps(real_t)
        alts = (False, True) if thorough and kind != "ns3d" else (False,)
        if thorough and kind == "ns3d" and ci % 4 == 0:
            alts = (False, True)
        if not thorough and ci % 2:
            alts = (True,)  # quick tier: every other configuration runs on the tall (2-D) / permuted (3-D) pool shape
        # sibling objects: a SECOND simulator in the same process with the same grid shape, precision and options but another
        # x_range (dx), then the FIRST object once more (a module-level cache keyed without dx / overwritten by the sibling)
        variants = [(a, None) for a in alts]
        if (ci % 3 == 1) if thorough else (ci == 1 if kind == "ns3d" else ci % 4 == 1):
            variants += [(alts[0], "sibling"), (alts[0], "again")]
        sim_first = None
        for alt, sib in variants:
            shape, xr = _pool(kind, cfg, alt)
            if sib == "sibling":
                xr = xr * 2.5
            d = len(shape)
            w = cfg.get("width", 0)
            order = cfg["filter"][0] if cfg.get("filter") else 0
            reach = (1 if cfg.get("forcing") else 0) + (2 if kind != "ns3d" else 1) + 1 + order
            m = w + order + 6
            # (only with a zone at least as wide as the widest ghost layer, 2: with w < 2 the support would come within the
            # non-updated ghost cells of the ENO3 / diffusion stencils, where "conservation form" has no receiving cell)
            tight = (ci + len(str(alt))) % 2 == 1 and w >= 2 and kind != "passive"
            if tight:
                # the statement's premise taken literally: the support ends EXACTLY one step's reach before the damping zone, so after the
                # step the cells adjacent to the zone are non-zero while the zone itself still only sees exact zeros
                m = w + reach
            label = {k: cfg[k] for k in cfg if k not in ("kind",)}
            meta = {"sim": kind, **label, "shape": shape, "x_range": xr, "margin": m, "reach": reach, "object": sib or "primary", "tight_margin": bool(tight)}
            rec.count("e2e_configs_tight_margin" if tight else "e2e_configs_loose_margin")
            if m - reach < w or min(shape) - 2 * m < 2:
                rec.count("e2e_cases_discarded")
                continue
            bcfg = dict(cfg, shape=shape, x_range=xr, threads=2, nu=1e-2)
            if kind == "passive":
                bcfg["field_type"] = "vector" if cfg["variant"] == "3d-vector" else "scalar"
            if cfg.get("filter"):
                bcfg["filter"] = tuple(cfg["filter"])
            if sib == "again":
                if sim_first is None:
                    continue
                sim = sim_first
            else:
                try:
                    sim = sims.build(bcfg)
                except Exception as e:
                    rec.violation("simulator-constructor-raises", f"{type(e).__name__}: {e} {meta}", {"meta": meta})
                    rec.case(None)
                    continue
                if sib is None and sim_first is None:
                    sim_first = sim
            prim = sims.primary(sim)
            lead = prim.shape[: prim.ndim - d]
            dx = float(sim.dx)
            slow = cfg.get("solver") == "fast_diagonalisation"
            nstate = (3 if slow else 6) if not thorough else (3 if slow else 8)
            if sib is not None:
                nstate = 2 if sib == "sibling" else 1
            if d == 2:
                permuted = shape[0] > shape[1]
            else:
                permuted = not (shape[0] <= shape[1] <= shape[2])
            for si in range(nstate):
                fk = FIELD_KINDS[(si + ci) % len(FIELD_KINDS)] if si < 2 else str(rng.choice(FIELD_KINDS))
                vk = VEL_KINDS[(si + 2 * ci) % len(VEL_KINDS)] if si < 2 else str(rng.choice(VEL_KINDS))
                umax_t = float(10 ** rng.uniform(-1, 1.3))
                w0 = _compact(rng, shape, m, fk, real_t, lead)
                u0 = _velocity(rng, shape, vk, real_t, umax_t)
                umax = float(np.max(np.abs(u0.astype(np.float64)))) + 1e-300
                # Courant number and diffusion number, log-uniform over 1e-3 .. 1e3 (stable: <~ 0.1 resp. 1/(2d))
                regime = ("stable", "beyond", "far-beyond")[si % 3] if si < 3 else str(rng.choice(["stable", "beyond", "far-beyond"]))
                cour = {"stable": 10 ** rng.uniform(-3, -1), "beyond": 10 ** rng.uniform(-0.5, 1), "far-beyond": 10 ** rng.uniform(1, 3)}[regime]
                dt = cour * dx / umax
                bnum = {"stable": 10 ** rng.uniform(-3, -1), "beyond": 10 ** rng.uniform(-0.5, 1), "far-beyond": 10 ** rng.uniform(1, 3)}[str(rng.choice(["stable", "beyond", "far-beyond"])) if si >= 3 else regime]
                nu = bnum * dx * dx / dt
                rho = float(10 ** rng.uniform(-1, 1))
                sim.kinematic_viscosity = nu
                if hasattr(sim, "flow_density"):
                    sim.flow_density = rho
                prim[...] = w0
                sim.velocity_field[...] = u0
                F0 = None
                if cfg.get("forcing"):
                    F0 = _compact(rng, shape, m, str(rng.choice(["noise", "noise+1", "spikes", "big"])), real_t, (d,))
                    F0 *= real_t(10 ** rng.uniform(-1, 2))
                    sim.eul_grid_forcing_field[...] = F0
                # scratch arrays hold garbage from "earlier steps"
                sims.poison(rng, {k: v for k, v in sims.scratch_arrays(sim).items() if not k.startswith("solver.")}, scale=1e3)
                kw = {}
                if cfg.get("free_stream"):
                    kw["free_stream_velocity"] = rng.standard_normal(d) * 3
                axes_sp = tuple(range(prim.ndim - d, prim.ndim))
                before = prim.astype(np.float64)
                s0 = before.sum(axis=axes_sp)
                try:
                    sim.time_step(dt=dt, **kw)
                except Exception as e:
                    rec.violation("time_step-raises", f"{type(e).__name__}: {e} {meta}", {"meta": meta})
                    rec.case(None)
                    continue
                after = prim.astype(np.float64)
                s1 = after.sum(axis=axes_sp)
                rec.count(f"e2e_steps_{kind}")
                if permuted:
                    rec.count("e2e_steps_tall_or_permuted_shape")
                if sib == "sibling":
                    rec.count("e2e_steps_sibling_same_shape_other_dx")
                elif sib == "again":
                    rec.count("e2e_steps_first_object_after_sibling")
                if regime != "stable":
                    rec.count("e2e_steps_beyond_stability")
                if cfg.get("forcing"):
                    rec.count("e2e_steps_with_forcing")
                if cfg.get("filter"):
                    rec.count(f"e2e_steps_filter_{cfg['filter'][1]}")
                if slow:
                    rec.count("e2e_steps_fast_diag")
                if kind != "passive":
                    rec.count("e2e_steps_width0" if w == 0 else "e2e_steps_width_ge2")
                rec.case((kind, repr(sorted(label.items())), fk, vk, regime, sib, permuted), sample={**meta, "field": fk, "velocity": vk, "courant": cour, "diffusion_number": bnum, "rho": rho} if si == 0 else None)
                if not np.all(np.isfinite(after)):
                    rec.note(f"non-finite state after one step (courant {cour:.3g}, diffusion number {bnum:.3g}) {meta}")
                    rec.count("e2e_nonfinite_skipped")
                    continue
                if not np.any(after != before):
                    rec.count("e2e_state_unchanged")
                # magnitude of everything the step adds up
                S = float(np.abs(before).sum())
                if F0 is not None:
                    S += 4 * dt / (2 * dx * rho) * float(np.abs(F0.astype(np.float64)).sum())
                a_adv = (4.0 if kind == "ns3d" else 8.0 * d / 3.0) * dt / dx * umax
                S *= (1 + a_adv) * (1 + 4 * d * nu * dt / dx / dx) * (2 + 3 * order)
                tol = 16 * eps * S + 1e-300
                strict = 16 * eps * float((np.abs(before) + np.abs(after)).sum()) + 1e-300
                dS = np.atleast_1d(s1 - s0)
                for c, dv in enumerate(dS):
                    r = abs(float(dv)) / tol
                    rec.stat(f"e2e_{kind}_{cfg['dtype']}", r)
                    rec.stat(f"e2e_vs_before_after_{cfg['dtype']}", abs(float(dv)) / strict)
                    rec.count("e2e_components_checked")
                    if not (r <= 1):
                        rec.violation(
                            f"grid-sum-changed:{kind}",
                            f"component {c}: sum {np.atleast_1d(s0)[c]!r} -> {np.atleast_1d(s1)[c]!r} (change {float(dv):.6g} = {r:.3g} tol, "
                            f"sum|before| {np.abs(before).sum():.4g}) field={fk} velocity={vk} courant={cour:.3g} diffusion-number={bnum:.3g} rho={rho:.3g} {meta}",
                            {"meta": meta, "w0": w0, "u0": u0, "F0": F0, "dt": dt, "nu": nu, "rho": rho, "kw": kw, "after": np.array(prim)},
                        )
                # the support must not have reached the damping zone (precondition of the statement)
                dist = np.minimum.reduce([np.minimum(i, n - 1 - i) for i, n in zip(np.indices(shape), shape)])
                nz = np.any(after.reshape((-1, *shape)) != 0, axis=0)
                if nz.any():
                    dmin = int(dist[nz].min())
                    rec.stat("e2e_support_growth_over_reach", (m - dmin) / max(reach, 1))
                    if dmin < w:
                        rec.note(f"support reached the damping zone: min distance {dmin} < width {w} {meta}")
                        rec.count("e2e_support_in_zone")


# ------------------------------------------------------------------------------------------------
# (b) cell level: face kernels from the registry
# ------------------------------------------------------------------------------------------------
class _Layout:
    """array layout of the caller's arrays: every ``period``-th call hands ALL array arguments over as NON-contiguous views holding
    the same values (util.noncontiguous_copy: interior of a sentinel-padded parent / every second cell of a parent, non-unit inner
    stride / column-major; the mode is drawn per array, so one call mixes layouts).  Results are read back with
    np.ascontiguousarray and judged by the SAME monitors as the contiguous executions -- never bitwise against another layout."""

    def __init__(self, rng, rec, counter, period=3):
        self.rng, self.rec, self.counter, self.period, self.n = rng, rec, counter, period, 0

    def next(self):
        self.n += 1
        if self.n % self.period != 2 % self.period:
            return lambda a: a
        self.rec.count(self.counter)
        return lambda a: util.noncontiguous_copy(self.rng, a)


def _other(real_t):
    return np.float32 if np.dtype(real_t) == np.float64 else np.float64


def _unit(d, ax, k):
    o = [0] * d
    o[ax] = k
    return tuple(o)


def _find_face_kernels(infos, d):
    """{axis: (front_info, back_info, velocity field name)} by access signature on ``field``"""
    out = {}
    for ax in range(d):
        fr = [i for i in infos if {o for o, _ in i.reads.get("field", ())} == {_unit(d, ax, k) for k in (-1, 0, 1, 2)}]
        bk = [i for i in infos if {o for o, _ in i.reads.get("field", ())} == {_unit(d, ax, k) for k in (-2, -1, 0, 1)}]
        if len(fr) != 1 or len(bk) != 1:
            raise RuntimeError(f"face kernels of axis {ax} not identifiable by access signature: {len(fr)} front, {len(bk)} back candidates")
        names = []
        for i in (fr[0], bk[0]):
            vn = [k for k in i.reads if k not in ("field", "advection_flux")]
            if len(vn) != 1 or set(i.writes) != {"advection_flux"} or i.callable is None:
                raise RuntimeError(f"unexpected face-kernel interface: reads {list(i.reads)} writes {list(i.writes)}")
            names.append(vn[0])
        out[ax] = (fr[0], bk[0], names[0], names[1])
    return out


def _pattern_velocity(rng, shape, ax, real_t):
    """velocity component along array axis ``ax`` realising every upwind pattern on many faces"""
    n = shape[ax]
    other = [s for i, s in enumerate(shape) if i != ax]
    lines = int(np.prod(other)) if other else 1
    mag = np.exp(rng.standard_normal((lines, n)) * 1.5)
    # sign blocks of random (geometric, mean ~3) length
    flips = rng.random((lines, n)) < 0.35
    sgn = rng.choice([-1.0, 1.0], size=(lines, 1)) * np.where(np.cumsum(flips, axis=1) % 2 == 0, 1.0, -1.0)
    v = (mag * sgn).astype(real_t)
    r = rng.random((lines, n))
    v[r < 0.08] = 0.0  # exact zeros (one-sided and two-sided)
    tie = np.nonzero(rng.random((lines, n - 1)) < 0.12)
    v[tie[0], tie[1] + 1] = -v[tie[0], tie[1]]  # exact ties v_i == -v_{i+1}
    v = v.reshape(other + [n])
    return np.ascontiguousarray(np.moveaxis(v, -1, ax))


def _classify(vi, vj):
    """pattern of the face between cells i (value vi) and i+1 (value vj)"""
    c = np.full(vi.shape, -1, dtype=int)
    c[(vi > 0) & (vj > 0)] = 0
    c[(vi < 0) & (vj < 0)] = 1
    c[(vi < 0) & (vj > 0)] = 2
    c[(vi > 0) & (vj < 0)] = 3
    c[((vi == 0) | (vj == 0))] = 5
    c[vi == -vj] = 4  # ties, including both zero
    return c


def _faces(sh, rec):
    from .. import kernelspy

    kernelspy.install()
    import sopht.numeric.eulerian_grid_ops as spne

    d = sh["dim"]
    real_t = util.DT[sh["dtype"]]
    eps = util.eps(real_t)
    rng = util.rng_for(sh["seed"], ID, sh["name"])
    thorough = sh["tier"] != "quick"
    gen = spne.gen_advection_flux_conservative_eno3_pyst_kernel_2d if d == 2 else spne.gen_advection_flux_conservative_eno3_pyst_kernel_3d
    # predecessor of the OTHER precision: same generator, same options, generated and called once before the kernel under observation
    # (and before the registry mark, so its sub-kernels are not mistaken for the observed ones)
    other_t = _other(real_t)
    try:
        so = (9, 10) if d == 2 else (8, 9, 10)
        ko = gen(real_t=other_t, num_threads=2)
        ko(advection_flux=np.zeros(so, other_t), field=rng.standard_normal(so).astype(other_t), velocity=rng.standard_normal((d, *so)).astype(other_t), inv_dx=other_t(1.0))
        rec.count("other_precision_predecessors")
    except Exception as e:
        rec.note(f"other-precision predecessor failed: {type(e).__name__}: {e}")
    n0 = len(kernelspy.REG)
    public = gen(real_t=real_t, num_threads=2)
    lay = _Layout(rng, rec, "face_kernel_pairs_on_noncontiguous_views")
    layp = _Layout(rng, rec, "public_flux_calls_on_noncontiguous_views")
    infos = [i for i in kernelspy.REG[n0:] if i.gen == gen.__name__]
    faces = _find_face_kernels(infos, d)
    rec.count("face_kernels_identified", 2 * len(faces))
    nrep0 = 6 if d == 2 else 4
    nrep = nrep0 * (8 if thorough else 1)
    for rep in range(nrep):
        if thorough and rep % 2:  # large grids: ~1e6 faces per pattern in the thorough tier
            shape = util.shape2d(rng, 300, 520) if d == 2 else util.shape3d(rng, 48, 72)
        else:
            shape = util.shape2d(rng, 7, 60) if d == 2 else util.shape3d(rng, 6, 22)
        # both orientations on the SAME generated kernels: rep 0 tall / descending, rep 1 wide / ascending, rep 2 (3-D) x shortest
        if rep % nrep0 == 0:
            shape = tuple(sorted(shape, reverse=True))
        elif rep % nrep0 == 1:
            shape = tuple(sorted(shape))
        elif rep % nrep0 == 2 and d == 3:
            shape = (sorted(shape)[1], max(shape), min(shape))
        if len(set(shape)) > 1:
            rec.count("face_shapes_first_axis_longest" if shape[0] == max(shape) and shape[0] > shape[-1] else ("face_shapes_last_axis_longest" if shape[-1] == max(shape) and shape[-1] > shape[0] else "face_shapes_middle_axis_longest"))
        fkind = ("noise", "big", "checker", "smooth", "spikes", "const")[rep % 6]
        f = util.field(rng, shape, fkind, real_t)
        if fkind == "const":
            f[...] = real_t(1.75)
        meta = {"dim": d, "dtype": sh["dtype"], "shape": shape, "field": fkind}
        def pair(ax, f, v, outs, meta, tag=()):
            """front / back face-kernel outputs (float64, contiguous) of ONE field and velocity: pairing, patterns, ghost cells"""
            rec.case((d, sh["dtype"], ax, "face-pairing", fkind, *tag), sample=meta if rep == 0 and ax == 0 and not tag else None, n=2)
            Ff = np.moveaxis(outs[0], ax, -1)
            Fb = np.moveaxis(outs[1], ax, -1)
            fm = np.moveaxis(f.astype(np.float64), ax, -1)
            vm = np.moveaxis(v.astype(np.float64), ax, -1)
            n = shape[ax]
            tr = (slice(2, -2),) * (d - 1)  # transverse interior (written region of both kernels)
            i = np.arange(2, n - 3)  # faces i+1/2 with both cells i and i+1 written
            if i.size == 0:
                return
            out_i = Ff[tr][..., i]  # leaves cell i through its front face
            in_j = -Fb[tr][..., i + 1]  # enters cell i+1 through its back face
            g = np.abs(fm * vm)[tr]
            scale = np.maximum.reduce([g[..., i - 1], g[..., i], g[..., i + 1], g[..., i + 2]])
            tol = 16 * eps * scale + 1e-300
            err = np.abs(out_i - in_j)
            if not np.all(np.isfinite(err)):
                rec.violation("face-flux-nonfinite", f"axis {ax} {meta}", {"meta": meta, "f": f, "v": v})
                return
            r = float(np.max(err / tol))
            rec.stat(f"face_pairing_{d}d_{sh['dtype']}", r)
            rec.stat(f"face_pairing_vs_4eps_info_{sh['dtype']}", 4 * r)
            cls = _classify(vm[tr][..., i], vm[tr][..., i + 1])
            for pi, pn in enumerate(PATTERNS):
                rec.count(f"faces_{d}d_ax{ax}_{pn}", int((cls == pi).sum()))
            # nothing written outside the interior (flux arrays started from zero)
            ring_f = outs[0].copy()
            ring_f[(slice(2, -2),) * d] = 0
            ring_b = outs[1].copy()
            ring_b[(slice(2, -2),) * d] = 0
            if ring_f.any() or ring_b.any():
                rec.violation("face-kernel-writes-ghost-cells", f"axis {ax} {meta}", {"meta": meta})
            if r > 1:
                bad = np.argwhere(err > tol)
                pats = sorted({PATTERNS[int(cls[tuple(b)])] for b in bad[:2000]})
                b = tuple(int(x) for x in bad[0])
                rec.violation(
                    f"face-flux-mismatch:{d}d-{'xyz'[d - 1 - ax]}",
                    f"{len(bad)} faces where the flux leaving cell i differs from the flux entering cell i+1 (max {r:.3g} tol), upwind patterns {pats}; "
                    f"first: transverse/face index {b}, out {out_i[b]!r} vs in {in_j[b]!r}, v_i={vm[tr][..., i][b]!r} v_i+1={vm[tr][..., i + 1][b]!r} {meta}",
                    {"meta": meta, "axis": ax, "f": f, "v": v, "front": outs[0], "back": outs[1]},
                )

        for ax in range(d):
            fr, bk, vn_f, vn_b = faces[ax]
            v = _pattern_velocity(rng, shape, ax, real_t)
            outs = []
            vw = lay.next()  # every third (grid, axis): flux, field and velocity are non-contiguous views of the same values
            try:
                for info, vn in ((fr, vn_f), (bk, vn_b)):
                    flux = vw(np.zeros(shape, real_t))
                    f0, v0 = f.copy(), v.copy()
                    fa, va = vw(f), vw(v)
                    info.callable(advection_flux=flux, field=fa, inv_dx=(1.0 if rep % 2 else real_t(1.0)), **{vn: va})
                    rec.count("face_kernel_calls_scalar_python_float" if rep % 2 else "face_kernel_calls_scalar_real_t")
                    if not (util.bits_equal(fa, f0) and util.bits_equal(va, v0)):
                        rec.violation("face-kernel-modified-input", f"axis {ax} {meta}", {"meta": meta})
                    outs.append(np.ascontiguousarray(flux).astype(np.float64))
            except Exception as e:
                rec.violation("face-kernel-raises", f"axis {ax}: {type(e).__name__}: {e} {meta}", {"meta": meta})
                rec.case(None)
                continue
            pair(ax, f, v, outs, meta)
            if rep % nrep0 == 1:
                # histories of TEMPORARY views on the two compiled face kernels of this axis: K = 3 fields / velocities / zeroed flux arrays
                # live in one owning array each, call j of either kernel gets stack[j] (fresh view objects of different memory whose
                # id() CPython recycles); the pairing of front and back output is judged afterwards per j
                K = 3
                Fs = np.stack([util.field(rng, shape, kd, real_t) for kd in ("noise", "checker", "spikes")])
                Vs = np.stack([_pattern_velocity(rng, shape, ax, real_t) for _ in range(K)])
                FL = np.zeros((2, K, *shape), real_t)
                try:
                    for side, (info, vn) in enumerate(((fr, vn_f), (bk, vn_b))):
                        for j in range(K):
                            info.callable(advection_flux=FL[side][j], field=Fs[j], inv_dx=real_t(1.0), **{vn: Vs[j]})
                except Exception as e:
                    rec.violation("face-kernel-raises", f"axis {ax}, history of temporary views: {type(e).__name__}: {e} {meta}", {"meta": meta})
                    continue
                for j in range(K):
                    rec.count("face_kernel_calls_on_temporary_views", 2)
                    pair(ax, Fs[j], Vs[j], [FL[0][j].astype(np.float64), FL[1][j].astype(np.float64)], {**meta, "history_call": f"{j + 1} of {K} on temporary views of different memory"}, ("temporary-view-history",))
        def judge_delta(flux, k, amp, vel, inv, meta):
            fl = flux.astype(np.float64)
            vk = np.abs(vel[(slice(None), *k)].astype(np.float64))
            scale = abs(inv * amp) * 8 * float(vk.sum()) + float(np.abs(fl).sum())
            r = abs(float(fl.sum())) / (16 * eps * scale + 1e-300)
            rec.stat(f"delta_flux_sum_{sh['dtype']}", r)
            rec.count("delta_probes")
            rec.count("delta_affected_cells", int((fl != 0).sum()))
            rec.case((d, sh["dtype"], "delta-sum"))
            if (fl != 0).sum() > 4 * d + 1:
                rec.violation("delta-flux-support>4d+1", f"{int((fl != 0).sum())} cells affected by a single-cell field at {k} {meta}", {"meta": meta, "k": k, "vel": vel})
            if not (r <= 1):
                rec.violation("delta-flux-sum!=0", f"single-cell field at {k} amp {amp}: public ENO3 flux sums to {fl.sum()!r} ({r:.3g} tol) {meta}", {"meta": meta, "k": k, "amp": amp, "vel": vel, "inv_dx": inv, "flux": flux})

        # black box: public kernel, delta field
        big = int(np.prod(shape)) > 40000
        for q in range(8 if big else (24 if not thorough else 60)):
            if min(shape) < 9:
                break
            k = tuple(int(rng.integers(4, n - 4)) for n in shape)
            amp = float(rng.choice([1.0, -3.0, 0.37, 1e3]))
            fd = np.zeros(shape, real_t)
            fd[k] = amp
            if q % (8 if big else 4) == 0:
                vel = np.ascontiguousarray(np.stack([_pattern_velocity(rng, shape, d - 1 - c, real_t) for c in range(d)]))
            inv = float(rng.choice([1.0, 7.3, 0.01]))
            vw = layp.next()  # every third call: flux, field and velocity are non-contiguous views
            flux = vw(np.zeros(shape, real_t))
            try:
                public(advection_flux=flux, field=vw(fd), velocity=vw(vel), inv_dx=(real_t(inv) if q % 2 else inv))
            except Exception as e:
                rec.violation("advection-flux-raises", f"{type(e).__name__}: {e} {meta}", {"meta": meta})
                break
            flux = np.ascontiguousarray(flux)
            judge_delta(flux, k, amp, vel, inv, meta)
        if min(shape) >= 9 and not big:
            # history of TEMPORARY views on the public kernel object: K single-cell fields, velocities and zeroed flux arrays live in one
            # owning array each; call j gets stack[j]; judged afterwards by the same delta monitor
            K = 4
            ks_ = [tuple(int(rng.integers(4, n - 4)) for n in shape) for _ in range(K)]
            amps = [float(rng.choice([1.0, -3.0, 0.37, 1e3])) for _ in range(K)]
            invs = [float(rng.choice([1.0, 7.3, 0.01])) for _ in range(K)]
            FD = np.zeros((K, *shape), real_t)
            for j in range(K):
                FD[(j, *ks_[j])] = amps[j]
            VEL = np.stack([np.stack([_pattern_velocity(rng, shape, d - 1 - c, real_t) for c in range(d)]) for _ in range(K)])
            FL = np.zeros((K, *shape), real_t)
            try:
                for j in range(K):
                    public(advection_flux=FL[j], field=FD[j], velocity=VEL[j], inv_dx=invs[j])
            except Exception as e:
                rec.violation("advection-flux-raises", f"history of temporary views: {type(e).__name__}: {e} {meta}", {"meta": meta})
            else:
                for j in range(K):
                    rec.count("public_flux_calls_on_temporary_views")
                    judge_delta(FL[j], ks_[j], amps[j], VEL[j], invs[j], {**meta, "history_call": f"{j + 1} of {K} on temporary views of different memory"})
        # compact field through the public kernel
        if min(shape) >= 11:
            fc = _compact(rng, shape, 4, ("noise+1", "plateau", "checker")[rep % 3], real_t)
            vel = _velocity(rng, shape, VEL_KINDS[rep % len(VEL_KINDS)], real_t, 3.0)
            vw = layp.next()
            flux = vw(np.zeros(shape, real_t))
            public(advection_flux=flux, field=vw(fc), velocity=vw(vel), inv_dx=1.0)
            fl = np.ascontiguousarray(flux).astype(np.float64)
            scale = (8 * d / 3.0) * float(np.max(np.abs(vel))) * float(np.abs(fc.astype(np.float64)).sum())
            r = abs(float(fl.sum())) / (16 * eps * scale + 1e-300)
            rec.stat(f"compact_flux_sum_{sh['dtype']}", r)
            rec.count("kernel_sum_checks")
            rec.case((d, sh["dtype"], "compact-advection-sum", rep % 3))
            if not (r <= 1):
                rec.violation("advection-flux-sum!=0", f"compact field: public ENO3 flux sums to {fl.sum()!r} ({r:.3g} tol) {meta}", {"meta": meta, "f": fc, "vel": vel})


# ------------------------------------------------------------------------------------------------
# public flux / update kernels: sums
# ------------------------------------------------------------------------------------------------
def _kern(sh, rec):
    import sopht.numeric.eulerian_grid_ops as spne

    real_t = util.DT[sh["dtype"]]
    eps = util.eps(real_t)
    rng = util.rng_for(sh["seed"], ID, sh["name"])
    thorough = sh["tier"] != "quick"
    nrep = 12 if thorough else 4
    kinds = ("noise+1", "plateau", "spikes", "checker", "big", "smooth")

    def sumcheck(mech, name, change, scale, meta, wit, cls):
        r = abs(float(change)) / (16 * eps * scale + 1e-300)
        rec.stat(f"{name}_{sh['dtype']}", r)
        rec.count("kernel_sum_checks")
        rec.case(cls)
        if not (r <= 1):
            rec.violation(mech, f"{name}: grid sum off by {float(change)!r} ({r:.3g} tol) {meta}", {"meta": meta, **wit})

    lay = _Layout(rng, rec, "kernel_calls_on_noncontiguous_views")
    other_t = _other(real_t)

    def predecessor(make_and_call):
        """the same generator for the OTHER precision with otherwise identical options, result called once, before the kernel under observation"""
        try:
            make_and_call()
            rec.count("other_precision_predecessors")
        except Exception as e:
            rec.note(f"other-precision predecessor failed: {type(e).__name__}: {e}")

    # diffusion flux
    for d in (2, 3):
        for reset in (True, False):
            gen = spne.gen_diffusion_flux_pyst_kernel_2d if d == 2 else spne.gen_diffusion_flux_pyst_kernel_3d
            so = (7, 8) if d == 2 else (6, 7, 8)
            predecessor(lambda: gen(real_t=other_t, num_threads=2, reset_ghost_zone=reset)(diffusion_flux=np.zeros(so, other_t), field=rng.standard_normal(so).astype(other_t), prefactor=other_t(0.5)))
            if d == 3:
                predecessor(lambda: gen(real_t=other_t, num_threads=2, reset_ghost_zone=reset, field_type="vector")(
                    vector_field_diffusion_flux=np.zeros((3, *so), other_t), vector_field=rng.standard_normal((3, *so)).astype(other_t), prefactor=other_t(0.5)))
            k = gen(real_t=real_t, num_threads=2, reset_ghost_zone=reset)
            kv = gen(real_t=real_t, num_threads=2, reset_ghost_zone=reset, field_type="vector") if d == 3 else None
            prev_shape = None
            for rep in range(nrep):
                shape = util.shape2d(rng, 7, 50) if d == 2 else util.shape3d(rng, 7, 20)
                if rep % 2 == 1 and prev_shape is not None and tuple(prev_shape[::-1]) != tuple(prev_shape):
                    # the same kernel object on a grid with the SAME number of cells but reversed axes: anything the wrapper caches
                    # per call keyed by the size instead of the shape (index tables, ring masks) goes stale here
                    shape = tuple(prev_shape[::-1])
                    rec.count("kern_calls_same_size_reversed_shape")
                prev_shape = shape
                m = int(rng.integers(2, 3 + (min(shape) - 6) // 2))
                if min(shape) - 2 * m < 1:
                    m = 2
                kind = kinds[rep % len(kinds)]
                pref = float(10 ** rng.uniform(-3, 4))
                if rep == nrep - 1:
                    # prefactor EXACTLY zero (inviscid run): every term of the flux vanishes, so the module's own tolerance 16 eps sum|terms|
                    # vanishes too and the flux must sum to exactly 0 -- whatever the flux array held (NaN sentinels when the ghost zone is reset)
                    pref = 0.0
                    rec.count("kernel_calls_with_exactly_zero_prefactor")
                meta = {"op": f"diffusion_flux_{d}d", "reset": reset, "dtype": sh["dtype"], "shape": shape, "margin": m, "field": kind, "prefactor": pref}
                vw = lay.next()  # every third call: flux and field are non-contiguous views of the same values
                f = vw(_compact(rng, shape, m, kind, real_t))
                flux = vw((rng.standard_normal(shape) * 1e3).astype(real_t) if reset else np.zeros(shape, real_t))
                if reset and pref == 0.0:
                    flux[...] = util.sentinel_like(rng, shape, real_t)
                rec.count("kern_shapes_first_axis_longer_than_last" if shape[0] > shape[-1] else "kern_shapes_last_axis_longer_or_equal")
                try:
                    k(diffusion_flux=flux, field=f, prefactor=(real_t(pref) if rep % 2 else pref))
                except Exception as e:
                    rec.violation("diffusion-flux-raises", f"{type(e).__name__}: {e} {meta}", {"meta": meta})
                    continue
                S = pref * 4 * d * float(np.abs(f.astype(np.float64)).sum())
                sumcheck("diffusion-flux-sum!=0", f"diffusion_flux_{d}d", np.ascontiguousarray(flux).astype(np.float64).sum(), S, meta, {"f": f}, (d, sh["dtype"], "diffusion", reset, kind))
                if reset:
                    # the SAME flux array object again, overwritten with garbage (ring included): the 2nd and 3rd call on an
                    # already-seen array must reset its ghost ring just like the first
                    for again in (2, 3):
                        f2 = _compact(rng, shape, m, kinds[(rep + again) % len(kinds)], real_t)
                        flux[...] = (rng.standard_normal(shape) * 1e3).astype(real_t)
                        try:
                            k(diffusion_flux=flux, field=f2, prefactor=pref)
                        except Exception as e:
                            rec.violation("diffusion-flux-raises", f"{type(e).__name__}: {e} {meta}", {"meta": meta})
                            break
                        rec.count("kernel_calls_on_reused_scratch_object")
                        S2 = pref * 4 * d * float(np.abs(f2.astype(np.float64)).sum())
                        sumcheck("diffusion-flux-sum!=0", f"diffusion_flux_{d}d", np.ascontiguousarray(flux).astype(np.float64).sum(), S2, {**meta, "call_on_same_flux_array": again}, {"f": f2}, (d, sh["dtype"], "diffusion", reset, "reused-array"))
                if kv is not None:
                    vw = lay.next()
                    fv = vw(_compact(rng, shape, m, kind, real_t, (3,)))
                    fl = vw((rng.standard_normal((3, *shape)) * 1e3).astype(real_t) if reset else np.zeros((3, *shape), real_t))
                    kv(vector_field_diffusion_flux=fl, vector_field=fv, prefactor=pref)
                    fl = np.ascontiguousarray(fl)
                    for c in range(3):
                        S = pref * 4 * d * float(np.abs(fv[c].astype(np.float64)).sum())
                        sumcheck("diffusion-flux-sum!=0", "diffusion_flux_3d_vector", fl[c].astype(np.float64).sum(), S, meta, {"f": fv}, (d, sh["dtype"], "diffusion-vector", reset, kind))
                if rep == 0:
                    # histories of TEMPORARY views on these kernel objects: K fields and K flux arrays live in one owning array each, call j gets
                    # stack[j] (fresh view objects of different memory whose id() CPython recycles) and its own prefactor; judged afterwards
                    K = 4
                    for kern_, lead, name in ((k, (), f"diffusion_flux_{d}d"),) + (((kv, (3,), "diffusion_flux_3d_vector"),) if kv is not None else ()):
                        Fs = np.stack([_compact(rng, shape, m, kinds[(rep + j) % len(kinds)], real_t, lead) for j in range(K)])
                        FL = (rng.standard_normal((K, *lead, *shape)) * 1e3).astype(real_t) if reset else np.zeros((K, *lead, *shape), real_t)
                        prefs = [float(10 ** rng.uniform(-3, 4)) for _ in range(K)]
                        try:
                            if lead:
                                for j in range(K):
                                    kern_(vector_field_diffusion_flux=FL[j], vector_field=Fs[j], prefactor=prefs[j])
                            else:
                                for j in range(K):
                                    kern_(diffusion_flux=FL[j], field=Fs[j], prefactor=prefs[j])
                        except Exception as e:
                            rec.violation("diffusion-flux-raises", f"history of temporary views: {type(e).__name__}: {e} {meta}", {"meta": meta})
                            continue
                        for j in range(K):
                            rec.count("kernel_calls_on_temporary_views")
                            mj = {**meta, "prefactor": prefs[j], "history_call": f"{j + 1} of {K} on temporary views of different memory"}
                            for c in range(3 if lead else 1):
                                fc_ = Fs[j][c] if lead else Fs[j]
                                Sj = prefs[j] * 4 * d * float(np.abs(fc_.astype(np.float64)).sum())
                                sumcheck("diffusion-flux-sum!=0", name, (FL[j][c] if lead else FL[j]).astype(np.float64).sum(), Sj, mj, {"f": Fs[j]}, (d, sh["dtype"], "diffusion", reset, "temporary-view-history", bool(lead)))
    # forcing-curl update
    for d in (2, 3):
        gen = spne.gen_update_vorticity_from_velocity_forcing_pyst_kernel_2d if d == 2 else spne.gen_update_vorticity_from_velocity_forcing_pyst_kernel_3d
        so = (7, 8) if d == 2 else (6, 7, 8)
        predecessor(lambda: gen(real_t=other_t, num_threads=2)(vorticity_field=np.zeros(so if d == 2 else (3, *so), other_t), velocity_forcing_field=rng.standard_normal((d, *so)).astype(other_t), prefactor=other_t(0.5)))
        k = gen(real_t=real_t, num_threads=2)

        def judge_forcing(w0, wv, F, pref, meta, cls):
            ax = tuple(range(wv.ndim - d, wv.ndim))
            # per-cell differences (exact in float64 for float32 data; for float64 data the rounding of w + inc is part of the floor)
            dsum = np.atleast_1d((wv.astype(np.float64) - w0.astype(np.float64)).sum(axis=ax))
            Sabs = abs(pref) * 4 * float(np.abs(F.astype(np.float64)).sum())
            for c, dv in enumerate(dsum):
                S = Sabs + float(np.abs(np.atleast_1d(w0.astype(np.float64).reshape((-1, *shape))[c])).sum())
                sumcheck("forcing-curl-sum-changed", f"forcing_curl_{d}d", dv, S, meta, {"F": F, "w0": w0}, cls)

        for rep in range(nrep):
            shape = util.shape2d(rng, 7, 50) if d == 2 else util.shape3d(rng, 7, 20)
            m = 2
            kind = kinds[rep % len(kinds)]
            pref = float(10 ** rng.uniform(-3, 4)) * float(rng.choice([-1, 1]))
            if rep == nrep - 1:
                pref = 0.0  # coupling switched off / dt = 0: nothing is added, the sum stays (same monitor, same tolerance formula)
                rec.count("kernel_calls_with_exactly_zero_prefactor")
            meta = {"op": f"forcing_curl_update_{d}d", "dtype": sh["dtype"], "shape": shape, "field": kind, "prefactor": pref}
            vw = lay.next()  # every third call: vorticity (in/out) and forcing are non-contiguous views
            F = vw(_compact(rng, shape, m, kind, real_t, (d,)))
            wshape = shape if d == 2 else (3, *shape)
            w0 = util.field(rng, wshape, ("noise", "big", "const")[rep % 3], real_t)  # vorticity need not be compact for this kernel
            wv = vw(w0.copy())
            try:
                k(vorticity_field=wv, velocity_forcing_field=F, prefactor=(real_t(pref) if rep % 2 else pref))
            except Exception as e:
                rec.violation("forcing-update-raises", f"{type(e).__name__}: {e} {meta}", {"meta": meta})
                continue
            judge_forcing(w0, np.ascontiguousarray(wv), F, pref, meta, (d, sh["dtype"], "forcing-curl", kind))
            if rep == 0:
                # history of TEMPORARY views on this kernel object (vorticity snapshots W[j], forcings FF[j], own prefactor per call)
                K = 4
                W0 = np.stack([util.field(rng, wshape, ("noise", "big", "const", "noise")[j], real_t) for j in range(K)])
                W = W0.copy()
                FF = np.stack([_compact(rng, shape, m, kinds[j % len(kinds)], real_t, (d,)) for j in range(K)])
                prefs = [float(10 ** rng.uniform(-3, 4)) * float(rng.choice([-1, 1])) for _ in range(K)]
                try:
                    for j in range(K):
                        k(vorticity_field=W[j], velocity_forcing_field=FF[j], prefactor=prefs[j])
                except Exception as e:
                    rec.violation("forcing-update-raises", f"history of temporary views: {type(e).__name__}: {e} {meta}", {"meta": meta})
                    continue
                for j in range(K):
                    rec.count("kernel_calls_on_temporary_views")
                    judge_forcing(W0[j], W[j], FF[j], prefs[j], {**meta, "prefactor": prefs[j], "history_call": f"{j + 1} of {K} on temporary views of different memory"}, (d, sh["dtype"], "forcing-curl", "temporary-view-history"))
    # Laplacian filter
    for order in (1, 2, 3) + ((4,) if thorough else ()):
        for ftype in ("multiplicative", "convolution"):
            for var in ("scalar", "vector"):
                shape = util.shape3d(rng, 2 * order + 7, 2 * order + 14)
                if var == "scalar":
                    predecessor(lambda: spne.gen_laplacian_filter_kernel_3d(filter_order=order, filter_flux_buffer=np.zeros(shape, other_t), field_buffer=np.zeros(shape, other_t), real_t=other_t, num_threads=2, field_type=var, filter_type=ftype)(
                        scalar_field=rng.standard_normal(shape).astype(other_t)))
                fb = (rng.standard_normal(shape) * 1e3).astype(real_t)
                bb = (rng.standard_normal(shape) * 1e3).astype(real_t)
                nfilt = order * 4 + (ftype == "convolution") * 2 + (var == "vector")
                if nfilt % 3 == 1:
                    # the two work buffers bound at generation are non-contiguous views (scratch carved out of a larger allocation)
                    fb, bb = util.noncontiguous_copy(rng, fb), util.noncontiguous_copy(rng, bb)
                    rec.count("filter_objects_with_noncontiguous_work_buffers")
                filt = spne.gen_laplacian_filter_kernel_3d(filter_order=order, filter_flux_buffer=fb, field_buffer=bb, real_t=real_t, num_threads=2, field_type=var, filter_type=ftype)
                for rep in range(max(2, nrep // 2)):
                    kind = kinds[(rep + order) % len(kinds)]
                    m = order + 2
                    meta = {"op": "laplacian_filter_3d", "order": order, "type": ftype, "variant": var, "dtype": sh["dtype"], "shape": shape, "margin": m, "field": kind}
                    f0 = _compact(rng, shape, m, kind, real_t, (3,) if var == "vector" else ())
                    g = lay.next()(f0.copy())  # every third call: the field to be filtered is a non-contiguous view
                    try:
                        if var == "vector":
                            filt(vector_field=g)
                        else:
                            filt(scalar_field=g)
                    except Exception as e:
                        rec.violation("filter-raises", f"{type(e).__name__}: {e} {meta}", {"meta": meta})
                        continue
                    A0 = f0.astype(np.float64).reshape((-1, *shape))
                    A1 = np.ascontiguousarray(g).astype(np.float64).reshape((-1, *shape))
                    for c in range(A0.shape[0]):
                        S = (2 + 3 * order) * float(np.abs(A0[c]).sum())
                        sumcheck("filter-sum-changed", "filter_sum", A1[c].sum() - A0[c].sum(), S, meta, {"f": f0}, ("filter", sh["dtype"], order, ftype, var, kind))
                # history of TEMPORARY views on this filter object: K fields live in one owning array, call j filters the view G[j]
                K = 3
                m = order + 2
                G0 = np.stack([_compact(rng, shape, m, kinds[(j + order) % len(kinds)], real_t, (3,) if var == "vector" else ()) for j in range(K)])
                G = G0.copy()
                meta = {"op": "laplacian_filter_3d", "order": order, "type": ftype, "variant": var, "dtype": sh["dtype"], "shape": shape, "margin": m, "history": "temporary views of different memory"}
                try:
                    if var == "vector":
                        for j in range(K):
                            filt(vector_field=G[j])
                    else:
                        for j in range(K):
                            filt(scalar_field=G[j])
                except Exception as e:
                    rec.violation("filter-raises", f"{type(e).__name__}: {e} {meta}", {"meta": meta})
                    continue
                for j in range(K):
                    rec.count("kernel_calls_on_temporary_views")
                    A0 = G0[j].astype(np.float64).reshape((-1, *shape))
                    A1 = G[j].astype(np.float64).reshape((-1, *shape))
                    for c in range(A0.shape[0]):
                        S = (2 + 3 * order) * float(np.abs(A0[c]).sum())
                        sumcheck("filter-sum-changed", "filter_sum", A1[c].sum() - A0[c].sum(), S, {**meta, "history_call": j + 1}, {"f": G0[j]}, ("filter", sh["dtype"], order, ftype, var, "temporary-view-history"))
