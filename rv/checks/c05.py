"""C05 — finite-difference operators reproduce the continuous operator exactly on P2 (DESIGN §4 C05).

Oracle: analytic derivatives of the monomials x^a y^b z^c (a+b+c <= 2) evaluated on the SIMULATOR'S
OWN ``position_field`` (PassiveTransportFlowSimulator built through ``rv.sims.build``; this pins
"x along the LAST array axis", component 0 = x, and the sign conventions).  Every operator is driven
with every basis element (monomial x vector component x input slot) under every generator option
(reset_ghost_zone on/off, field_type scalar/vector, filter field/filter type) in both precisions:

  exact leg   dyadic grids (dx = 2^-k, cell centres (i+1/2)dx), small integer coefficients and
              power-of-two/small-integer multipliers: every product and difference is exactly
              representable, so the compiled -Ofast kernel must agree with the analytic value to
              <= 4 ulp (measured: 0 ulp) in float64 AND float32.
  noise leg   random non-dyadic shapes / x_range, random rational combinations of all monomials
              (linearity) on both kinds of grid:  |got - ref| <= 32 eps_t (W |pref| max|input| +
              max|ref|), W = sum of |stencil weights| of the documented formula.
  ENO3        nodal flux g = f v polynomial in one variable along each axis; (F_{i+1/2}-F_{i-1/2})/dx
              = g' for all cubics with one-signed v (v = +-x^b), and for deg f + deg v <= 2 with linear
              v crossing zero at a face / a cell centre / a quarter point (both slopes: diverging and
              converging upwinding; the monitor counts the cells whose two faces upwind differently).
              The weights 1/3, 5/6, 1/6 are inexact, so ENO3 is always compared at the noise floor.

The three 1-D filter Laplacians are internal to gen_laplacian_filter_kernel_3d; they are taken from the
kernel registry (rv.kernelspy) by access signature (one written field at offset 0, one read field at
{0, +e_a, -e_a}) and called directly.  Only cells where the stencil fits (index >= reach) are compared.

Workload diversity (added after the seeded-change campaign): one of the dyadic grids per dimension is TALL (11x8:
grid_size_y > grid_size_x) resp. has x as its shortest axis (10x9x8); every part-0 shard builds a sibling simulator with
the shape and precision of its first grid but another x_range; every scalar kernel argument (prefactor, inv_dx) is passed
alternately as real_t and as a python float; all grids of a shard go through the SAME generated kernel objects.

Deliberate breaks tried (tools/mut.sh --sed '<expr>' <file> C05, quick tier, seed 0; files under
sopht/numeric/eulerian_grid_ops/stencil_ops_{2d,3d}/ unless noted): mutation -> VIOLATION mechanism
  M1  curl_3d.py  curl_y "field_x[1,0,0] - field_x[-1,0,0]" -> "+" (sign)        -> curl_3d!=curl
  M2  curl_3d.py  curl_x field_z[0,1,0] -> field_z[1,0,0] (axis swap)             -> curl_3d!=curl
  M23 curl_3d.py  curl_z "prefactor *" dropped                                    -> curl_3d!=curl
  M3  outplane_field_curl_2d.py  (field[0,-1]-field[0,1]) -> (field[0,1]-field[0,-1]) -> outplane_curl_2d!=(d_y,-d_x)
  M4  inplane_field_curl_2d.py   field_x[1,0] -> field_x[0,1] (axis swap)         -> inplane_curl_2d!=d_x f_y-d_y f_x
  M5  diffusion_flux_2d.py  centre weight 4 -> 3                                  -> diffusion_flux_2d!=c*laplacian
  M6  diffusion_flux_3d.py  centre weight 6 -> 5                                  -> diffusion_flux_3d!=c*laplacian
  M7  update_vorticity_from_velocity_forcing_2d.py  forcing "* prefactor" dropped -> forcing_update_2d!=w+c*curl
  M17 update_vorticity_from_velocity_forcing_3d.py  forcing z "- f_x[0,1,0]" -> "+" -> forcing_update_3d!=w+c*curl
  M22 update_vorticity_from_velocity_forcing_3d.py  y-comp "w = w + p*(..)" -> "w = p*(..)" -> forcing_update_3d!=w+c*curl
  M8  update_vorticity_from_velocity_forcing_3d.py  penalised "- velocity_field_z[0,1,0]" -> "+" -> penalised_update_3d!=w+c*curl(up-u)
  M9  update_vorticity_from_velocity_forcing_2d.py  penalised "- velocity_field_y[0,1]" -> "+"   -> penalised_update_2d!=w+c*curl(up-u)
  M10 advection_flux_2d.py  first (5/6) -> (4/6) (x-front, upwind-left branch)    -> eno3_2d!=d(fv)
  M11 advection_flux_3d.py  z-front switch "v[0,0,0] > -v[1,0,0]" -> "<"          -> eno3_3d!=d(fv)   (cubic, one-signed v)
  M12 laplacian_filter_3d.py  x kernel 0.25 -> 0.5                                -> filter_lap1d!=-(dx^2/4)d2
  M13 laplacian_filter_3d.py  y kernel reads field[0,0,+-1] (axis swap)           -> filter_lap1d-axes-not-xyz
  M14 divergence_3d.py  factor 0.5 -> 1.0                                         -> divergence_3d!=div
  M18 divergence_3d.py  field_y[0,1,0] -> field_y[1,0,0] (axis swap)              -> divergence_3d!=div
  M19 divergence_3d.py  "- field_z[-1,0,0]" -> "+"                                -> divergence_3d!=div
  M15 vorticity_stretching_flux_3d.py  vorticity_field_y[0,0,0] -> vorticity_field_z[0,0,0] (component mix-up) -> stretching_flux_3d!=c*(w.grad)u
  M16 sopht/simulator/flow/flow_simulators.py  np.flipud removed from the 3-D position_field (x no longer along the
      last axis / component 0)                                                     -> curl_3d!=curl and every other 3-D operator
21/21 caught (first witnesses are on the exact leg, e.g. M5: Laplacian of the constant 3 gives 192 instead of 0 on
the 7x8 grid with dx=1/8).  Unchanged tree: exit 0 for VERIF_SEED 0..5 (quick, 17-27 s on 8 workers) and 0,1
(thorough, ~90 s); exact leg 0 ulp everywhere in both precisions, noise leg max err/tol 0.052 (headroom 19x).
"""
import itertools

import numpy as np

from .. import kernelspy, sims, util

ID = "C05"
LEVEL = "exploration"
TECHNIQUE = "runtime monitoring: exact-arithmetic executions of the compiled kernels on the full monomial basis (dyadic grids, 0 ulp) + noise-floor leg on random spacings; sub-kernels reached through the kernel registry"
TITLE = "Finite-difference operators reproduce the continuous operators exactly on polynomials of degree <= 2"
RULE = (
    "operator x generator option (reset_ghost_zone, field_type, filter options) x basis element (monomial "
    "x^a y^b z^c with a+b+c<=2 x vector component x input slot) x precision x grid: the COMPLETE finite set is "
    "executed on three dyadic grids per dimension (exact leg, <=4 ulp) and on random non-dyadic shapes/x_range "
    "(noise floor) in both tiers; plus random rational combinations of all monomials (linearity); ENO3 with all "
    "cubic one-signed (f,v) pairs and all (f in {1,x}) x (linear v crossing zero at face/centre/quarter, four "
    "slopes) per axis.  Thorough adds ~240 random shapes/dx.  distinct = (operator, options, dtype, leg, basis "
    "element); constants are counted (they must be annihilated)."
)
ASSUMPTIONS = [
    "the simulator's position_field / dx (PassiveTransportFlowSimulator via rv.sims.build) define x, y, z",
    "dyadic positions, integer coefficients and power-of-two/small-integer multipliers make every intermediate "
    "exactly representable, so -Ofast reassociation/FMA cannot change the result (harness self-checks that every "
    "exact-leg input array is exactly representable in the working precision)",
    "noise floor 32*eps_t*(sum|stencil weights|*|prefactor|*max|input| + max|ref|); measured headroom >= 10x",
    "second-order accuracy for smooth fields follows from exactness on P2 by Taylor's theorem (mathematics, not observed)",
]
REQUIRE = {
    "obligations": {"quick": 7900, "thorough": 36000},
    # complete finite set on the four dyadic grids: per precision and grid 72 (2-D operators) + 80 (3-D diffusion)
    # + 120 (curl, divergence) + 120 (updates, stretching) + 120 (filter Laplacians) = 512
    "obligations_exact_leg": 4096,
    "grids_tall_or_x_shortest": 12,
    "grids_sibling_same_shape_other_dx": 12,
    "scalar_args_python_float": 1000,
    "scalar_args_real_t": 1000,
    "basis_sweeps_complete": {"quick": 320, "thorough": 1470},
    "eno3_cells_faces_upwind_differently_diverging": 50,
    "eno3_cells_faces_upwind_differently_converging": 50,
    "eno3_cells_same_upwind_cubic": 1000,
    "filter_lap1d_kernels_called": 24,
    "zero_multiplier_obligations": 100,
    "calls_with_temporary_view_arguments": 600,
}
K_NOISE = 32.0
F64 = np.float64

GROUPS = ("ops2d", "eno2d", "diff3d", "curldiv3d", "upd3d", "filt_eno3d")
DYADIC = {
    # the last entry of each list is TALL (grid_size_y > grid_size_x) resp. has x as the SHORTEST axis (z > y > x): a kernel
    # that slices / iterates with the extents of the wrong axis is only wrong there
    2: [((7, 8), 1.0), ((9, 16), 0.5), ((6, 8), 4.0), ((11, 8), 1.0)],
    3: [((5, 6, 8), 1.0), ((7, 5, 16), 0.5), ((6, 5, 8), 4.0), ((10, 9, 8), 1.0)],
}


def shards(tier, seed):
    out = []
    for g in GROUPS:
        for dt in ("float64", "float32"):
            if tier == "quick":
                out.append({"name": f"{g}-{dt}-p0", "group": g, "dtype": dt, "part": 0, "fixed": True, "nrand": 2})
            else:
                out.append({"name": f"{g}-{dt}-p0", "group": g, "dtype": dt, "part": 0, "fixed": True, "nrand": 4})
                out.append({"name": f"{g}-{dt}-p1", "group": g, "dtype": dt, "part": 1, "fixed": False, "nrand": 8})
                out.append({"name": f"{g}-{dt}-p2", "group": g, "dtype": dt, "part": 2, "fixed": False, "nrand": 8})
    return out


# ------------------------------------------------------------------------------------------------
# polynomials in (x, y[, z]):  dict exponent-tuple -> coefficient ; exponent index k <-> position_field[k]
# ------------------------------------------------------------------------------------------------
def mons(d, deg=2):
    return [e for e in itertools.product(range(deg + 1), repeat=d) if sum(e) <= deg]


def peval(p, P):
    out = np.zeros(P[0].shape, F64)
    for e, c in p.items():
        t = np.full(P[0].shape, float(c), F64)
        for k, n in enumerate(e):
            for _ in range(n):
                t = t * P[k]
        out = out + t
    return out


def pdiff(p, k):
    out = {}
    for e, c in p.items():
        if e[k] == 0:
            continue
        e2 = tuple(n - (i == k) for i, n in enumerate(e))
        out[e2] = out.get(e2, 0.0) + c * e[k]
    return out


def padd(p, q, s=1.0):
    out = dict(p)
    for e, c in q.items():
        out[e] = out.get(e, 0.0) + s * c
    return out


def plap(p, d):
    out = {}
    for k in range(d):
        out = padd(out, pdiff(pdiff(p, k), k))
    return out


def pcurl3(v):
    return [
        padd(pdiff(v[2], 1), pdiff(v[1], 2), -1.0),
        padd(pdiff(v[0], 2), pdiff(v[2], 0), -1.0),
        padd(pdiff(v[1], 0), pdiff(v[0], 1), -1.0),
    ]


def pcurl2(v):
    return padd(pdiff(v[1], 0), pdiff(v[0], 1), -1.0)


def mname(e):
    s = "".join(f"{n}^{k}" if k > 1 else n for n, k in zip("xyz", e) if k)
    return s or "1"


# ------------------------------------------------------------------------------------------------
class Ctx:
    def __init__(self, rec, rng, sh, sim, shape, xr, leg):
        self.rec, self.rng = rec, rng
        self.dtype = sh["dtype"]
        self.real_t = util.DT[self.dtype]
        self.eps = util.eps(self.real_t)
        self.shape = tuple(shape)
        self.d = len(shape)
        self.leg = leg  # "exact" | "noise"
        self.dx = float(sim.dx)
        self.P = [np.asarray(sim.position_field[k], F64) for k in range(self.d)]
        self.meta = {"dtype": self.dtype, "shape": self.shape, "x_range": xr, "dx": self.dx, "leg": leg}

    def arr(self, a, exact):
        """float64 values -> working precision; on the exact leg the harness's own premise
        (exact representability) is asserted, a failure is a harness error -> inconclusive"""
        a = np.asarray(a, F64)
        b = np.ascontiguousarray(a.astype(self.real_t))
        if exact and not np.array_equal(b.astype(F64), a):
            raise AssertionError(f"harness premise broken: input not representable in {self.dtype} {self.meta}")
        return self._maybe_view(b)

    def _maybe_view(self, b):
        """on a third of the noise-leg arrays: the same values as the interior view of a padded parent (non-contiguous),
        as a caller slicing a halo off a larger array would pass them"""
        if self.leg != "noise" or b.ndim < 2 or self.rng.random() > 0.33:
            return b
        parent = util.sentinel_like(self.rng, tuple(n + 2 for n in b.shape), b.dtype).copy()
        v = parent[tuple(slice(1, -1) for _ in b.shape)]
        v[...] = b
        self.rec.count("noncontiguous_array_arguments")
        return v

    def scalar(self, x):
        """scalar kernel argument, alternately as real_t (what the simulators pass) and as a plain python float"""
        self.nscal = getattr(self, "nscal", 0) + 1
        if self.nscal % 2:
            self.rec.count("scalar_args_real_t")
            return self.real_t(x)
        self.rec.count("scalar_args_python_float")
        return float(x)

    def sentinel(self, lead=()):
        return self._maybe_view(util.sentinel_like(self.rng, tuple(lead) + self.shape, self.real_t))

    def aux(self, lead, exact):
        sh = tuple(lead) + self.shape
        if exact:
            return self.rng.integers(-4, 5, size=sh).astype(F64)
        return self.rng.standard_normal(sh)

    def compare(self, key, mech, opts, label, got, ref, ghost, bound, exact, detail=""):
        """got: kernel output (working precision), ref: float64 analytic value; compared where the stencil fits"""
        rec = self.rec
        I = (Ellipsis,) + (slice(ghost, -ghost),) * self.d
        G = np.asarray(got, F64)[I]
        R = np.asarray(ref, F64)[I]
        ncell = int(R.size)
        legname = "exact" if exact else "noise"
        cls = (key, opts, self.dtype, legname, label)
        rec.count("obligations")
        rec.count("obligations_exact_leg" if exact else "obligations_noise_leg")
        rec.count("cells_compared", ncell)
        if ncell == 0:
            rec.case(None)
            return
        err = np.abs(G - R)
        if exact:
            tol = 4 * self.eps * np.abs(R)
            bad = ~(err <= tol)
            with np.errstate(divide="ignore", invalid="ignore"):
                ul = np.where(err == 0, 0.0, err / (self.eps * np.abs(R)))
            r = float(np.nanmax(ul)) / 4.0 if np.all(np.isfinite(ul)) else float("inf")
        else:
            tol = K_NOISE * self.eps * (bound + float(np.max(np.abs(R)))) + 1e-300
            bad = ~(err <= tol)
            r = float(np.max(err) / tol) if np.all(np.isfinite(err)) else float("inf")
        rec.stat(f"{legname}_{self.dtype}", r)
        rec.stat(f"{key}_{legname}", r)
        rec.case(cls, sample={"op": key, "opts": opts, "basis": label, **self.meta, "err_over_tol": r})
        if bad.any():
            cell = np.unravel_index(int(np.argmax(np.where(np.isfinite(err), err, np.inf) * bad)), R.shape)
            rec.violation(
                mech,
                f"{key} opts={opts} input={label} {detail}: {int(bad.sum())}/{ncell} interior cells differ from the continuous "
                f"operator; first cell (interior index) {tuple(int(c) for c in cell)} got={G[cell]!r} want={R[cell]!r} "
                f"tol={'4ulp' if exact else tol} {self.meta}",
                {"meta": self.meta, "op": key, "opts": opts, "basis": label, "got": np.asarray(got), "ref": np.asarray(ref)},
            )


def _zero_polys(slots):
    return {s: [dict() for _ in range(n)] for s, n in slots}


def sweep(ctx, key, mech, opts, slots, run, nrand):
    """complete basis of every input slot + random rational combinations of all monomials"""
    d = ctx.d
    M = mons(d)
    cs = (1.0, -2.0, 0.5, 3.0)
    i = 0
    exact = ctx.leg == "exact"
    for s, n in slots:
        for c in range(n):
            for e in M:
                pl = _zero_polys(slots)
                kcoef = float(ctx.rng.choice([1, 2, 3, -1, -2, -3])) if exact else float(ctx.rng.uniform(0.5, 3) * ctx.rng.choice([-1, 1]))
                pl[s][c] = {e: kcoef}
                mult = cs[i % 4] if exact else float(ctx.rng.uniform(0.3, 3) * ctx.rng.choice([-1, 1]))
                i += 1
                label = f"{s}{'_' + 'xyz'[c] if n > 1 else ''}={mname(e)}"
                detail = f"(coefficient {kcoef:g}, multiplier c={mult:g})"
                try:
                    got, ref, bound, ghost = run(pl, mult, exact)
                except _Raised as ex:
                    ctx.rec.violation(f"{key}-raises", f"{ex} opts={opts} input={label} {ctx.meta}", {"meta": ctx.meta})
                    ctx.rec.case(None)
                    continue
                ctx.compare(key, mech, opts, label, got, ref, ghost, bound, exact, detail)
    ctx.rec.count("basis_sweeps_complete")
    for j in range(nrand):
        pl = _zero_polys(slots)
        for s, n in slots:
            for c in range(n):
                pl[s][c] = {e: float(ctx.rng.integers(-9, 10)) / float(ctx.rng.integers(1, 8)) for e in M}
        mult = float(ctx.rng.uniform(0.3, 3) * ctx.rng.choice([-1, 1]))
        try:
            got, ref, bound, ghost = run(pl, mult, False)
        except _Raised as ex:
            ctx.rec.violation(f"{key}-raises", f"{ex} opts={opts} random combination {ctx.meta}", {"meta": ctx.meta})
            continue
        ctx.compare(key, mech, opts, f"rational-combination-{j % 2}", got, ref, ghost, bound, False)
        ctx.rec.count("random_rational_combinations")


class _Raised(Exception):
    pass


def zero_multiplier(ctx, key, mech, opts, slots, run):
    """multiplier exactly 0 (inviscid run, switched-off coupling): c * operator = 0 exactly, into sentinel-filled outputs"""
    M = mons(ctx.d)
    pl = _zero_polys(slots)
    for s_, n in slots:
        for c in range(n):
            pl[s_][c] = {e: float(ctx.rng.integers(-4, 5)) for e in M}
    exact = ctx.leg == "exact"
    try:
        got, ref, bound, ghost = run(pl, 0.0, exact)
    except _Raised as ex:
        ctx.rec.violation(f"{key}-raises", f"{ex} opts={opts} multiplier 0 {ctx.meta}", {"meta": ctx.meta})
        return
    ctx.compare(key, mech, opts, "multiplier=0", got, ref, ghost, bound, exact, "(multiplier exactly zero)")
    ctx.rec.count("zero_multiplier_obligations")


def history(ctx, key, mech, opts, slots, run, K=6):
    """K calls in a tight loop on ONE kernel object where every array argument is a TEMPORARY view (stack[k]) of different
    memory: the view objects die after each call and CPython hands their id() to the next ones, so anything the wrapper
    remembers per id(argument) is stale.  Results are compared afterwards."""
    global _DEFER
    M = mons(ctx.d)
    items = []
    _DEFER = []
    try:
        for j in range(K):
            pl = _zero_polys(slots)
            for s_, n in slots:
                for c in range(n):
                    pl[s_][c] = {e: float(ctx.rng.integers(-9, 10)) / float(ctx.rng.integers(1, 8)) for e in M}
            items.append(run(pl, float(ctx.rng.uniform(0.3, 3) * ctx.rng.choice([-1, 1])), False))
        calls = _DEFER
    finally:
        _DEFER = None
    if len(calls) != K:
        return
    kern = calls[0][0]
    names = [n for n, v in calls[0][1].items() if isinstance(v, np.ndarray)]
    store = {n: np.stack([np.asarray(c[1][n]) for c in calls]) for n in names}
    scal = [{n: v for n, v in c[1].items() if not isinstance(v, np.ndarray)} for c in calls]
    try:
        for k in range(K):
            kern(**{n: store[n][k] for n in names}, **scal[k])
    except Exception as ex:
        ctx.rec.violation(f"{key}-raises", f"{type(ex).__name__}: {ex} opts={opts} history of temporary views {ctx.meta}", {"meta": ctx.meta})
        return
    for k, (got, ref, bound, ghost) in enumerate(items):
        name = next(n for n in names if calls[k][1][n] is got)
        ctx.compare(key, mech, opts, "temporary-view-history", store[name][k], ref, ghost, bound, False, f"(call {k + 1} of {K} with temporary views of different memory)")
        ctx.rec.count("calls_with_temporary_view_arguments")


_DEFER = None  # history leg: list collecting (kernel, kwargs) instead of calling


def _call(k, **kw):
    if _DEFER is not None:
        _DEFER.append((k, kw))
        return
    try:
        k(**kw)
    except Exception as e:  # SophT raising on an admissible input
        raise _Raised(f"{type(e).__name__}: {e}") from e


# ------------------------------------------------------------------------------------------------
# operator runners (closures over a generated kernel); each returns got, ref, bound, ghost
# ------------------------------------------------------------------------------------------------
def op_diffusion_scalar(ctx, kern):
    d = ctx.d

    def run(pl, c, exact):
        p = pl["f"][0]
        f = ctx.arr(peval(p, ctx.P), exact)
        out = ctx.sentinel()
        pref = c / ctx.dx**2
        _call(kern, diffusion_flux=out, field=f, prefactor=ctx.scalar(pref))
        return out, c * peval(plap(p, d), ctx.P), abs(pref) * 4 * d * util.maxabs(f), 1

    return [("f", 1)], run


def op_diffusion_vector(ctx, kern):
    def run(pl, c, exact):
        f = ctx.arr(np.array([peval(p, ctx.P) for p in pl["f"]]), exact)
        out = ctx.sentinel((3,))
        pref = c / ctx.dx**2
        _call(kern, vector_field_diffusion_flux=out, vector_field=f, prefactor=ctx.scalar(pref))
        ref = np.array([c * peval(plap(p, 3), ctx.P) for p in pl["f"]])
        return out, ref, abs(pref) * 12 * util.maxabs(f), 1

    return [("f", 3)], run


def op_outplane(ctx, kern):
    def run(pl, c, exact):
        p = pl["psi"][0]
        f = ctx.arr(peval(p, ctx.P), exact)
        out = ctx.sentinel((2,))
        pref = c / (2 * ctx.dx)
        _call(kern, curl=out, field=f, prefactor=ctx.scalar(pref))
        ref = np.array([c * peval(pdiff(p, 1), ctx.P), -c * peval(pdiff(p, 0), ctx.P)])
        return out, ref, abs(pref) * 2 * util.maxabs(f), 1

    return [("psi", 1)], run


def op_inplane(ctx, kern):
    def run(pl, c, exact):
        f = ctx.arr(np.array([peval(p, ctx.P) for p in pl["f"]]), exact)
        out = ctx.sentinel()
        pref = c / (2 * ctx.dx)
        _call(kern, curl=out, field=f, prefactor=ctx.scalar(pref))
        return out, c * peval(pcurl2(pl["f"]), ctx.P), abs(pref) * 4 * util.maxabs(f), 1

    return [("f", 2)], run


def op_curl3(ctx, kern):
    def run(pl, c, exact):
        f = ctx.arr(np.array([peval(p, ctx.P) for p in pl["f"]]), exact)
        out = ctx.sentinel((3,))
        pref = c / (2 * ctx.dx)
        _call(kern, curl=out, field=f, prefactor=ctx.scalar(pref))
        ref = np.array([c * peval(q, ctx.P) for q in pcurl3(pl["f"])])
        return out, ref, abs(pref) * 4 * util.maxabs(f), 1

    return [("f", 3)], run


def op_div3(ctx, kern):
    def run(pl, c, exact):
        f = ctx.arr(np.array([peval(p, ctx.P) for p in pl["f"]]), exact)
        out = ctx.sentinel()
        inv_dx = 1.0 / ctx.dx
        _call(kern, divergence=out, field=f, inv_dx=ctx.scalar(inv_dx))
        ref = sum(peval(pdiff(pl["f"][k], k), ctx.P) for k in range(3))
        return out, ref, 0.5 * inv_dx * 6 * util.maxabs(f), 1

    return [("f", 3)], run


def op_forcing(ctx, kern):
    d = ctx.d

    def run(pl, c, exact):
        f = ctx.arr(np.array([peval(p, ctx.P) for p in pl["F"]]), exact)
        w0 = ctx.aux((3,) if d == 3 else (), exact)
        w = ctx.arr(w0, exact)
        w0 = w.astype(F64)
        pref = c / (2 * ctx.dx)
        _call(kern, vorticity_field=w, velocity_forcing_field=f, prefactor=ctx.scalar(pref))
        if d == 3:
            cu = np.array([peval(q, ctx.P) for q in pcurl3(pl["F"])])
        else:
            cu = peval(pcurl2(pl["F"]), ctx.P)
        return w, w0 + c * cu, abs(pref) * 4 * util.maxabs(f) + util.maxabs(w0), 1

    return [("F", d)], run


def op_penalised(ctx, kern):
    d = ctx.d

    def run(pl, c, exact):
        up = ctx.arr(np.array([peval(p, ctx.P) for p in pl["upen"]]), exact)
        u = ctx.arr(np.array([peval(p, ctx.P) for p in pl["u"]]), exact)
        w0 = ctx.aux((3,) if d == 3 else (), exact)
        w = ctx.arr(w0, exact)
        w0 = w.astype(F64)
        pref = c / (2 * ctx.dx)
        _call(kern, vorticity_field=w, penalised_velocity_field=up, velocity_field=u, prefactor=ctx.scalar(pref))
        diff = [padd(a, b, -1.0) for a, b in zip(pl["upen"], pl["u"])]
        if d == 3:
            cu = np.array([peval(q, ctx.P) for q in pcurl3(diff)])
        else:
            cu = peval(pcurl2(diff), ctx.P)
        return w, w0 + c * cu, abs(pref) * 4 * (util.maxabs(up) + util.maxabs(u)) + util.maxabs(w0), 1

    return [("upen", d), ("u", d)], run


def op_stretching(ctx, kern):
    def run(pl, c, exact):
        u = ctx.arr(np.array([peval(p, ctx.P) for p in pl["u"]]), exact)
        w = ctx.arr(ctx.aux((3,), exact), exact)  # arbitrary vorticity
        W = w.astype(F64)
        out = ctx.sentinel((3,))
        pref = c / (2 * ctx.dx)
        _call(kern, vorticity_stretching_flux_field=out, vorticity_field=w, velocity_field=u, prefactor=ctx.scalar(pref))
        ref = np.array([c * sum(W[k] * peval(pdiff(pl["u"][cc], k), ctx.P) for k in range(3)) for cc in range(3)])
        return out, ref, abs(pref) * 6 * util.maxabs(W) * util.maxabs(u), 1

    return [("u", 3)], run


def op_filter_lap(ctx, info, comp):
    """1-D filter Laplacian along component ``comp`` (x=0): 0.25(2f - f+ - f-) = -(dx^2/4) d^2 f/dx_comp^2"""
    wname = next(iter(info.writes))
    rname = next(iter(info.reads))

    def run(pl, c, exact):
        p = pl["f"][0]
        f = ctx.arr(peval(p, ctx.P), exact)
        out = ctx.sentinel()
        _call(info.callable, **{wname: out, rname: f})
        ctx.rec.count("filter_lap1d_kernels_called")
        ref = -(ctx.dx**2 / 4.0) * peval(pdiff(pdiff(p, comp), comp), ctx.P)
        return out, ref, util.maxabs(f), 1

    return [("f", 1)], run


def filter_lap_kernels(spne, real_t, field_type, filter_type, shape):
    """generate the filter, return {component: KernelInfo} for its three internal 1-D Laplacians, found in
    the registry by access signature; None if the generator no longer has that structure"""
    n0 = len(kernelspy.REG)
    spne.gen_laplacian_filter_kernel_3d(
        filter_order=1,
        filter_flux_buffer=np.zeros(shape, real_t),
        field_buffer=np.zeros(shape, real_t),
        real_t=real_t,
        num_threads=2,
        field_type=field_type,
        filter_type=filter_type,
    )
    cands = []
    for info in kernelspy.REG[n0:]:
        if info.gen != "gen_laplacian_filter_kernel_3d" or len(info.writes) != 1 or len(info.reads) != 1:
            continue
        (wacc,) = info.writes.values()
        (racc,) = info.reads.values()
        if {o for o, _ in wacc} != {(0, 0, 0)}:
            continue
        offs = {o for o, _ in racc}
        if len(offs) != 3 or (0, 0, 0) not in offs:
            continue
        nz = [o for o in offs if o != (0, 0, 0)]
        axes = {tuple(i for i, v in enumerate(o) if v != 0) for o in nz}
        if len(axes) != 1 or len(next(iter(axes))) != 1:
            continue
        ax = next(iter(axes))[0]
        if {o[ax] for o in nz} != {1, -1}:
            continue
        cands.append((2 - ax, info))  # array axis 2 = x = component 0
    return cands


# ------------------------------------------------------------------------------------------------
# ENO3
# ------------------------------------------------------------------------------------------------
def eno_sweep(ctx, key, mech, kern):
    rec, d, P, dx, rng = ctx.rec, ctx.d, ctx.P, ctx.dx, ctx.rng
    inv_dx = 1.0 / dx
    W = 2 * (1 / 3 + 5 / 6 + 1 / 6)

    def one(comp, f64, v64, dg, label, kind):
        ax = d - 1 - comp
        f = ctx.arr(f64, False)
        V = np.zeros((d,) + ctx.shape, ctx.real_t)
        V[comp] = ctx.arr(v64, False)
        out = np.zeros(ctx.shape, ctx.real_t)
        try:
            _call(kern, advection_flux=out, field=f, velocity=V, inv_dx=ctx.scalar(inv_dx))
        except _Raised as ex:
            rec.violation(f"{key}-raises", f"{ex} input={label} {ctx.meta}", {"meta": ctx.meta})
            rec.case(None)
            return
        # which way do the two faces of each compared cell upwind (documented switch v_i > -v_{i+1})
        vv = np.moveaxis(V[comp].astype(F64), ax, -1)
        up = vv[..., :-1] > -vv[..., 1:]  # face between i and i+1
        n = vv.shape[-1]
        I2 = (slice(2, -2),) * (d - 1)
        front = up[..., 2 : n - 2][I2]
        back = up[..., 1 : n - 3][I2]
        if kind == "cubic":
            if np.any(front != back):
                raise AssertionError("harness: one-signed velocity produced mixed upwinding")
            rec.count("eno3_cells_same_upwind_cubic", front.size)
        else:
            rec.count("eno3_cells_faces_upwind_differently_diverging", int(np.sum(front & ~back)))
            rec.count("eno3_cells_faces_upwind_differently_converging", int(np.sum(~front & back)))
        g = f.astype(F64) * V[comp].astype(F64)
        ctx.compare(key, mech, "-", label, out, dg, 2, inv_dx * W * util.maxabs(g), False)

    for comp in range(d):
        X = P[comp]
        ax = d - 1 - comp
        n = ctx.shape[ax]
        # (a) cubics, velocity of one sign everywhere (positions are > 0)
        for a in range(4):
            for b in range(4 - a):
                for sgn in (1.0, -1.0):
                    kf = float(rng.choice([1, 2, -1, -3]))
                    f64 = kf * X**a
                    v64 = sgn * X**b
                    m = a + b
                    dg = kf * sgn * m * X ** (m - 1) if m > 0 else np.zeros_like(X)
                    one(comp, f64, v64, dg, f"{'xyz'[comp]}: f=x^{a} v={sgn:+g}x^{b}", "cubic")
        # (b) linear velocity crossing zero inside the compared region, deg f + deg v <= 2
        sl = [0] * d
        sl[ax] = slice(None)
        xs = X[tuple(sl)]  # 1-D coordinates along this axis
        for s in (1.0, -1.0, 2.0, -0.5):
            for frac, fname in ((0.5, "face"), (0.0, "centre"), (0.25, "quarter")):
                j = int(rng.integers(2, n - 3)) if n > 5 else 2
                x0 = float(xs[j] + frac * dx)
                for fa in (0, 1):
                    kf = float(rng.choice([1, 2, -1, -3]))
                    f64 = kf * X**fa
                    v64 = s * (X - x0)
                    dg = kf * s * (np.ones_like(X) if fa == 0 else (2 * X - x0))
                    one(comp, f64, v64, dg, f"{'xyz'[comp]}: f=x^{fa} v={s:+g}(x-x0@{fname})", "crossing")
    rec.count("basis_sweeps_complete")


# ------------------------------------------------------------------------------------------------
def run_shard(sh, rec):
    kernelspy.install()
    import sopht.numeric.eulerian_grid_ops as spne

    tier, seed, group = sh["tier"], sh["seed"], sh["group"]
    real_t = util.DT[sh["dtype"]]
    rng = util.rng_for(seed, ID, group, sh["dtype"], sh["part"])
    d = 2 if group in ("ops2d", "eno2d") else 3
    nrc = 2  # random rational combinations per (operator, option, grid)
    kw = dict(real_t=real_t, num_threads=2)
    rec.note(
        f'"exhaustive_monomial_basis": true  [{sh["name"]}: every monomial x component x slot x generator option of group '
        f"{group} on every grid of this shard]"
    )

    def gen(name, fn, **opt):
        try:
            return fn(**kw, **opt)
        except Exception as e:
            rec.violation(f"{name}-generator-raises", f"{type(e).__name__}: {e} options={opt}", {"opt": opt})
            return None

    # ---- generate the kernels of this group once -------------------------------------------------
    ops = []  # (key, mechanism, opts-string, builder(ctx) -> (slots, run))
    eno = None
    filt = []
    TF = (True, False)
    if group == "ops2d":
        for r in TF:
            k = gen("diffusion_flux_2d", spne.gen_diffusion_flux_pyst_kernel_2d, reset_ghost_zone=r)
            ops.append(("diffusion_flux_2d", "diffusion_flux_2d!=c*laplacian", f"reset={r}", k, op_diffusion_scalar))
            k = gen("outplane_curl_2d", spne.gen_outplane_field_curl_pyst_kernel_2d, reset_ghost_zone=r)
            ops.append(("outplane_curl_2d", "outplane_curl_2d!=(d_y,-d_x)", f"reset={r}", k, op_outplane))
        k = gen("inplane_curl_2d", spne.gen_inplane_field_curl_pyst_kernel_2d)
        ops.append(("inplane_curl_2d", "inplane_curl_2d!=d_x f_y-d_y f_x", "-", k, op_inplane))
        k = gen("forcing_update_2d", spne.gen_update_vorticity_from_velocity_forcing_pyst_kernel_2d)
        ops.append(("forcing_update_2d", "forcing_update_2d!=w+c*curl", "-", k, op_forcing))
        k = gen("penalised_update_2d", spne.gen_update_vorticity_from_penalised_velocity_pyst_kernel_2d)
        ops.append(("penalised_update_2d", "penalised_update_2d!=w+c*curl(up-u)", "-", k, op_penalised))
    elif group == "eno2d":
        eno = ("eno3_2d", "eno3_2d!=d(fv)", gen("eno3_2d", spne.gen_advection_flux_conservative_eno3_pyst_kernel_2d))
    elif group == "diff3d":
        for r in TF:
            k = gen("diffusion_flux_3d", spne.gen_diffusion_flux_pyst_kernel_3d, reset_ghost_zone=r, field_type="scalar")
            ops.append(("diffusion_flux_3d", "diffusion_flux_3d!=c*laplacian", f"scalar,reset={r}", k, op_diffusion_scalar))
            k = gen("diffusion_flux_3d", spne.gen_diffusion_flux_pyst_kernel_3d, reset_ghost_zone=r, field_type="vector")
            ops.append(("diffusion_flux_3d", "diffusion_flux_3d!=c*laplacian", f"vector,reset={r}", k, op_diffusion_vector))
    elif group == "curldiv3d":
        for r in TF:
            k = gen("curl_3d", spne.gen_curl_pyst_kernel_3d, reset_ghost_zone=r)
            ops.append(("curl_3d", "curl_3d!=curl", f"reset={r}", k, op_curl3))
            k = gen("divergence_3d", spne.gen_divergence_pyst_kernel_3d, reset_ghost_zone=r)
            ops.append(("divergence_3d", "divergence_3d!=div", f"reset={r}", k, op_div3))
    elif group == "upd3d":
        k = gen("forcing_update_3d", spne.gen_update_vorticity_from_velocity_forcing_pyst_kernel_3d)
        ops.append(("forcing_update_3d", "forcing_update_3d!=w+c*curl", "-", k, op_forcing))
        k = gen("penalised_update_3d", spne.gen_update_vorticity_from_penalised_velocity_pyst_kernel_3d)
        ops.append(("penalised_update_3d", "penalised_update_3d!=w+c*curl(up-u)", "-", k, op_penalised))
        k = gen("stretching_flux_3d", spne.gen_vorticity_stretching_flux_pyst_kernel_3d)
        ops.append(("stretching_flux_3d", "stretching_flux_3d!=c*(w.grad)u", "-", k, op_stretching))
    elif group == "filt_eno3d":
        eno = ("eno3_3d", "eno3_3d!=d(fv)", gen("eno3_3d", spne.gen_advection_flux_conservative_eno3_pyst_kernel_3d))
        for ft in ("scalar", "vector"):
            for fty in ("multiplicative", "convolution"):
                try:
                    cands = filter_lap_kernels(spne, real_t, ft, fty, (5, 6, 7))
                except Exception as e:
                    rec.violation("filter_lap1d-generator-raises", f"{type(e).__name__}: {e} field_type={ft} filter_type={fty}", {})
                    continue
                comps = sorted(c for c, _ in cands)
                if len(cands) < 3:
                    rec.inconclusive_(f"filter generator ({ft},{fty}) exposes {len(cands)} one-dimensional 3-point kernels (expected 3)")
                    continue
                if comps != [0, 1, 2]:
                    rec.violation(
                        "filter_lap1d-axes-not-xyz",
                        f"the 1-D filter Laplacians of gen_laplacian_filter_kernel_3d({ft},{fty}) act along components {comps}, not one each along x, y, z",
                        {"comps": comps},
                    )
                    continue
                for c, info in cands:
                    filt.append((f"{ft},{fty},axis={'xyz'[c]}", info, c))
    else:
        raise ValueError(group)

    # ---- grids -----------------------------------------------------------------------------------
    grids = []
    if sh["fixed"]:
        grids += [(s, xr, "exact") for s, xr in DYADIC[d]]
        # sibling simulator: SAME shape and precision as the first grid of this process, other x_range (dx)
        grids.append((DYADIC[d][0][0], float(rng.uniform(0.3, 7.0)), "noise"))
    for _ in range(sh["nrand"]):
        shape = util.shape2d(rng, 5, 24) if d == 2 else util.shape3d(rng, 5, 12)
        if rng.random() < 0.25:
            # one long axis (34..70 cells), thin other axes (seams of slab-wise wrappers)
            ls = [int(x) for x in rng.integers(5, 8, size=d)]
            ls[int(rng.integers(d))] = int(rng.integers(34, 71))
            shape = tuple(ls)
            rec.count("grids_with_one_long_axis")
        grids.append((shape, float(rng.uniform(0.3, 7.0)), "noise"))

    for shape, xr, leg in grids:
        sim = sims.build({"kind": "passive", "shape": shape, "x_range": xr, "dtype": sh["dtype"], "threads": 2})
        ctx = Ctx(rec, rng, sh, sim, shape, xr, leg)
        if tuple(sim.position_field.shape) != (d, *shape) or sim.position_field.dtype != np.dtype(real_t):
            raise AssertionError(f"unexpected position_field {sim.position_field.shape} {sim.position_field.dtype}")
        rec.count("grids_exact_leg" if leg == "exact" else "grids_noise_leg")
        if shape[0] > shape[-1]:
            rec.count("grids_tall_or_x_shortest")
        if leg == "noise" and sh["fixed"] and tuple(shape) == tuple(DYADIC[d][0][0]):
            rec.count("grids_sibling_same_shape_other_dx")
        for key, mech, opts, k, builder in ops:
            if k is None:
                continue
            slots, run = builder(ctx, k)
            sweep(ctx, key, mech, opts, slots, run, nrc)
            zero_multiplier(ctx, key, mech, opts, slots, run)
            history(ctx, key, mech, opts, slots, run)
        for opts, info, c in filt:
            slots, run = op_filter_lap(ctx, info, c)
            sweep(ctx, "filter_lap1d", "filter_lap1d!=-(dx^2/4)d2", opts, slots, run, nrc)
            history(ctx, "filter_lap1d", "filter_lap1d!=-(dx^2/4)d2", opts, slots, run, K=4)
        if eno is not None and eno[2] is not None:
            eno_sweep(ctx, eno[0], eno[1], eno[2])
