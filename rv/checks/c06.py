"""C06 — delta kernels: partition of unity and moments (DESIGN §4 C06).

The real numba closures of ``EulerianLagrangianGridCommunicator{2,3}D`` are driven exactly like
``VirtualBoundaryForcing`` drives them (float64 marker positions, ``int`` index buffer, ``real_t`` support
and weight buffers, ``eul_grid_coord_shift = real_t(dx/2)``, ``dx`` taken from the real ``FlowSimulator``
domain set-up).  Per batch of N markers the monitor

1. scatters the 4^d weights of every marker to a dense field with the kernel's OWN index array and the
   documented window (index-1 … index+2) and compares it over the WHOLE grid with the independent
   closed-form delta ``prod_a phi((x_c - X_a)/dx)/dx^d`` (``rv.ref.ib``; phi from Peskin 2002, not from the
   source) — a shifted window shows up as mass in cells where the delta is exactly zero;
2. checks sign (slack 16·eps·max w), ``sum w·dx^d = 1`` and (Peskin) the first moment about the marker using
   the monitor's own cell coordinates, in long double;
3. interpolates constants (both kernels, scalar and vector variant, different constant per component) and,
   for Peskin, the simulator's own ``position_field`` and a random affine field through the REAL
   Eulerian→Lagrangian kernels and compares with the value at the marker;
4. counts the markers whose kernel index differs from ``floor((X - shift)/dx)`` evaluated in float64 (the
   "floor shifted by one" branch the source comment talks about); the run is INCONCLUSIVE when none did.

Workload diversity (added after the seeded-change campaign): every 4th batch runs on a TALL grid (2-D: grid_size_y >
grid_size_x; 3-D alternately y > x and z > x); after its pool entries every shard builds a SIBLING communicator that shares
dx with one earlier object and N with another (3-D variant B: N == dim), constructed with positional arguments and the
documented defaults, and then drives the FIRST communicator of the process again (module-level caches keyed incompletely).

Self-test of the added dimensions: a module-level cache of the 2-D Eulerian->Lagrangian interpolation closure keyed by
(num_lag_nodes, kernel width, n_components) but not dx (patch) -> VIOLATION interp-constant!=constant, interp-coordinate!=...,
interp-affine!=..., every witness on the 'sibling' object (variant A: N = 7 at dx = 2pi/48, then at dx = 1/37).

Argument dimensions (added later; nothing asserted before was changed, every new execution is compared with the SAME closed-form
references at the SAME tolerances -- never with another execution):
 (a) array layout -- every third batch (``batch_layout``) passes EVERY caller-supplied array as a non-contiguous array holding the same
     values: support / weight buffers, Eulerian fields, Lagrangian outputs as interior of a sentinel-padded parent or every second
     element of a parent ("views": numba layout 'A') or column-major ("fortran": layout 'F', a (d, N) array is (N, d) storage passed as
     ``.T``); marker positions always as (N, d) storage passed as ``.T``.  Two layouts only (one more compilation per kernel signature
     each); the per-layout buffers are allocated once per communicator and refilled with sentinels in place; results are read back with
     ``np.ascontiguousarray``.  Counters batches_layout_views / _fortran, kernel_calls_with_noncontiguous_array_arguments.
     EXCLUDED layout: strided (neither C- nor F-contiguous) marker positions / index buffers.  On the unchanged tree the support kernel
     raises numba ``TypingError: reshape() supports contiguous array only`` for them (``lag_positions.reshape(grid_dim, 1, 1, N)`` and the
     same reshape of the index buffer, ...Communicator2D.py:125/130, 3-D likewise; witness: ``lag_positions = P[:, ::2]`` of a (2, 14)
     float64 array, N = 7).  A loud rejection at typing, before any value exists, of a layout SophT never supported -- not a violation of
     this property (agreed with the framework owner); ``probe_excluded_layout`` observes it once per process (counter
     ``excluded_layout_strided_positions:rejected_at_numba_typing``; ``...:accepted_by_this_tree`` if a later tree accepts them).
 (b) histories of temporary views -- once per communicator object (``_history``) K = 3..6 calls of support, weights, scalar and vector
     interpolation in a tight loop where every array argument is ``stack[name][k]`` (a fresh temporary view of different memory per
     call, so CPython recycles the id() values); afterwards EVERY slot runs through the complete battery above (dense delta, sign, sum,
     moment, constants, coordinates) plus the constants interpolated inside the loop.  Counters histories_of_temporary_view_arguments,
     history_slots_compared.
 (c) exact zeros -- an all-zero Eulerian field, and a vector field with one exactly-zero component, interpolated into sentinel-filled
     outputs must give exactly 0 (every term is 0 * w with finite w; the relative floor of the constant check vanishes for c = 0, so the
     comparison is by value).  Counter interp_zero_field_values.  Nothing else in this property has a parameter whose zero value is
     meaningful (dx = 0 is inadmissible; the kernels take no coefficient or dt).
 (d) scalar types -- the kernels take no scalar argument at call time; the two scalar CONSTRUCTOR arguments (dx, eul_grid_coord_shift)
     are working-precision NumPy scalars everywhere else; one more communicator per shard (role 'scalar-types', the first pool entry's
     (dx, N)) gets the same two values as python floats (variant A) / 0-d arrays of the working precision (B) / np.float64 (C) / 0-d
     float64 arrays (D).  Counters batches_comm_built_with_other_scalar_types, batches_dx_and_shift_passed_as_<type>.
 (e) grid origin -- every other communicator is built with eul_grid_coord_shift = dx/2; four more per shard (``ORIGINS`` / role 'origin:*',
     reusing pool (dx, N) pairs: only the support kernel captures the shift) get exactly 0.0 (python float or working-precision scalar),
     dx/4, and x0 + dx/2 for a domain starting at x0 = -2 dx / +3.5 dx.  Documented convention: cell centre i sits at i*dx + shift along
     every axis.  All monitors use the communicator's actual shift: markers are generated for the standard grid and moved with the
     origin (same position classes relative to the cells, supports stay inside), the closed-form delta, floor / centre bookkeeping and
     first moment use ``comm.shiftf``, and the coordinate / affine field of the Peskin checks is ``coordinate_field`` (i*dx + shift) instead
     of the simulator's position_field.  Counters batches_grid_origin_zero / _quarter_cell / _shifted_domain.
     Independently written changes now caught (were missed: every communicator had shift dx/2): nearest index from a hard-wired 0.5*dx
     while the distances use the real shift; ``eul_grid_coord_shift = eul_grid_coord_shift or real_t(dx / 2)`` (an explicit 0.0 replaced).
Self-test of (a)-(d) (tools/mut.sh, quick tier, seed 0, ...Communicator2D.py; each reported VIOLATION and every witness carries the new
dimension; the unchanged tree is HELD for seeds 0-3 quick and seed 0 thorough):
 19 (a) both weight kernels write ``np.ascontiguousarray(interp_weights)[...] = ...`` (a copy    weights-not-finite (sentinels never replaced) only in batches
        for non-contiguous outputs: results never reach the caller)                              with 'layout': 'views' | 'fortran'
 20 (b) __init__ wraps the weights kernel with a cache of prepared output views keyed by         weights-not-finite, weights!=closed-form-delta, weight-outside-..., first
        id(interp_weights) (``out = cache[id(w)] = w[...]``; stale for recycled ids)             moment, coordinates: all 24 witnesses are slots of a 'history'; no other batch
 21 (c) scalar interpolation skips the store when the window sum is 0 ("nothing in the            interp-zero-field!=0 only (all other statistics as on the unchanged tree)
        support of this node")
 22 (d) __init__: ``if not isinstance(dx, np.floating): dx = np.float32(dx)`` (python floats and   weights!=closed-form-delta, sum-weights!=1, interp-constant, ... in the float64
        0-d arrays coerced to single precision)                                                  shards, every witness on the 'scalar-types' object

Tolerances (noise floors; ``kap = |X|/dx + 2`` is the amplification of the float64 cancellation in
``(index+j)*dx + shift - X`` -- invisible in float32 -- and ``e = eps_t + eps64*kap``):
  sign      w >= -16*eps_t*max w          (DESIGN says 4: the Peskin outer branch 5-2r-sqrt(..) is +-1.5 eps near
                                           r = 2, measured worst -1*eps*max w; 16 keeps the required 10x headroom)
  weights   16*e*d*2^-d/dx^d               (|phi| <= 1/2, |phi'| <= 1/2)
  sum       64*eps_t + 4*eps64*kap         (DESIGN says 16 eps_t: measured |sum-1| up to 3.5 eps_t (float32 cosine 3-D,
                                           64 single-precision cosines), so 16 would leave only 4.5x headroom)
  first moment 24*e*dx       constants 4*4^d*e*|c|       coordinates 4*4^d*eps_t*(|X|+2dx)     affine: same on sum|terms|
Measured max error/tolerance, seeds 0..5 quick and seeds 0,1 thorough (``rec.stat``, also in evidence/C06.json):
weights 0.055, sum 0.055, first moment 0.054, sign 0.0625, constants 0.073, coordinates 0.070, affine 0.072
(and |sum-1| <= 0.22 of DESIGN's 16*eps_t, stat ``sum_minus_one_over_design_16eps``).

Deliberate breaks tried with ``tools/mut.sh --sed`` (files .../EulerianLagrangianGridCommunicator{2,3}D.py; quick
tier, seed 0; every one reported VIOLATION, listed with the mechanisms that fired)
==========================================================================================================
 1  2D cosine coefficient 0.25/dx -> 0.26/dx                    weights!=closed-form-delta, sum-weights!=1, interp-constant!=constant
 2  2D cosine argument 0.5*np.pi -> 0.5*3.14                    weights!=closed-form-delta (err/tol 100 in float32), sum-weights!=1
 3  3D Peskin 3.0 - 2r -> 3.1 - 2r (first factor only)          weights!=closed-form-delta, sum-weights!=1
 4  2D Peskin outer branch (r < 2.0) -> (r < 1.5)               weights!=closed-form-delta, sum-weights!=1
 5  2D support offsets arange(-w+1, w+1) -> arange(-w, w)       weights!=closed-form-delta (mass one cell off)
 6  3D floor (X-shift)//dx -> (X-shift+0.5dx)//dx               weight-outside-four-nearest-cells
 7  2D floor (X-shift)//dx -> X//dx                             weight-outside-four-nearest-cells
 8  2D Peskin (0.125/dx)**d -> (0.125)**d                       weights!=closed-form-delta, sum-weights!=1
 9  3D scalar interpolation without * dx**d                     interp-constant!=constant
10  2D scalar interpolation x-window shifted by +1              interp-coordinate!=marker-position (diff 1.000 dx), interp-affine!=...,
                                                                interpolation-raises (marker next to the admissible edge: clipped slice)
11  2D vector interpolation: component 1 reads component 0      interp-constant!=constant(vector)
12  3D support distances without + eul_grid_coord_shift         weights!=closed-form-delta
13  2D Peskin np.fabs(support)/dx -> support/dx                 weights!=closed-form-delta, sum-weights!=1
14  3D stack((x,y,z)) -> stack((z,y,x)) of the offset grids     weights!=closed-form-delta (transposed weights)
15  2D distances from np.floor((X-shift)/dx) instead of the     weights!=closed-form-delta, peskin-first-moment!=0 (-1.000 dx): wrong
    stored index ("floor-correction" of the source comment)     for exactly the markers in the floor-shifted branch (needs REQUIRE)
16  3D vector interpolation: z-window of component 2 from idx[1] interpolation-raises (non-cubic grid: clipped slice cannot broadcast)
17  2D Peskin sqrt argument 4 r^2 -> 4.001 r^2 (one factor)     weights!=closed-form-delta (err/tol 5 in float32), sum-weights!=1 (2e-5)
18  (probe of an equivalent change) floor(q + 1e-9) instead of //  no violation; INCONCLUSIVE because no float64 on-centre marker is
                                                                indexed to the lower cell any more (REQUIRE).  Distances are recomputed
                                                                from whichever index is stored and the extra cell gets phi(2+) = 0, so
                                                                the property holds for both variants and the monitors stay silent.
"""
import numpy as np

from .. import util
from ..ref import ib

ID = "C06"
LEVEL = "exploration"
TITLE = "Interpolation kernels are a partition of unity with the documented moments"
TECHNIQUE = (
    "runtime monitoring: reference-model oracle (closed-form delta over the whole grid) + invariant monitors "
    "(sign, sum, first moment, reproduction of constants/affine fields) on the real numba kernels"
)
RULE = (
    "per (dimension, precision, delta kernel, (x_range, nx, N) from a fixed pool with dyadic and non-dyadic dx, "
    "N = 1..512) batches of N float64 marker positions at least two cells inside a random non-square/non-cubic "
    "grid whose coordinates come from the real FlowSimulator domain set-up; position classes: uniform, exactly "
    "on cell centres (four ways of computing a centre, incl. the simulator's own position_field values), on "
    "faces, 1-2 ulp either side of centres and faces (ulp of float64 and of the working precision), clusters "
    "inside one cell, mixed.  Every third batch passes all array arguments as non-contiguous views (strided / padded / "
    "column-major, positions as .T of (N, d) storage); one history of 3-6 calls with temporary-view arguments per "
    "communicator; all-zero fields; one communicator per shard built with python-float / 0-d-array scalars.  A case is "
    "non-trivial when N >= 1 markers were evaluated; distinct = (dim, dtype, kernel, dyadic?, N class, position class, sub-check)."
)
ASSUMPTIONS = [
    "rv.ref.ib: cosine and Peskin-2002 eq. 6.27 4-point functions written from the paper; checked against the "
    "published moment conditions (sum 1, first moment 0, sum of squares 3/8)",
    "Eulerian grid = cell centres i*dx + dx/2 with dx = FlowSimulator.dx (x_range/nx rounded to the working "
    "precision); window of a marker = index-1 .. index+2 per direction (interp_kernel_width 2)",
    "noise floors: e = eps_t + eps64*(|X|/dx + 2) models the cancellation in (index+j)*dx + shift - X; measured "
    "headroom >= 10x over seeds 0..5 in both tiers",
    "markers are passed as float64 arrays, as every forcing grid in sopht.simulator does",
]
REQUIRE = {
    "markers_floor_shifted": {"quick": 20, "thorough": 200},
    "markers_checked": {"quick": 10000, "thorough": 300000},
    "dense_cells_compared": 100000,
    "interp_constant_values": 1000,
    "interp_coordinate_values": 1000,
    "markers_on_centre_or_face_within_2ulp": 1000,
    "on_centre_coordinates_indexed_to_lower_cell_float32": 100,
    "on_centre_coordinates_indexed_to_lower_cell_float64": 100,
    "batches_grid_y_exceeds_x": 100,
    "batches_grid_z_exceeds_x": 20,
    "batches_sibling_comm_shared_dx_or_N": 100,
    "batches_first_comm_after_sibling": 100,
    "batches_N_equals_dim": 20,
    "batches_more_than_1024_markers_2d": 20,
    "batches_more_than_1024_markers_3d": 20,
    "batches_layout_views": 200,
    "batches_layout_fortran": 200,
    "kernel_calls_with_noncontiguous_array_arguments": 2000,
    "histories_of_temporary_view_arguments": 50,
    "history_slots_compared": 150,
    "interp_zero_field_values": 1000,
    "batches_comm_built_with_other_scalar_types": 100,
    "batches_grid_origin_zero": 100,
    "batches_grid_origin_quarter_cell": 100,
    "batches_grid_origin_shifted_domain": 200,
}

EPS64 = float(np.finfo(np.float64).eps)
LD = np.longdouble
WIDTH = 2
# noise-floor constants (see the docstring); K_INTERP is multiplied by the 4^d terms of the real dot product
K_SIGN, K_W, K_SUM, K_SUM_KAPPA, K_M1, K_INTERP = 16, 16, 64, 4, 24, 4

# (x_range, nx, N): fixed, seed-independent (numba caches one closure set per (dx, N)); dx = real_t(x_range/nx)
POOL = {
    2: {
        "A": [(1.0, 37, 1), (2 * np.pi, 48, 7), (1.0, 32, 64), (1.3, 50, 512), (0.37, 30, 2)],
        "B": [(10.0, 24, 3), (1.0, 64, 33), (1.0, 30, 200), (8.0, 32, 5), (1.3, 41, 128)],
        "C": [(1.0, 57, 16), (2.0, 64, 300), (0.37, 23, 1), (2 * np.pi, 36, 97), (1.0, 100, 50), (10.0, 33, 4)],
        "D": [(1.3, 26, 2), (1.0, 128, 24), (0.37, 45, 256), (10.0, 60, 11), (4.0, 16, 77), (1.0, 21, 400)],
    },
    3: {
        "A": [(1.0, 37, 1), (1.0, 32, 40), (1.3, 26, 512)],
        "B": [(2 * np.pi, 24, 2), (0.37, 30, 150), (4.0, 16, 9)],
        "C": [(10.0, 21, 5), (1.0, 28, 256), (2.0, 32, 64), (1.3, 19, 1)],
        "D": [(0.37, 17, 3), (1.0, 40, 100), (2 * np.pi, 30, 400), (0.5, 16, 20)],
    },
}
# sibling communicators, built in the same process AFTER the pool entries of the variant: (dx of the first entry, N of a
# later entry) -- a module-level cache keyed without dx or without N hands the sibling a closure of an earlier object;
# 3-D "B" has N == dim.  Constructed with positional arguments and the documented defaults.  Shared with C07.
SIBLINGS = {
    2: {"A": (1.0, 37, 7), "B": (10.0, 24, 33), "C": (1.0, 57, 300), "D": (1.3, 26, 24)},
    3: {"A": (1.0, 37, 40), "B": (2 * np.pi, 24, 3), "C": (10.0, 21, 256), "D": (0.37, 17, 100)},
}
# one communicator per dimension with MORE THAN 1024 markers (variant "B" shards, all kernels / precisions): a support kernel
# that switches to another code path for large marker counts is only exercised there.  Small x extent so that C07's dense
# matrices stay small.  Shared with C07.
BIG_N = {2: (1.0, 32, 1536), 3: (1.0, 16, 1536)}
# scalar-type variants of the two scalar constructor arguments (dx, eul_grid_coord_shift), one extra communicator per shard on the
# (x_range, nx, N) of C06's first pool entry of the variant (C07 uses the same entries: shared numba cache): the same two VALUES passed
# as python floats / 0-d arrays of the working precision / np.float64 scalars / 0-d float64 arrays.  Shared with C07.
SCALAR_TYPES = {"A": "python-float", "B": "0d-array-working-precision", "C": "np.float64", "D": "0d-array-float64"}


def scalar_as(kind, v):
    """the working-precision value v as another scalar type (same numerical value)"""
    if kind == "python-float":
        return float(v)
    if kind == "0d-array-working-precision":
        return np.array(v)
    if kind == "np.float64":
        return np.float64(float(v))
    if kind == "0d-array-float64":
        return np.array(float(v))
    raise ValueError(kind)


# grid origins: four more communicators per shard whose eul_grid_coord_shift is NOT dx/2 (cell centre i sits at i*dx + shift along every
# axis): exactly 0.0 (vertex-centred samples; as python float and as working-precision scalar), dx/4, and x0 + dx/2 for a domain that
# starts at x0 = -2 dx / +3.5 dx.  Each reuses the (x_range, nx, N) of a pool entry of the variant: only the support kernel captures the
# shift, so one closure per (dx, shift) pair compiles.  Shared with C07.
ORIGINS = {
    "A": ("zero-python-float", "quarter-cell", "domain-starts-at-minus-2dx", "domain-starts-at-plus-3.5dx"),
    "B": ("zero-working-precision", "quarter-cell", "domain-starts-at-plus-3.5dx", "domain-starts-at-minus-2dx"),
    "C": ("quarter-cell", "zero-working-precision", "domain-starts-at-minus-2dx", "domain-starts-at-plus-3.5dx"),
    "D": ("domain-starts-at-plus-3.5dx", "domain-starts-at-minus-2dx", "zero-python-float", "quarter-cell"),
}
ORIGIN_COUNTER = {"zero-python-float": "batches_grid_origin_zero", "zero-working-precision": "batches_grid_origin_zero", "quarter-cell": "batches_grid_origin_quarter_cell",
                  "domain-starts-at-minus-2dx": "batches_grid_origin_shifted_domain", "domain-starts-at-plus-3.5dx": "batches_grid_origin_shifted_domain"}


def origin_shift(kind, dx_t, real_t):
    """the eul_grid_coord_shift argument of a grid-origin variant"""
    dxf = float(dx_t)
    if kind == "zero-python-float":
        return 0.0
    if kind == "zero-working-precision":
        return real_t(0.0)
    if kind == "quarter-cell":
        return real_t(dxf / 4)
    if kind == "domain-starts-at-minus-2dx":
        return real_t(-2.0 * dxf + dxf / 2)
    if kind == "domain-starts-at-plus-3.5dx":
        return real_t(3.5 * dxf + dxf / 2)
    raise ValueError(kind)


def origin_entries(pool, variant):
    return [(pool[(j + 1) % len(pool)], "origin:" + kind) for j, kind in enumerate(ORIGINS[variant])]


def coordinate_field(shape, dxf, shiftf, real_t):
    """cell-centre coordinates i*dx + shift of a grid whose first sample sits at ``shift`` (the documented meaning of eul_grid_coord_shift),
    laid out like FlowSimulator.position_field: (d, *shape), component a = coordinate a, which runs along array axis d-1-a"""
    d = len(shape)
    out = np.empty((d,) + tuple(shape), dtype=real_t)
    for a in range(d):
        ax = d - 1 - a
        bshape = [1] * d
        bshape[ax] = -1
        out[a] = (np.arange(shape[ax], dtype=np.float64) * dxf + shiftf).reshape(bshape)
    return out


def batch_layout(b):
    """array layout of batch b: every third batch non-contiguous, alternating the two layouts"""
    return None if b % 3 != 2 else ("views", "fortran")[(b // 3) % 2]


# the monitors' dense NumPy algebra must not spawn a BLAS/OpenMP team per worker (16 workers share the cores)
ONE_THREAD = {"OMP_NUM_THREADS": "1", "OPENBLAS_NUM_THREADS": "1", "MKL_NUM_THREADS": "1"}
POSITION_CLASSES = ("uniform", "centre", "centre_ulp", "face", "face_ulp", "cluster", "mixed")


def shards(tier, seed):
    variants = ("A", "B") if tier == "quick" else ("A", "B", "C", "D")
    out = []
    for v in variants:
        for d in (3, 2):  # 3-D first: longest compiles
            for dt in ("float32", "float64"):
                for k in ib.KERNELS:
                    out.append({"name": f"{d}d-{dt}-{k}-{v}", "dim": d, "dtype": dt, "kernel": k, "variant": v, "env": ONE_THREAD})
    return out


# ------------------------------------------------------------------------------------------------
# workload helpers (shared with C07)
# ------------------------------------------------------------------------------------------------
def is_dyadic(x):
    m, _ = np.frexp(float(x))
    return m == 0.5


def n_class(N):
    return "1" if N == 1 else ("small" if N < 16 else ("mid" if N < 128 else ("large" if N <= 1024 else ">1024")))


def make_domain(d, shape, x_range, real_t):
    """the REAL FlowSimulator domain set-up (dx, position_field) without compiling any flow kernel"""
    from sopht.simulator.flow.flow_simulators import FlowSimulator

    class _DomainOnly(FlowSimulator):
        def _init_fields(self):
            pass

        def _compile_kernels(self):
            pass

        def _finalise_flow_time_step(self):
            pass

        def _flow_time_step(self, dt, **kw):
            pass

        def compute_stable_timestep(self):
            return 0.0

    return _DomainOnly(grid_dim=d, grid_size=tuple(shape), x_range=x_range, real_t=real_t)


def random_shape(rng, d, nx, tier, tall=0):
    """non-square / non-cubic grid with the given x size (x is the last axis); ``tall`` = 1: the y extent exceeds the x
    extent (2-D: grid_size_y > grid_size_x), ``tall`` = 2 (3-D): the z extent exceeds the x extent"""
    hi = (40 if d == 2 else 16) if tier == "quick" else (64 if d == 2 else 22)
    while True:
        other = [int(rng.integers(6, hi + 1)) for _ in range(d - 1)]
        if tall:
            other[(d - 2) if tall == 1 else 0] = nx + int(rng.integers(1, 9 if d == 2 else 5))
        shape = tuple(other + [nx])
        if len(set(shape)) > 1:
            return shape


def tall_class(b, d):
    """which batches run on tall grids: every 4th, in 3-D alternating y > x and z > x"""
    if b % 4 != 1:
        return 0
    return 1 if d == 2 or b % 8 == 1 else 2


def axis_coordinates(position_field, a):
    """1-D cell-centre coordinates of coordinate a (0 = x) read off the simulator's position_field"""
    d = position_field.shape[0]
    sl = [0] * d
    sl[d - 1 - a] = slice(None)
    return np.asarray(position_field[a][tuple(sl)])


def _nudge(v, steps, t):
    """move float64 value(s) v by `steps` ulps of type t (after rounding to t)"""
    v = np.asarray(v, np.float64).astype(t)
    target = t(np.inf) if steps > 0 else t(-np.inf)
    for _ in range(abs(int(steps))):
        v = np.nextafter(v, target)
    return v.astype(np.float64)


def gen_axis(rng, cls, N, n, dx_t, real_t, spacing_exact, sim_coords):
    """N float64 coordinates along one axis with n cells, all in [2dx, (n-2)dx] up to 2 ulp.

    dx_t: working-precision spacing (the value the kernels get); spacing_exact: x_range/nx in float64;
    sim_coords: the simulator's own cell-centre coordinates (working precision)."""
    dxf = float(dx_t)
    if cls == "mixed":
        out = np.empty(N)
        sub = rng.integers(0, 5, size=N)
        for s in range(5):
            sel = np.nonzero(sub == s)[0]
            if sel.size:
                out[sel] = gen_axis(rng, POSITION_CLASSES[s], sel.size, n, dx_t, real_t, spacing_exact, sim_coords)
        return out
    if cls == "uniform":
        return rng.uniform(2 * dxf, (n - 2) * dxf, size=N)
    if cls == "cluster":
        k = int(rng.integers(2, n - 2))
        scale = float(rng.choice([1.0, 1e-3, 1e-9, 0.0]))
        c = k + 0.5 + float(rng.uniform(-0.5, 0.5)) * (scale < 1.0)
        return np.clip((c + rng.uniform(-0.5, 0.5, size=N) * scale) * dxf, 2 * dxf, (n - 2) * dxf)
    if cls in ("centre", "centre_ulp"):
        k = rng.integers(2, n - 2, size=N)  # centres 2.5dx .. (n-2.5)dx
        fl = rng.integers(0, 4, size=N)
        v = np.empty(N)
        v[fl == 0] = (k[fl == 0] + 0.5) * dxf
        sel = fl == 1
        v[sel] = (k[sel].astype(real_t) * real_t(dx_t) + real_t(dx_t / 2)).astype(np.float64)
        sel = fl == 2
        v[sel] = np.asarray(sim_coords, np.float64)[k[sel]]
        sel = fl == 3
        v[sel] = (k[sel] + 0.5) * spacing_exact
    else:
        k = rng.integers(2, n - 1, size=N)  # faces 2dx .. (n-2)dx
        fl = rng.integers(0, 3, size=N)
        v = np.empty(N)
        v[fl == 0] = k[fl == 0] * dxf
        sel = fl == 1
        v[sel] = (k[sel].astype(real_t) * real_t(dx_t)).astype(np.float64)
        sel = fl == 2
        v[sel] = k[sel] * spacing_exact
    if cls.endswith("_ulp"):
        steps = rng.choice([-2, -1, 1, 2], size=N)
        in_t = rng.integers(0, 2, size=N).astype(bool)
        for s in (-2, -1, 1, 2):
            for flag, t in ((True, real_t), (False, np.float64)):
                sel = (steps == s) & (in_t == flag)
                if sel.any():
                    v[sel] = _nudge(v[sel], s, t)
    # exact end faces nudged outwards by <= 2 ulp stay admissible "up to rounding"; anything further is a bug here
    lo, hi = 2 * dxf, (n - 2) * dxf
    assert np.all(v > lo * (1 - 1e-6)) and np.all(v < hi * (1 + 1e-6)), "generator left the admissible interior"
    return v


def gen_positions(rng, cls, N, shape, dx_t, real_t, x_range, position_field):
    d = len(shape)
    nx = shape[-1]
    P = np.empty((d, N), np.float64)
    for a in range(d):
        P[a] = gen_axis(rng, cls, N, shape[d - 1 - a], dx_t, real_t, x_range / nx, axis_coordinates(position_field, a))
    return P


LAYOUTS = (None, "views", "fortran")


def view_1d(rng, a):
    """1-D array with the same values as every second element of a sentinel-filled parent (non-unit stride)"""
    a = np.asarray(a)
    if a.dtype.kind == "f":
        parent = util.sentinel_like(rng, (2 * a.shape[0] + 1,), a.dtype).copy()
    else:
        parent = np.full((2 * a.shape[0] + 1,), -(2**40), dtype=a.dtype)
    v = parent[1::2]
    v[...] = a
    return v


def layout_view(rng, a, layout):
    """the values of ``a`` in the given array layout: None = ``a`` itself; "views" = interior of a sentinel-padded parent or every second
    element of a parent along every axis (numba types both as layout 'A': one signature); "fortran" = column-major storage of an array
    with >= 2 axes (a (d, N) Lagrangian field is then an (N, d) array passed as ``.T``; 1-D arrays have no second layout)"""
    if layout is None:
        return a
    a = np.asarray(a)
    if layout == "fortran":
        return np.asfortranarray(a) if a.ndim >= 2 else a
    if a.ndim == 1:
        return view_1d(rng, a)
    return util.noncontiguous_copy(rng, a, mode=("pad", "step")[int(rng.integers(2))])


class Comm:
    """the real communicator kernels + buffers laid out like VirtualBoundaryForcing's.

    ``set_layout(rng, layout)`` switches every caller-supplied array of the following calls to a non-contiguous layout holding the
    same values (see ``layout_view``): support/weight buffers, Eulerian fields, Lagrangian fields and outputs.  Marker positions and the
    index buffer are only ever passed C- or F-contiguous ((N, d) storage passed as ``.T``): the support kernel reshapes both and numba
    refuses to type ``reshape`` on a strided array (see the C06 module docstring).  The per-layout buffers are allocated once per object
    and refilled in place (persistent view objects); results are handed to the monitors through ``np.ascontiguousarray``."""

    def __init__(self, d, dx_t, N, real_t, kernel, positional=False, dx_arg=None, shift_arg=None):
        import sopht.numeric.immersed_boundary_ops as spi

        cls = spi.EulerianLagrangianGridCommunicator2D if d == 2 else spi.EulerianLagrangianGridCommunicator3D
        self.d, self.N, self.real_t, self.dx_t = d, N, real_t, dx_t
        self.shift_t = real_t(dx_t / 2)
        # dx_arg / shift_arg: the same two values as another scalar type (python float, np.float64, 0-d array); default: working-precision
        # NumPy scalars, what VirtualBoundaryForcing hands over when the simulators build it
        dx_a = dx_t if dx_arg is None else dx_arg
        sh_a = self.shift_t if shift_arg is None else shift_arg
        self.shiftf = float(sh_a)  # the shift this communicator was actually built with (all monitors use it)
        if positional:
            # documented signature (dx, eul_grid_coord_shift, num_lag_nodes, interp_kernel_width, real_t, n_components=1,
            # interp_kernel_type="cosine"): positional arguments, defaults left out where they apply
            pos = (dx_a, sh_a, N, WIDTH, real_t)
            self.scalar = cls(*pos) if kernel == "cosine" else cls(*pos, 1, kernel)
            self.vector = cls(*pos, d) if kernel == "cosine" else cls(*pos, d, kernel)
        else:
            kw = dict(dx=dx_a, eul_grid_coord_shift=sh_a, num_lag_nodes=N, interp_kernel_width=WIDTH, real_t=real_t, interp_kernel_type=kernel)
            self.scalar = cls(n_components=1, **kw)
            self.vector = cls(n_components=d, **kw)
        self.idx = np.empty((d, N), dtype=int)
        self.sup = np.empty((d,) + (2 * WIDTH,) * d + (N,), dtype=real_t)
        self.w = np.empty((2 * WIDTH,) * d + (N,), dtype=real_t)
        self.layout, self._rng = None, None
        self._bufs = {None: (self.idx, self.sup, self.w)}
        self.calls = {}  # layout -> number of kernel calls made with it (flushed into the recorder by the check modules)

    def set_layout(self, rng, layout):
        if layout not in self._bufs:
            idx = np.empty((self.d, self.N), dtype=int)
            if layout == "fortran":
                idx = np.asfortranarray(idx)
            self._bufs[layout] = (idx, layout_view(rng, self._bufs[None][1], layout), layout_view(rng, self._bufs[None][2], layout))
        self.layout, self._rng = layout, rng
        self.idx, self.sup, self.w = self._bufs[layout]

    def adopt(self, idx, sup, w):
        """make caller-owned buffers (e.g. slots of a history stack) the current ones; undone by ``set_layout``"""
        self.layout = None
        self.idx, self.sup, self.w = idx, sup, w

    def lay(self, rng, a):
        return layout_view(rng, a, self.layout)

    def _called(self, n=1):
        self.calls[self.layout] = self.calls.get(self.layout, 0) + n

    def flush_calls(self, rec):
        for lay, n in self.calls.items():
            if lay is not None:
                rec.count("kernel_calls_with_noncontiguous_array_arguments", n)
                rec.count(f"kernel_calls_layout_{lay}", n)
        self.calls = {}

    def weights(self, rng, P):
        """support + weights kernels on sentinel-filled buffers; returns (idx, w)"""
        self.idx[...] = -(2**40)
        self.sup[...] = util.sentinel_like(rng, self.sup.shape, self.real_t)
        self.w[...] = util.sentinel_like(rng, self.w.shape, self.real_t)
        if self.layout is not None:
            P = np.ascontiguousarray(np.asarray(P).T).T  # positions stored (N, d), passed as .T
        self.scalar.local_eulerian_grid_support_of_lagrangian_grid_kernel(
            local_eul_grid_support_of_lag_grid=self.sup, nearest_eul_grid_index_to_lag_grid=self.idx, lag_positions=P
        )
        self.scalar.interpolation_weights_kernel(interp_weights=self.w, local_eul_grid_support_of_lag_grid=self.sup)
        self._called(2)
        if self.layout is None:
            return self.idx, self.w
        return np.ascontiguousarray(self.idx), np.ascontiguousarray(self.w)

    def windows_inside(self, shape):
        ok = np.ones(self.N, bool)
        for a in range(self.d):
            n = shape[self.d - 1 - a]
            ok &= (self.idx[a] - WIDTH + 1 >= 0) & (self.idx[a] + WIDTH <= n - 1)
        return ok

    def interp(self, rng, u, vector=False):
        lag = self.lay(rng, util.sentinel_like(rng, (self.d, self.N) if vector else (self.N,), self.real_t))
        k = self.vector if vector else self.scalar
        k.eulerian_to_lagrangian_grid_interpolation_kernel(
            lag_grid_field=lag, eul_grid_field=self.lay(rng, u), interp_weights=self.w, nearest_eul_grid_index_to_lag_grid=self.idx
        )
        self._called()
        return lag if self.layout is None else np.ascontiguousarray(lag)

    def spread(self, target, F, vector=False):
        """``target`` is written in place: the caller lays it out (``comm.lay``) and reads it back"""
        k = self.vector if vector else self.scalar
        k.lagrangian_to_eulerian_grid_interpolation_kernel(
            eul_grid_field=target, lag_grid_field=self.lay(self._rng, F), interp_weights=self.w, nearest_eul_grid_index_to_lag_grid=self.idx
        )
        self._called()


def probe_excluded_layout(rec, rng, comm):
    """The one layout that is NOT driven: strided (neither C- nor F-contiguous) marker positions / index buffers.  The support kernel
    reshapes both and numba refuses to type ``reshape`` on a non-contiguous array ("reshape() supports contiguous array only"): a loud
    rejection before any value exists, not a wrong value, hence no violation.  Observed once per process so that the evidence shows the
    exclusion is deliberate (and shows it if a later SophT accepts such arrays)."""
    P = rng.uniform(3.2, 4.8, size=(comm.d, 2 * comm.N)) * float(comm.dx_t)
    sup = np.empty_like(comm._bufs[None][1])
    idx = np.empty((comm.d, comm.N), dtype=int)
    try:
        comm.scalar.local_eulerian_grid_support_of_lagrangian_grid_kernel(
            local_eul_grid_support_of_lag_grid=sup, nearest_eul_grid_index_to_lag_grid=idx, lag_positions=P[:, ::2]
        )
        rec.count("excluded_layout_strided_positions:accepted_by_this_tree")
    except Exception as e:
        if "contiguous" in str(e):
            rec.count("excluded_layout_strided_positions:rejected_at_numba_typing")
        else:
            rec.count("excluded_layout_strided_positions:raises_otherwise")
            rec.note(f"strided marker positions: {type(e).__name__}: {str(e)[:200]}")


def kappa(P, dxf):
    """per-marker amplification |X|/dx + 2 of the float64 cancellation in the support distances"""
    return np.max(np.abs(P), axis=0) / dxf + 2.0


# ------------------------------------------------------------------------------------------------
def run_shard(sh, rec):
    tier, seed = sh["tier"], sh["seed"]
    d, kernel = sh["dim"], sh["kernel"]
    real_t = util.DT[sh["dtype"]]
    eps = util.eps(real_t)
    rng = util.rng_for(seed, ID, sh["name"])
    target = 6000 if tier == "quick" else 50000  # markers per (dx, N) combination
    # pool entries, then the sibling communicator, then the FIRST communicator of this process once more
    entries = [(e, "pool") for e in POOL[d][sh["variant"]]]
    if sh["variant"] == "B":
        entries.append((BIG_N[d], "bigN"))
    entries += [(SIBLINGS[d][sh["variant"]], "sibling"), (POOL[d][sh["variant"]][0], "first-again"), (POOL[d][sh["variant"]][0], "scalar-types")]
    entries += origin_entries(POOL[d][sh["variant"]], sh["variant"])
    first = None
    npred = 0
    for (x_range, nx, N), role in entries:
        dom0 = make_domain(d, (8,) * (d - 1) + (nx,), x_range, real_t)
        dx_t = dom0.dx
        dxf = float(dx_t)
        shiftf = float(real_t(dx_t / 2))
        dy = is_dyadic(dxf)
        if role == "first-again":
            if first is None:
                continue
            comm = first
        else:
            if role == "pool" and is_dyadic(float(dx_t)) and npred < 2:
                # predecessor of the OTHER precision with a numerically equal (dyadic) spacing, same marker count and kernel type,
                # created and used in this process first: np.float32(v) == np.float64(v) and hash equal for dyadic v, so a
                # generator cache keyed by (dx, width) without the precision hands the later object a kernel of the wrong precision
                other_t = np.float32 if real_t is np.float64 else np.float64
                try:
                    pred = Comm(d, other_t(float(dx_t)), N, other_t, kernel)
                    Pp = rng.uniform(3.2, 4.8, size=(d, N)) * float(dx_t)
                    pred.weights(rng, Pp)
                    npred += 1
                    rec.count("other_precision_predecessors_same_dyadic_dx")
                except Exception as e:
                    rec.note(f"other-precision predecessor failed: {type(e).__name__}: {e}")
            skind = SCALAR_TYPES[sh["variant"]] if role == "scalar-types" else None
            try:
                if role.startswith("origin:"):
                    comm = Comm(d, dx_t, N, real_t, kernel, shift_arg=origin_shift(role[7:], dx_t, real_t))
                elif skind is None:
                    comm = Comm(d, dx_t, N, real_t, kernel, positional=(role == "sibling"))
                else:
                    # same spacing and shift VALUES as the first communicator of the process, passed as another scalar type
                    comm = Comm(d, dx_t, N, real_t, kernel, dx_arg=scalar_as(skind, dx_t), shift_arg=scalar_as(skind, real_t(dx_t / 2)))
            except Exception as e:
                rec.violation("communicator-construction-raises", f"{type(e).__name__}: {e} dx={dxf} N={N} scalar type {skind}", None)
                rec.case(None)
                continue
            if first is None and role == "pool":
                first = comm
                probe_excluded_layout(rec, rng, comm)
        shiftf = comm.shiftf
        off_origin = shiftf - float(real_t(dx_t / 2))  # markers are generated for the standard grid and moved with the grid origin
        nb = int(np.clip(target // N, 7 if tier == "quick" else 21, 120 if tier == "quick" else 600))
        if role == "bigN":
            nb = 7 if tier == "quick" else 21
        elif role != "pool":
            nb = max(7, nb // 3)
        off = int(rng.integers(len(POSITION_CLASSES)))
        hist_at = int(rng.integers(nb))  # one history of temporary views per object, somewhere between its batches
        for b in range(nb):
            cls = POSITION_CLASSES[(b + off) % len(POSITION_CLASSES)]
            tall = tall_class(b, d)
            shape = random_shape(rng, d, nx, tier, tall)
            if shape[-2] > shape[-1]:
                rec.count("batches_grid_y_exceeds_x")
            if d == 3 and shape[0] > shape[-1]:
                rec.count("batches_grid_z_exceeds_x")
            rec.count({"pool": "batches_pool_comm", "bigN": "batches_pool_comm", "sibling": "batches_sibling_comm_shared_dx_or_N", "first-again": "batches_first_comm_after_sibling",
                       "scalar-types": "batches_comm_built_with_other_scalar_types", "origin": "batches_grid_origin_not_half_a_cell"}[role.split(":")[0]])
            if role.startswith("origin:"):
                rec.count(ORIGIN_COUNTER[role[7:]])
                rec.count(f"batches_grid_origin_{role[7:]}")
            if role == "scalar-types":
                rec.count(f"batches_dx_and_shift_passed_as_{SCALAR_TYPES[sh['variant']]}")
            if N > 1024:
                rec.count(f"batches_more_than_1024_markers_{d}d")
            if N == d:
                rec.count("batches_N_equals_dim")
            dom = make_domain(d, shape, x_range, real_t)
            pf = dom.position_field
            P = gen_positions(rng, cls, N, shape, dx_t, real_t, x_range, pf)
            base = (d, sh["dtype"], kernel, "dyadic" if dy else "nondyadic", n_class(N), cls)
            meta = {"dim": d, "dtype": sh["dtype"], "kernel": kernel, "x_range": x_range, "shape": shape, "dx": dxf, "N": N, "positions": cls, "object": role}
            if role.startswith("origin:"):
                # same position classes relative to the cells of THIS grid (centres i*dx + shift); the coordinate field the Peskin checks
                # interpolate is the one of this grid, not the simulator's (whose first centre is at dx/2)
                P = P + off_origin
                pf = coordinate_field(shape, dxf, shiftf, real_t)
                meta["eul_grid_coord_shift"] = shiftf
            if role == "scalar-types":
                meta["dx_and_shift_passed_as"] = SCALAR_TYPES[sh["variant"]]
            layout = batch_layout(b)
            comm.set_layout(rng, layout)
            if layout is not None:
                meta["layout"] = layout
                rec.count("batches_noncontiguous_array_arguments")
                rec.count(f"batches_layout_{layout}")
            _check_batch(rec, rng, comm, P, shape, pf, dxf, shiftf, eps, base, meta, kernel, real_t)
            comm.flush_calls(rec)
            if b == hist_at:
                _history(rec, rng, comm, shape, dom.position_field, pf, off_origin, dx_t, x_range, dxf, shiftf, eps, base[:5], {k: v for k, v in meta.items() if k != "layout"}, kernel, real_t)
        comm.set_layout(rng, None)


def _check_batch(rec, rng, comm, P, shape, pf, dxf, shiftf, eps, base, meta, kernel, real_t, pre=None):
    """``pre``: one slot of a history of temporary views (``_history``): index, support and weights were already produced by the real
    kernels in the history's tight loop and are adopted instead of being recomputed; the slot's interpolated constants are compared too"""
    d, N = comm.d, comm.N
    vol = LD(dxf) ** d
    P0 = np.array(P, copy=True)
    if pre is not None:
        comm.adopt(pre["idx"], pre["sup"], pre["w"])
        idx, w = comm.idx, comm.w
    else:
        try:
            idx, w = comm.weights(rng, P)
        except Exception as e:
            rec.violation("weights-raise", f"{type(e).__name__}: {e} {meta}", {"meta": meta, "P": P0})
            rec.case(None)
            return
    rec.case((*base, "weights"), sample={**meta, "first_marker": P0[:, 0]})
    rec.count("markers_checked", N)
    wit = {"meta": meta, "P": P0, "idx": idx.copy(), "w": w.copy()}
    if w.dtype != np.dtype(real_t) or not np.all(np.isfinite(w)):
        rec.violation("weights-not-finite", f"weights contain NaN/inf or changed dtype {w.dtype} {meta}", wit)
        return
    kap = kappa(P0, dxf)
    e_m = eps + EPS64 * kap

    # -- which markers sit on a centre/face up to 2 ulp, which took the shifted-floor branch
    q = (P0 - shiftf) / dxf
    true_floor = np.floor(q).astype(np.int64)
    shifted = idx != true_floor
    rec.count("markers_floor_shifted", int(shifted.any(axis=0).sum()))
    rec.count("coordinates_floor_shifted", int(shifted.sum()))
    if shifted.any():
        rec.count(f"floor_shifted_{meta['dtype']}_{'dyadic' if base[3] == 'dyadic' else 'nondyadic'}", int(shifted.sum()))
        step = idx - true_floor
        if np.any((step != 0) & (step != -1)):
            rec.count("floor_off_by_other_than_minus_one", int(((step != 0) & (step != -1)).sum()))
    near = np.abs(2 * q - np.rint(2 * q)) < 64 * (eps + EPS64 * kap[None, :])
    rec.count("markers_on_centre_or_face_within_2ulp", int(near.any(axis=0).sum()))
    # the source comment's notion: a marker meant to sit on centre k (within a few ulp) that is indexed k-1
    on_centre = np.abs(q - np.rint(q)) < 8 * (eps + EPS64 * kap[None, :])
    lower = on_centre & (idx == np.rint(q).astype(np.int64) - 1)
    rec.count(f"on_centre_coordinates_indexed_to_lower_cell_{meta['dtype']}", int(lower.sum()))
    rec.count(f"on_centre_coordinates_{meta['dtype']}", int(on_centre.sum()))

    inside = comm.windows_inside(shape)
    if not inside.all():
        m = int(np.nonzero(~inside)[0][0])
        rec.violation("support-window-outside-grid", f"marker {P0[:, m]} ({(P0[:, m]) / dxf} cells) got index {idx[:, m]} on grid {shape} {meta}", wit)
        return

    # -- sign
    flat = w.reshape(-1, N).astype(np.float64)
    wmax = flat.max(axis=0)
    r = float(np.max(-flat.min(axis=0) / (K_SIGN * eps * wmax + 1e-300)))
    rec.stat("negative_weight_over_slack", r)
    if r > 1:
        m = int(np.argmax(-flat.min(axis=0) / (K_SIGN * eps * wmax + 1e-300)))
        rec.violation("negative-weight", f"marker {P0[:, m]} weight {flat[:, m].min()} max {wmax[m]} {meta}", wit)

    # -- dense comparison with the closed-form delta over the whole grid
    wscale = d * 0.5**d / dxf**d
    tol_w = K_W * e_m * wscale
    chunk = max(1, int(4e6 // int(np.prod(shape))))
    worst = 0.0
    for s in range(0, N, chunk):
        sl = slice(s, min(N, s + chunk))
        D, _ = ib.window_scatter(w[..., sl], idx[:, sl], shape, WIDTH)
        W = ib.dense_weights(P0[:, sl], shape, dxf, kernel, shiftf)
        t = tol_w[sl].reshape((-1,) + (1,) * d)
        err = np.abs(D - W) / t
        rec.count("dense_cells_compared", err.size)
        rr = float(err.max())
        worst = max(worst, rr)
        if rr > 1:
            loc = np.unravel_index(int(np.argmax(err)), err.shape)
            m = s + loc[0]
            out = (W == 0) & (np.abs(D) > t)
            if out.any():
                loc = tuple(int(v[0]) for v in np.nonzero(out))
                m = s + loc[0]
                rec.violation(
                    "weight-outside-four-nearest-cells",
                    f"marker {P0[:, m]} (= {(P0[:, m] - shiftf) / dxf} cells) index {idx[:, m]} carries weight {D[loc]} in cell {loc[1:]} "
                    f"(array order) where the delta vanishes {meta}",
                    wit,
                )
            else:
                rec.violation(
                    "weights!=closed-form-delta",
                    f"marker {P0[:, m]} cell {tuple(int(x) for x in loc[1:])} (array order): kernel {D[loc]} closed form {W[loc]} err/tol {rr:.3g} {meta}",
                    wit,
                )
    rec.stat("weights_vs_closed_form", worst)
    rec.stat(f"weights_{meta['dtype']}_{kernel}_{d}d", worst)

    # -- sum and first moment (long double, monitor's own coordinates)
    wl = w.astype(LD)
    ssum = wl.reshape(-1, N).sum(axis=0) * vol
    tol_s = K_SUM * eps + K_SUM_KAPPA * EPS64 * kap
    r_s = np.abs((ssum - 1).astype(np.float64)) / tol_s
    rec.stat("sum_weights", float(r_s.max()))
    rec.stat(f"sum_{meta['dtype']}_{kernel}_{d}d", float(r_s.max()))
    # informative only: ratio to the 16*eps_t of DESIGN §4 C06 **T** (shows why the floor above is 64*eps_t)
    rec.stat("sum_minus_one_over_design_16eps", float(np.max(np.abs((ssum - 1).astype(np.float64))) / (16 * eps)))
    if r_s.max() > 1:
        m = int(np.argmax(r_s))
        rec.violation("sum-weights!=1", f"marker {P0[:, m]}: sum w dx^d - 1 = {float(ssum[m] - 1):.3e} (tol {tol_s[m]:.2e}) {meta}", wit)
    if kernel == "peskin":
        offs = np.arange(-WIDTH + 1, WIDTH + 1)
        worst_m = 0.0
        for a in range(d):
            ax = d - 1 - a  # array axis of coordinate a inside w
            other = tuple(i for i in range(d) if i != ax)
            marg = wl.sum(axis=other)  # (4, N)
            xc = (idx[a][None, :] + offs[:, None]).astype(LD) * LD(dxf) + LD(shiftf)  # (4, N)
            m1 = ((marg * (xc - P0[a].astype(LD)[None, :])).sum(axis=0) * vol).astype(np.float64)
            r_m = np.abs(m1) / (K_M1 * e_m * dxf)
            worst_m = max(worst_m, float(r_m.max()))
            if r_m.max() > 1:
                m = int(np.argmax(r_m))
                rec.violation("peskin-first-moment!=0", f"marker {P0[:, m]} coordinate {a}: first moment {m1[m] / dxf:.3e} dx (tol {K_M1 * e_m[m]:.2e}) {meta}", wit)
        rec.stat("peskin_first_moment", worst_m)
        rec.stat(f"m1_{meta['dtype']}_{d}d", worst_m)
        rec.count("first_moments_checked", N * d)

    # -- reproduction of constants through the real interpolation kernels
    ki = K_INTERP * 4**d

    def const_check(lag, cr):
        r_c = util.err_over_tol(lag, np.full(N, cr), ki * e_m * abs(cr))
        rec.stat("interp_constant", r_c)
        rec.count("interp_constant_values", N)
        rec.case((*base, "interp-const"))
        if r_c > 1:
            m = int(np.argmax(np.abs(lag.astype(np.float64) - cr) / e_m)) if np.all(np.isfinite(lag)) else 0
            rec.violation("interp-constant!=constant", f"constant {cr} interpolated to {lag[m]} at marker {P0[:, m]} err/tol {r_c:.3g} {meta}", {**wit, "c": cr})

    def const_vector_check(lag, ref):
        r_c = util.err_over_tol(lag, ref, ki * e_m[None, :] * np.abs(ref))
        rec.stat("interp_constant_vector", r_c)
        rec.count("interp_constant_values", N * d)
        rec.case((*base, "interp-const-vector"))
        if r_c > 1:
            rec.violation("interp-constant!=constant(vector)", f"constants {ref[:, 0]} interpolated to {lag[:, 0]} (marker 0) err/tol {r_c:.3g} {meta}", {**wit, "c": ref[:, 0]})

    for c in (1.0, float(rng.standard_normal() * 10.0 ** float(rng.integers(-3, 4)))):
        u = np.full(shape, c, dtype=real_t)
        try:
            lag = comm.interp(rng, u)
        except Exception as e:
            rec.violation("interpolation-raises", f"{type(e).__name__}: {e} {meta}", wit)
            break
        const_check(lag, float(u.flat[0]))
    cs = rng.standard_normal(d) * 10.0 ** rng.integers(-2, 3, size=d)
    u = np.empty((d,) + tuple(shape), dtype=real_t)
    for a in range(d):
        u[a] = cs[a]
    try:
        lag = comm.interp(rng, u, vector=True)
        ref = np.repeat(u.reshape(d, -1)[:, :1].astype(np.float64), N, axis=1)
        const_vector_check(lag, ref)
    except Exception as e:
        rec.violation("interpolation-raises", f"vector: {type(e).__name__}: {e} {meta}", wit)
    if pre is not None:
        # what the history's tight loop interpolated with this slot's temporary views (another constant per slot and component)
        const_check(pre["lag"], float(pre["u"].flat[0]))
        const_vector_check(pre["lagv"], np.repeat(pre["uv"].reshape(d, -1)[:, :1].astype(np.float64), N, axis=1))
        rec.count("history_slots_compared")

    # -- the constant ZERO (and a vector field with one exactly-zero component) into sentinel-filled outputs: every term of the sum is
    #    0 * w with finite w, so the value at the marker is exactly 0 (the relative floor above is 0 for c = 0: compared exactly)
    try:
        lag = comm.interp(rng, np.zeros(shape, dtype=real_t))
        zc = int(rng.integers(d))
        u = np.empty((d,) + tuple(shape), dtype=real_t)
        for a in range(d):
            u[a] = 0.0 if a == zc else cs[a]
        lagv = comm.interp(rng, u, vector=True)
        rec.count("interp_zero_field_values", 2 * N)
        rec.case((*base, "interp-zero"))
        if not (np.all(lag == 0) and np.all(lagv[zc] == 0)):
            bad = lag if not np.all(lag == 0) else lagv[zc]
            m = int(np.argmax(~(bad == 0)))
            rec.violation("interp-zero-field!=0", f"an all-zero field {'' if bad is lag else f'(component {zc} of a vector field) '}interpolated to {bad[m]!r} at marker {P0[:, m]} {meta}", wit)
        ref = np.repeat(u.reshape(d, -1)[:, :1].astype(np.float64), N, axis=1)
        keep = [a for a in range(d) if a != zc]
        r_c = util.err_over_tol(lagv[keep], ref[keep], ki * e_m[None, :] * np.abs(ref[keep]))
        rec.stat("interp_constant_vector", r_c)
        if r_c > 1:
            rec.violation("interp-constant!=constant(vector)", f"constants {ref[:, 0]} (component {zc} exactly zero) interpolated to {lagv[:, 0]} (marker 0) err/tol {r_c:.3g} {meta}", {**wit, "c": ref[:, 0]})
    except Exception as e:
        rec.violation("interpolation-raises", f"zero field: {type(e).__name__}: {e} {meta}", wit)

    # -- Peskin: the simulator's own coordinate field and a random affine field
    if kernel == "peskin":
        tol_x = ki * eps * (np.abs(P0) + 2 * dxf)
        try:
            worst_x = 0.0
            for a in range(d):
                lag = comm.interp(rng, np.ascontiguousarray(pf[a]))
                r_x = util.err_over_tol(lag, P0[a], tol_x[a])
                worst_x = max(worst_x, r_x)
                if r_x > 1:
                    m = int(np.argmax(np.abs(lag.astype(np.float64) - P0[a]) / tol_x[a])) if np.all(np.isfinite(lag)) else 0
                    rec.violation(
                        "interp-coordinate!=marker-position",
                        f"coordinate {a} of position_field interpolated to {lag[m]} at marker {P0[:, m]} (diff {(float(lag[m]) - P0[a, m]) / dxf:.3e} dx) err/tol {r_x:.3g} {meta}",
                        wit,
                    )
            lagv = comm.interp(rng, np.ascontiguousarray(pf), vector=True)
            r_x = util.err_over_tol(lagv, P0, tol_x)
            worst_x = max(worst_x, r_x)
            if r_x > 1:
                rec.violation("interp-coordinate!=marker-position(vector)", f"position_field interpolated to {lagv[:, 0]} at marker {P0[:, 0]} err/tol {r_x:.3g} {meta}", wit)
            rec.stat("interp_coordinate", worst_x)
            rec.stat(f"coord_{meta['dtype']}_{d}d", worst_x)
            rec.count("interp_coordinate_values", 2 * N * d)
            rec.case((*base, "interp-coordinates"))
            # affine field a0 + g.x built from the simulator's coordinates
            a0 = float(rng.standard_normal())
            g = rng.standard_normal(d) * 10.0 ** float(rng.integers(-1, 2))
            uf = a0 + sum(g[a] * pf[a].astype(np.float64) for a in range(d))
            u = np.ascontiguousarray(uf.astype(real_t))
            lag = comm.interp(rng, u)
            ref = a0 + sum(g[a] * P0[a] for a in range(d))
            tol_a = ki * eps * (abs(a0) + sum(abs(g[a]) * (np.abs(P0[a]) + 2 * dxf) for a in range(d)))
            r_a = util.err_over_tol(lag, ref, tol_a)
            rec.stat("interp_affine", r_a)
            rec.count("interp_affine_values", N)
            rec.case((*base, "interp-affine"))
            if r_a > 1:
                rec.violation("interp-affine!=affine-at-marker", f"a0={a0} g={g}: marker 0 {P0[:, 0]} got {lag[0]} expected {ref[0]} err/tol {r_a:.3g} {meta}", {**wit, "a0": a0, "g": g})
        except Exception as e:
            rec.violation("interpolation-raises", f"{type(e).__name__}: {e} {meta}", wit)


def _history(rec, rng, comm, shape, sim_pf, pf, off_origin, dx_t, x_range, dxf, shiftf, eps, base5, meta, kernel, real_t):
    """K calls of every kernel of ONE communicator in a tight loop in which every array argument is a TEMPORARY view ``stack[name][k]`` of
    different memory (the view objects die after each call and CPython hands their id() to the next ones, so anything remembered per
    id(argument) or per argument object is stale); afterwards every slot goes through the complete battery of ``_check_batch``."""
    d, N = comm.d, comm.N
    K = 3 if N >= 128 else int(rng.integers(3, 7))
    classes = [POSITION_CLASSES[int(i)] for i in rng.permutation(len(POSITION_CLASSES))[:K]]
    S = {
        "P": np.stack([gen_positions(rng, c, N, shape, dx_t, real_t, x_range, sim_pf) + off_origin for c in classes]),
        "idx": np.full((K, d, N), -(2**40), dtype=int),
        "sup": util.sentinel_like(rng, (K,) + comm._bufs[None][1].shape, real_t).copy(),
        "w": util.sentinel_like(rng, (K,) + comm._bufs[None][2].shape, real_t).copy(),
        "u": np.empty((K,) + tuple(shape), real_t),
        "uv": np.empty((K, d) + tuple(shape), real_t),
        "lag": util.sentinel_like(rng, (K, N), real_t).copy(),
        "lagv": util.sentinel_like(rng, (K, d, N), real_t).copy(),
    }
    for k in range(K):
        S["u"][k] = float(rng.standard_normal() * 10.0 ** float(rng.integers(-3, 4)))
        for a in range(d):
            S["uv"][k, a] = float(rng.standard_normal() * 10.0 ** float(rng.integers(-2, 3)))
    sc, vc = comm.scalar, comm.vector
    P0 = S["P"].copy()
    try:
        for k in range(K):
            sc.local_eulerian_grid_support_of_lagrangian_grid_kernel(
                local_eul_grid_support_of_lag_grid=S["sup"][k], nearest_eul_grid_index_to_lag_grid=S["idx"][k], lag_positions=S["P"][k]
            )
            sc.interpolation_weights_kernel(interp_weights=S["w"][k], local_eul_grid_support_of_lag_grid=S["sup"][k])
            sc.eulerian_to_lagrangian_grid_interpolation_kernel(
                lag_grid_field=S["lag"][k], eul_grid_field=S["u"][k], interp_weights=S["w"][k], nearest_eul_grid_index_to_lag_grid=S["idx"][k]
            )
            vc.eulerian_to_lagrangian_grid_interpolation_kernel(
                lag_grid_field=S["lagv"][k], eul_grid_field=S["uv"][k], interp_weights=S["w"][k], nearest_eul_grid_index_to_lag_grid=S["idx"][k]
            )
    except Exception as e:
        rec.violation("history-of-temporary-views-raises", f"{type(e).__name__}: {e} call {k + 1} of {K} {meta}", {"meta": meta, "P": P0})
        rec.case(None)
        comm.set_layout(rng, None)
        return
    rec.count("histories_of_temporary_view_arguments")
    rec.count("kernel_calls_with_temporary_view_arguments", 4 * K)
    if not util.bits_equal(S["P"], P0):
        rec.violation("marker-positions-modified", f"the support kernel changed its lag_positions argument {meta}", {"meta": meta, "P": P0})
    for k in range(K):
        m = {**meta, "positions": classes[k], "history": f"call {k + 1} of {K} with temporary views stack[name][k] of different memory"}
        pre = {n: S[n][k] for n in ("idx", "sup", "w", "u", "uv", "lag", "lagv")}
        _check_batch(rec, rng, comm, P0[k], shape, pf, dxf, shiftf, eps, (*base5, classes[k] + "/history"), m, kernel, real_t, pre=pre)
    comm.flush_calls(rec)
    comm.set_layout(rng, None)
