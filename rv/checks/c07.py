"""C07 — spreading is the adjoint of interpolation and conserves force and (Peskin) torque (DESIGN §4 C07).

The real numba closures of ``EulerianLagrangianGridCommunicator{2,3}D`` (scalar and vector variants) are
driven like ``VirtualBoundaryForcing`` drives them (``rv.checks.c06.Comm``).  Per batch of N markers:

* ``W[m, c]`` = independent closed-form delta (``rv.ref.ib.dense_weights``; phi from Peskin 2002);
* real interpolation of random fields (noise, big, small, smooth, spikes, checker, integer) must equal
  ``W u dx^d``; vector variant per component with unrelated component fields (component pairing);
* real spreading into a PRE-FILLED target, 1–5 successive calls with fresh marker forces, must equal
  ``target_before + sum_k W^T F_k`` on EVERY cell of the grid (so ``=`` instead of ``+=``, a lost marker of a
  duplicated group, a window that differs from the interpolation window or a write outside the window show);
* the bilinear identity ``sum_m F_m (I u)_m == sum_c (S F)_c u_c dx^d`` evaluated in long double directly on
  the two REAL outputs (no reference; the weight error cancels);
* ``sum_c (S F)_c dx^d == sum_m F_m`` and, for Peskin, the full first-moment tensor
  ``sum_c (x_c - p)_a (S F)_b dx^d == sum_m (X_m - p)_a F_b,m`` about a random point p (its antisymmetric part is
  the torque; reported separately).

Workload diversity (added after the seeded-change campaign; generators shared with C06): every 4th batch on a TALL grid
(2-D: grid_size_y > grid_size_x; 3-D alternately y > x and z > x), a SIBLING communicator per shard (shares N / dx with
earlier objects of the process, 3-D variant B has N == dim, positional constructor arguments + defaults), then the FIRST
communicator of the process again.

Self-test of the added dimensions: the interpolation-closure cache keyed without dx (see C06) -> VIOLATION interp!=W u dx^d,
interp(vector)!=W u dx^d, bilinear-identity(scalar|vector), every witness on the 'sibling' object.

Tolerances are a-priori rounding models (``e_m = eps_t + eps64*(|X_m|/dx + 2)`` as in C06, S = cells with
|r_a| < 2.5 in every direction, n_c = markers touching cell c times number of spreads):
  interpolation   4*4^d*eps_t*sum|W||u|dx^d + 32*e_m*d*2^-d*sum_S|u|            (dot product + weight noise)
  spreading       (64 + n_c/2)*eps_t*(|T0| + sum|W||F|) + 32*d*2^-d/dx^d*sum_S e_m|F|   (sequential accumulation + weight noise)
  bilinear        (4*4^d + 64 + n_max/2)*eps_t*sum_m|F_m|(I|u|)_m   (the weight error itself cancels: same w in both directions)
  force integral  sum_m|F_m|*((64 + n_max/2)*eps_t + 64*eps_t + 4*eps64*kap_m)
  first moment    sum_m|F_m|*((|X_m - p| + 2dx)*(same bracket) + 24*e_m*dx)
Measured max error/tolerance over seeds 0..5 quick and 0,1 thorough (``rec.stat``): interpolation 0.026, spreading 0.078,
bilinear 0.017, force integral 0.024, first moment 0.016.  (One harness bug was found by the thorough tier and fixed: the
bilinear tolerance must not vanish when the field is zero on the closed-form support but a noise-level weight of the
floor-shifted window touches a spike.)

Deliberate breaks tried with ``tools/mut.sh --sed`` (files .../EulerianLagrangianGridCommunicator{2,3}D.py; quick tier,
seed 0; every one reported VIOLATION; mechanisms that fired, most frequent first)
==========================================================================================================
 1  2D scalar spreading  += -> =                            spread(scalar)-overwrites-instead-of-accumulating, force-integral, bilinear-identity,
                                                            spread(scalar)!=target+W^T F, peskin-first-moment
 2  2D vector spreading  += -> =                            same four with (vector)
 3  3D scalar spreading  += -> =                            same as 1
 4  2D vector spreading: force components reversed          spread(vector)-components-mixed-up, force-integral(vector), bilinear-identity(vector)
 5  2D vector interpolation: component 1 reads component 0  interp(vector)!=W u dx^d, bilinear-identity(vector)
 6  3D vector interpolation: component 1 without dx**d      interp(vector)!=W u dx^d, bilinear-identity(vector)   ("dx^d on the wrong side")
 7  2D scalar spreading x-window +1 (differs from interp.)  spread(scalar)!=target+W^T F, bilinear-identity(scalar), force-integral, first moment
 8  3D vector spreading: y-window taken from idx[2]         spread(vector)!=target+W^T F, bilinear-identity(vector), force-integral,
                                                            spread(vector)-left-target-unchanged (numba silently skips a clipped slice)
 9  2D scalar spreading skips the last marker               spread(scalar)!=target+W^T F, force-integral(scalar), bilinear-identity(scalar)
10  2D scalar spreading uses the weights of marker 0        spread(scalar)!=target+W^T F, bilinear-identity(scalar), first moment
11  2D scalar interpolation with transposed weights         interp!=W u dx^d, bilinear-identity(scalar)
12  3D Peskin 3.0 - 2r -> 3.1 - 2r (first factor)           interp/spread vs dense (all four), force-integral, first moment; the bilinear
                                                            identity rightly stays silent (still adjoint)
13  3D scalar spreading with transposed weights             spread(scalar)!=target+W^T F, bilinear-identity(scalar), first moment
14  3D cosine coefficient 0.25/dx -> 0.26/dx                interp/spread vs dense, force-integral (bilinear identity silent: still adjoint)
"""
import numpy as np

from .. import util
from ..ref import ib
from . import c06

ID = "C07"
LEVEL = "exploration"
TITLE = "Spreading is the adjoint of interpolation and conserves force (and torque)"
TECHNIQUE = (
    "runtime monitoring: reference-model oracle (dense matrix of the independent delta) for both transfer "
    "directions + reference-free invariant monitors (bilinear identity, force and first-moment conservation)"
)
RULE = (
    "per (dimension, precision, delta kernel, (x_range, nx, N) from a fixed pool) batches of N float64 markers on "
    "random non-square/non-cubic grids; marker sets: uniform, all in one cell, a few neighbouring cells, "
    "duplicated (up to 64 copies of one position), mixed on-centre/on-face/ulp-perturbed; fields: noise/big/"
    "small/smooth/spikes/checker/integer; targets zero or pre-filled; 1-5 successive spreads; scalar and vector "
    "variants.  A case is non-trivial when field and marker force are non-zero; distinct = (dim, dtype, kernel, "
    "N class, marker-set class, field kind / spread count, sub-check)."
)
ASSUMPTIONS = [
    "rv.ref.ib delta functions (literature) and the documented window/layout conventions, as in C06",
    "rounding model: dot products of 4^d terms, sequential accumulation over the markers touching a cell, "
    "weight noise floor measured by C06; measured headroom >= 10x over seeds 0..5 in both tiers",
    "markers at least two cells inside the grid (the kernels document no boundary handling)",
]
REQUIRE = {
    "interp_values_vs_dense": 5000,
    "spread_cells_vs_dense": 50000,
    "bilinear_identities": 100,
    "spreads_into_prefilled_target": 50,
    "batches_with_2_to_5_successive_spreads": 50,
    "duplicate_groups_of_64": 4,
    "batches_all_markers_in_one_cell": 10,
    "force_integrals": 100,
    "first_moment_tensor_entries": 100,
    "vector_component_pairs_checked": 100,
    "batches_grid_y_exceeds_x": 100,
    "batches_grid_z_exceeds_x": 20,
    "batches_sibling_comm_shared_dx_or_N": 100,
    "batches_first_comm_after_sibling": 100,
    "batches_N_equals_dim": 20,
    "batches_more_than_1024_markers_2d": 20,
    "batches_more_than_1024_markers_3d": 20,
}

EPS64 = c06.EPS64
LD = np.longdouble
WIDTH = c06.WIDTH
K_DOT, K_ACC, K_W, K_SUM, K_SUM_KAPPA, K_M1 = 4, 64, 2 * c06.K_W, c06.K_SUM, c06.K_SUM_KAPPA, c06.K_M1

# subsets / supersets of C06's pool (same (dx, N) -> shared numba cache); 3-D compiles ~25 s per entry cold
POOL = {
    2: dict(c06.POOL[2]),
    3: {
        "A": [(1.0, 32, 40), (1.3, 26, 512)],
        "B": [(2 * np.pi, 24, 2), (0.37, 30, 150)],
        "C": [(1.0, 37, 1), (4.0, 16, 9), (1.0, 28, 256), (2.0, 32, 64)],
        "D": [(10.0, 21, 5), (1.0, 40, 100), (2 * np.pi, 30, 400), (0.5, 16, 20)],
    },
}
ONE_THREAD = c06.ONE_THREAD
MARKER_SETS = ("uniform", "one_cell", "few_cells", "duplicates", "mixed")
FIELD_KINDS = ("noise", "big", "small", "smooth", "spikes", "checker", "int")


def shards(tier, seed):
    variants = ("A", "B") if tier == "quick" else ("A", "B", "C", "D")
    out = []
    for v in variants:
        for d in (3, 2):
            for dt in ("float32", "float64"):
                for k in ib.KERNELS:
                    out.append({"name": f"{d}d-{dt}-{k}-{v}", "dim": d, "dtype": dt, "kernel": k, "variant": v, "env": ONE_THREAD})
    return out


def _shape(rng, d, nx, N, tier, tall=0):
    """non-cubic grid, x size nx, with N * cells bounded (dense matrices); ``tall``: see c06.random_shape (dropped when
    the tall grid does not fit the budget)"""
    budget = 3e6 if tier == "quick" else 6e6
    for i in range(100):
        shape = c06.random_shape(rng, d, nx, tier, tall if i < 50 else 0)
        if N * int(np.prod(shape)) <= budget:
            return shape
    other = max(6, int((budget / N / nx) ** (1.0 / (d - 1))))
    shape = [other] * (d - 1) + [nx]
    if d == 3:
        shape[0] = max(6, other - 1)
    return tuple(shape) if len(set(shape)) > 1 else tuple([other + 1] + shape[1:])


def marker_set(rng, kind, N, shape, dx_t, real_t, x_range, pf, rec):
    d = len(shape)
    dxf = float(dx_t)
    if kind == "uniform":
        P = c06.gen_positions(rng, "uniform", N, shape, dx_t, real_t, x_range, pf)
    elif kind == "mixed":
        P = c06.gen_positions(rng, "mixed", N, shape, dx_t, real_t, x_range, pf)
    elif kind == "one_cell":
        P = np.empty((d, N))
        for a in range(d):
            n = shape[d - 1 - a]
            k = int(rng.integers(2, n - 2))
            P[a] = (k + 0.5 + rng.uniform(-0.499, 0.499, size=N)) * dxf
        rec.count("batches_all_markers_in_one_cell")
    elif kind == "few_cells":
        P = np.empty((d, N))
        for a in range(d):
            n = shape[d - 1 - a]
            k = int(rng.integers(2, n - 3))
            P[a] = (k + rng.uniform(0.0, 2.0, size=N)) * dxf
    elif kind == "duplicates":
        P = c06.gen_positions(rng, str(rng.choice(["uniform", "mixed"])), N, shape, dx_t, real_t, x_range, pf)
        ngroups = 1 if N < 130 else int(rng.integers(1, 4))
        perm = rng.permutation(N)
        at = 0
        for _ in range(ngroups):
            size = min(64, N - at) if rng.random() < 0.7 else int(rng.integers(2, min(64, max(2, N - at)) + 1))
            if size < 2 or at + size > N:
                break
            grp = perm[at : at + size]
            P[:, grp] = P[:, grp[:1]]
            at += size
            rec.count("duplicate_groups")
            if size == 64:
                rec.count("duplicate_groups_of_64")
    else:
        raise ValueError(kind)
    return P


# ------------------------------------------------------------------------------------------------
def run_shard(sh, rec):
    tier, seed = sh["tier"], sh["seed"]
    d, kernel = sh["dim"], sh["kernel"]
    real_t = util.DT[sh["dtype"]]
    eps = util.eps(real_t)
    rng = util.rng_for(seed, ID, sh["name"])
    # pool entries, then the sibling communicator (c06.SIBLINGS: shares N with one earlier object and, where C06's pool
    # entry is also in this pool, dx with another; positional constructor arguments + defaults), then the FIRST one again
    entries = [(e, "pool") for e in POOL[d][sh["variant"]]]
    if sh["variant"] == "B":
        entries.append((c06.BIG_N[d], "bigN"))  # > 1024 markers: dense W on a small grid
    entries += [(c06.SIBLINGS[d][sh["variant"]], "sibling"), (POOL[d][sh["variant"]][0], "first-again")]
    first = None
    npred = 0
    for (x_range, nx, N), role in entries:
        dom0 = c06.make_domain(d, (8,) * (d - 1) + (nx,), x_range, real_t)
        dx_t = dom0.dx
        dxf = float(dx_t)
        shiftf = float(real_t(dx_t / 2))
        if role == "first-again":
            if first is None:
                continue
            comm = first
        else:
            if role == "pool" and c06.is_dyadic(float(dx_t)) and npred < 2:
                # predecessor of the OTHER precision with a numerically equal (dyadic) spacing, same marker count and kernel type,
                # created and used in this process first: np.float32(v) == np.float64(v) and hash equal for dyadic v, so a
                # generator cache keyed by (dx, width) without the precision hands the later object a kernel of the wrong precision
                other_t = np.float32 if real_t is np.float64 else np.float64
                try:
                    pred = c06.Comm(d, other_t(float(dx_t)), N, other_t, kernel)
                    Pp = rng.uniform(3.2, 4.8, size=(d, N)) * float(dx_t)
                    pred.weights(rng, Pp)
                    npred += 1
                    rec.count("other_precision_predecessors_same_dyadic_dx")
                except Exception as e:
                    rec.note(f"other-precision predecessor failed: {type(e).__name__}: {e}")
            try:
                comm = c06.Comm(d, dx_t, N, real_t, kernel, positional=(role == "sibling"))
            except Exception as e:
                rec.violation("communicator-construction-raises", f"{type(e).__name__}: {e} dx={dxf} N={N}", None)
                rec.case(None)
                continue
            if first is None and role == "pool":
                first = comm
        if tier == "quick":
            nb = 30 if N >= 128 else 50
        else:
            nb = 150 if N >= 128 else 300
        if role == "bigN":
            nb = 6 if tier == "quick" else 20
        elif role != "pool":
            nb = max(10, nb // 4)
        off = int(rng.integers(len(MARKER_SETS)))
        for b in range(nb):
            kind = MARKER_SETS[(b + off) % len(MARKER_SETS)]
            if N == 1 and kind in ("duplicates",):
                kind = "uniform"
            shape = _shape(rng, d, nx, N, tier, c06.tall_class(b, d))
            if shape[-2] > shape[-1]:
                rec.count("batches_grid_y_exceeds_x")
            if d == 3 and shape[0] > shape[-1]:
                rec.count("batches_grid_z_exceeds_x")
            rec.count({"pool": "batches_pool_comm", "bigN": "batches_pool_comm", "sibling": "batches_sibling_comm_shared_dx_or_N", "first-again": "batches_first_comm_after_sibling"}[role])
            if N > 1024:
                rec.count(f"batches_more_than_1024_markers_{d}d")
            if N == d:
                rec.count("batches_N_equals_dim")
            dom = c06.make_domain(d, shape, x_range, real_t)
            P = marker_set(rng, kind, N, shape, dx_t, real_t, x_range, dom.position_field, rec)
            base = (d, sh["dtype"], kernel, c06.n_class(N), kind)
            meta = {"dim": d, "dtype": sh["dtype"], "kernel": kernel, "x_range": x_range, "shape": shape, "dx": dxf, "N": N, "markers": kind, "object": role}
            _check_batch(rec, rng, comm, P, shape, dxf, shiftf, eps, base, meta, kernel, real_t)


def _fld(rng, shape, kind, real_t, lead=()):
    a = util.field(rng, tuple(lead) + tuple(shape), kind, real_t)
    if not np.any(a):
        a.flat[int(rng.integers(a.size))] = 1.0
    return a


def _overwrite_model_explains(target, T0, W, Fs, tol, vector):
    """diagnosis only (after a mismatch): does 'window = F*w' in marker order reproduce the real output?"""
    T = T0.astype(np.float64).copy()
    for Fk in Fs:
        Fk = Fk.astype(np.float64)
        for m in range(W.shape[0]):
            mask = W[m] > 0
            if vector:
                for c in range(T.shape[0]):
                    T[c][mask] = Fk[c, m] * W[m][mask]
            else:
                T[mask] = Fk[m] * W[m][mask]
    return util.err_over_tol(target, T, tol) <= 1


def _check_batch(rec, rng, comm, P, shape, dxf, shiftf, eps, base, meta, kernel, real_t):
    d, N = comm.d, comm.N
    vol = dxf**d
    try:
        idx, w = comm.weights(rng, P)
    except Exception as e:
        rec.violation("weights-raise", f"{type(e).__name__}: {e} {meta}", {"meta": meta, "P": P})
        rec.case(None)
        return
    wit = {"meta": meta, "P": P.copy(), "idx": idx.copy(), "w": w.copy()}
    if not comm.windows_inside(shape).all() or not np.all(np.isfinite(w)):
        rec.violation("support-window-outside-grid-or-nan-weights", f"index range {idx.min(axis=1)}..{idx.max(axis=1)} on grid {shape} {meta}", wit)
        rec.case(None)
        return
    W = ib.dense_weights(P, shape, dxf, kernel, shiftf)  # (N, *grid)
    # cells a legitimate window may touch: |r_a| < 2.5 in every direction (covers floor and floor-1 windows);
    # only used to size the tolerances
    near = [(np.abs(ib.scaled_distances(P[d - 1 - ax], shape[ax], dxf, shiftf)) < 2.5).astype(np.float64) for ax in range(d)]
    S = np.einsum("mj,mi->mji", *near) if d == 2 else np.einsum("mk,mj,mi->mkji", *near)
    kap = c06.kappa(P, dxf)
    e_m = eps + EPS64 * kap
    wnoise = K_W * d * 0.5**d  # weight noise floor, in units of e_m / dx^d
    touch = ib.spread(S, np.ones(N))  # markers touching each cell
    n_max = float(touch.max())
    kdot = K_DOT * 4**d
    if n_max >= 64:
        rec.count("batches_with_64_or_more_markers_on_one_cell")

    # ---------------------------------------------------------------- interpolation == W u dx^d
    fk = str(rng.choice(FIELD_KINDS))
    u = _fld(rng, shape, fk, real_t)
    uv = np.stack([_fld(rng, shape, str(rng.choice(FIELD_KINDS)), real_t) for _ in range(d)])
    lag = lagv = None
    try:
        lag = comm.interp(rng, u)
        lagv = comm.interp(rng, uv, vector=True)
    except Exception as e:
        rec.violation("interpolation-raises", f"{type(e).__name__}: {e} {meta}", wit)
    absI = ib.interpolate(W, np.abs(u), dxf)
    absIv = ib.interpolate(W, np.abs(uv), dxf)
    if lag is not None and lagv is not None:
        ref = ib.interpolate(W, u, dxf)
        tol = kdot * eps * absI + wnoise * e_m * ib.interpolate(S, np.abs(u), dxf) / vol + 1e-300
        r = util.err_over_tol(lag, ref, tol)
        rec.stat("interp_vs_dense", r)
        rec.stat(f"interp_{meta['dtype']}_{d}d", r)
        rec.count("interp_values_vs_dense", N)
        rec.case((*base, fk, "interp"), sample={**meta, "field": fk, "err_over_tol": r})
        if r > 1:
            m = int(np.argmax(np.abs(lag.astype(np.float64) - ref) / tol)) if np.all(np.isfinite(lag)) else 0
            rec.violation("interp!=W u dx^d", f"marker {m} at {P[:, m]}: kernel {lag[m]} dense {ref[m]} err/tol {r:.3g} field {fk} {meta}", {**wit, "u": u})
        refv = ib.interpolate(W, uv, dxf)
        tolv = kdot * eps * absIv + wnoise * e_m[None, :] * ib.interpolate(S, np.abs(uv), dxf) / vol + 1e-300
        r = util.err_over_tol(lagv, refv, tolv)
        rec.stat("interp_vector_vs_dense", r)
        rec.count("interp_values_vs_dense", N * d)
        rec.count("vector_component_pairs_checked", d)
        rec.case((*base, "interp-vector"))
        if r > 1:
            mech = "interp(vector)!=W u dx^d"
            # does a permutation of components explain it?
            for perm in ((1, 0), (1, 0, 2), (2, 1, 0), (0, 2, 1), (1, 2, 0), (2, 0, 1)):
                if len(perm) == d and util.err_over_tol(lagv, refv[list(perm)], tolv[list(perm)]) <= 1:
                    mech = "interp(vector)-components-mixed-up"
            rec.violation(mech, f"marker 0 at {P[:, 0]}: kernel {lagv[:, 0]} dense {refv[:, 0]} err/tol {r:.3g} {meta}", {**wit, "u": uv})

    # ---------------------------------------------------------------- spreading == T0 + W^T F (accumulating)
    for vector in (False, True):
        lead = (d,) if vector else ()
        tag = "vector" if vector else "scalar"
        prefilled = rng.random() < 0.6
        T0 = util.field(rng, lead + tuple(shape), str(rng.choice(["noise", "big", "small", "int"])), real_t) if prefilled else np.zeros(lead + tuple(shape), real_t)
        target = T0.copy()
        ns = int(rng.integers(1, 6))
        Fs = []
        ok = True
        for k in range(ns):
            Fk = (rng.standard_normal(lead + (N,)) * 10.0 ** float(rng.uniform(-2, 2))).astype(real_t)
            if vector and rng.random() < 0.25:  # force along one axis only: the other grid components must stay
                keep = int(rng.integers(d))
                Fk[[c for c in range(d) if c != keep]] = 0
            Fs.append(Fk)
            try:
                comm.spread(target, Fk, vector=vector)
            except Exception as e:
                rec.violation("spreading-raises", f"{tag}: {type(e).__name__}: {e} {meta}", wit)
                ok = False
                break
        if not ok:
            continue
        Fsum = np.sum([f.astype(np.float64) for f in Fs], axis=0)
        Fabs = np.sum([np.abs(f.astype(np.float64)) for f in Fs], axis=0)
        ref = T0.astype(np.float64) + ib.spread(W, Fsum)
        A = ib.spread(W, Fabs)
        B = ib.spread(S, Fabs * e_m)
        tol = (K_ACC + 0.5 * ns * touch) * eps * (np.abs(T0.astype(np.float64)) + A) + wnoise * B / vol + 1e-300
        r = util.err_over_tol(target, ref, tol)
        rec.stat(f"spread_{tag}_vs_dense", r)
        rec.stat(f"spread_{meta['dtype']}_{d}d", r)
        rec.count("spread_cells_vs_dense", target.size)
        if prefilled:
            rec.count("spreads_into_prefilled_target")
        if ns >= 2:
            rec.count("batches_with_2_to_5_successive_spreads")
        if vector:
            rec.count("vector_component_pairs_checked", d)
        rec.case((*base, tag, "prefilled" if prefilled else "zero", min(ns, 2), "spread"))
        if r > 1:
            got = target.astype(np.float64)
            loc = np.unravel_index(int(np.argmax(np.where(np.isfinite(got), np.abs(got - ref) / tol, np.inf))), got.shape)
            mech = f"spread({tag})!=target+W^T F"
            if util.bits_equal(target, T0):
                mech = f"spread({tag})-left-target-unchanged"
            elif _overwrite_model_explains(target, T0, W, Fs, tol, vector):
                mech = f"spread({tag})-overwrites-instead-of-accumulating"
            elif vector:
                for perm in ((1, 0), (1, 0, 2), (2, 1, 0), (0, 2, 1), (1, 2, 0), (2, 0, 1)):
                    if len(perm) == d and util.err_over_tol(target, T0.astype(np.float64) + ib.spread(W, Fsum[list(perm)]), tol) <= 1:
                        mech = "spread(vector)-components-mixed-up"
            rec.violation(
                mech,
                f"cell {tuple(int(x) for x in loc)} (array order): kernel {got[loc]} expected {ref[loc]} (target before {float(T0[loc])}) "
                f"err/tol {r:.3g}; {ns} spreads, prefilled={prefilled}, max markers per cell {n_max:.0f} {meta}",
                {**wit, "T0": T0, "F": Fs},
            )

    # ------------------------------------------------- reference-free identities on the two real outputs
    for vector in (False, True):
        lead = (d,) if vector else ()
        tag = "vector" if vector else "scalar"
        lg = lagv if vector else lag
        if lg is None:
            continue
        uu = uv if vector else u
        aI = absIv if vector else absI
        Fm = (rng.standard_normal(lead + (N,)) * 10.0 ** float(rng.uniform(-2, 2))).astype(real_t)
        sf = np.zeros(lead + tuple(shape), real_t)
        try:
            comm.spread(sf, Fm, vector=vector)
        except Exception as e:
            rec.violation("spreading-raises", f"{tag}: {type(e).__name__}: {e} {meta}", wit)
            continue
        Fl = Fm.astype(LD)
        sfl = sf.astype(LD)
        acc = K_ACC + 0.5 * n_max
        # bilinear identity
        lhs = float((Fl * lg.astype(LD)).sum())
        rhs = float((sfl * uu.astype(LD)).sum() * LD(vol))
        # both sides use the SAME real weights, which differ from W by the weight noise floor (also in cells where W = 0)
        noise = wnoise * e_m * ib.interpolate(S, np.abs(uu), dxf) / vol
        tol = (kdot + acc) * eps * float((np.abs(Fm.astype(np.float64)) * (aI + noise)).sum()) + 1e-300
        r = abs(lhs - rhs) / tol if np.isfinite(lhs) and np.isfinite(rhs) else float("inf")
        rec.stat(f"bilinear_identity_{tag}", r)
        rec.count("bilinear_identities")
        rec.case((*base, tag, "bilinear"))
        if r > 1:
            rec.violation(f"bilinear-identity({tag})", f"sum F.(Iu) = {lhs!r}  sum (SF).u dx^d = {rhs!r}  err/tol {r:.3g} {meta}", {**wit, "u": uu, "F": Fm})
        # force integral
        Fa = np.abs(Fm.astype(np.float64))
        tsum = K_SUM * eps + K_SUM_KAPPA * EPS64 * kap
        tot_grid = (sfl.reshape(lead + (-1,)).sum(axis=-1) * LD(vol)).astype(np.float64)
        tot_mark = Fl.sum(axis=-1).astype(np.float64)
        tol = (Fa * (acc * eps + tsum)).sum(axis=-1) + 1e-300
        r = float(np.max(np.abs(tot_grid - tot_mark) / tol)) if np.all(np.isfinite(tot_grid)) else float("inf")
        rec.stat(f"force_integral_{tag}", r)
        rec.count("force_integrals", d if vector else 1)
        rec.case((*base, tag, "force-integral"))
        if r > 1:
            rec.violation(f"force-integral({tag})!=total-marker-force", f"grid integral {tot_grid} marker total {tot_mark} err/tol {r:.3g} {meta}", {**wit, "F": Fm})
        # Peskin: first-moment tensor about a random point
        if kernel == "peskin":
            p = np.array([rng.uniform(0, shape[d - 1 - a] * dxf) for a in range(d)])
            worst = 0.0
            Mg = np.zeros((d,) + ((d,) if vector else ()))
            Mm = np.zeros_like(Mg)
            for a in range(d):
                xc = ib.cell_centres(shape[d - 1 - a], dxf, shiftf).astype(LD) - LD(p[a])
                bshape = [1] * d
                bshape[d - 1 - a] = -1
                arm_grid = xc.reshape(bshape)
                arm_mark = P[a].astype(LD) - LD(p[a])
                mg = ((sfl * arm_grid).reshape(lead + (-1,)).sum(axis=-1) * LD(vol)).astype(np.float64)
                mm = (Fl * arm_mark).sum(axis=-1).astype(np.float64)
                arm = np.abs(arm_mark.astype(np.float64)) + 2 * dxf
                tol = (Fa * (arm * (acc * eps + tsum) + K_M1 * e_m * dxf)).sum(axis=-1) + 1e-300
                rr = float(np.max(np.abs(mg - mm) / tol)) if np.all(np.isfinite(mg)) else float("inf")
                worst = max(worst, rr)
                Mg[a], Mm[a] = mg, mm
            rec.stat(f"first_moment_{tag}", worst)
            rec.count("first_moment_tensor_entries", d * (d if vector else 1))
            rec.case((*base, tag, "first-moment"))
            if vector:
                rec.count("torque_components_checked", 1 if d == 2 else 3)
            if worst > 1:
                msg = f"first-moment tensor grid {Mg.tolist()} markers {Mm.tolist()} about p={p} err/tol {worst:.3g}"
                if vector:
                    tq = (lambda M: [M[0, 1] - M[1, 0]] if d == 2 else [M[1, 2] - M[2, 1], M[2, 0] - M[0, 2], M[0, 1] - M[1, 0]])
                    msg += f"; torque grid {tq(Mg)} markers {tq(Mm)}"
                rec.violation(f"peskin-first-moment({tag})-not-preserved", f"{msg} {meta}", {**wit, "F": Fm, "p": p})
