"""C07 — spreading is the adjoint of interpolation and conserves force and (Peskin) torque (DESIGN §4 C07).

The real numba closures of ``EulerianLagrangianGridCommunicator{2,3}D`` (scalar and vector variants) are
driven like ``VirtualBoundaryForcing`` drives them (``rv.checks.c06.Comm``).  Per batch of N markers:

* ``W[m, c]`` = independent closed-form delta (``rv.ref.ib.dense_weights``; phi from Peskin 2002);
* real interpolation of random fields (noise, big, small, smooth, spikes, checker, integer) must equal
  ``W u dx^d``; vector variant per component with unrelated component fields (component pairing);
* real spreading into a PRE-FILLED target, 1–5 successive calls with fresh marker forces, must equal
  ``target_before + sum_k W^T F_k`` on EVERY cell of the grid (so ``=`` instead of ``+=``, a lost marker of a
  duplicated group, a window that differs from the interpolation window or a write outside the window show);
* the bilinear identity ``sum_m F_m (I u)_m == sum_c (S F)_c u_c dx^d`` evaluated in long double directly on
  the two REAL outputs (no reference; the weight error cancels);
* ``sum_c (S F)_c dx^d == sum_m F_m`` and, for Peskin, the full first-moment tensor
  ``sum_c (x_c - p)_a (S F)_b dx^d == sum_m (X_m - p)_a F_b,m`` about a random point p (its antisymmetric part is
  the torque; reported separately).

Workload diversity (added after the seeded-change campaign; generators shared with C06): every 4th batch on a TALL grid
(2-D: grid_size_y > grid_size_x; 3-D alternately y > x and z > x), a SIBLING communicator per shard (shares N / dx with
earlier objects of the process, 3-D variant B has N == dim, positional constructor arguments + defaults), then the FIRST
communicator of the process again.

Self-test of the added dimensions: the interpolation-closure cache keyed without dx (see C06) -> VIOLATION interp!=W u dx^d,
interp(vector)!=W u dx^d, bilinear-identity(scalar|vector), every witness on the 'sibling' object.

Argument dimensions (added later; nothing asserted before was changed; every new execution is compared with the SAME dense reference
at the SAME tolerances -- never with another execution; ``_Ref`` only collects the reference/tolerance formulas that used to be inline):
 (a) array layout -- every third batch (``c06.batch_layout``) passes EVERY caller-supplied array as a non-contiguous array holding the
     same values: Eulerian input fields, Lagrangian outputs, the pre-filled spreading TARGETS (the kernel must add into the caller's
     view), marker forces, support / weight buffers, as "views" (interior of a sentinel-padded parent or every second element of a
     parent; 1-D Lagrangian arrays as every second element) or "fortran" (column-major; (d, N) arrays are (N, d) storage passed as
     ``.T``); marker positions as (N, d) storage passed as ``.T``.  Results are read back with ``np.ascontiguousarray``.  Counters
     batches_layout_views / _fortran, kernel_calls_with_noncontiguous_array_arguments.  EXCLUDED: strided marker positions / index
     buffers (numba refuses ``reshape`` on them at typing -- see the C06 docstring; counter excluded_layout_strided_positions:*).
 (b) histories of temporary views -- once per communicator object (``_history``) K = 3..6 rounds {support, weights, scalar and vector
     interpolation, scalar and vector spreading into pre-filled targets} in a tight loop where every array argument is
     ``stack[name][k]`` (fresh temporary views of different memory; CPython recycles their id()); afterwards every slot is compared with
     the dense reference of ITS marker set, field, target and force.  Counters histories_of_temporary_view_arguments,
     history_slots_compared.
 (c) exact zeros -- an all-zero marker force spread into a finite pre-filled (sentinel-free) target leaves every cell unchanged, and a
     vector force with a component that is exactly zero in every spread leaves that grid component unchanged (0 * w added to a finite
     value; compared by value because -0.0 + 0.0 = +0.0).  Counters zero_force_spreads_into_prefilled_target,
     vector_spreads_with_exactly_zero_force_component.  (All-zero Eulerian fields: the 'spikes' fields already contain all-zero windows
     and the interpolation floor vanishes there; C06 drives the all-zero field.)
 (d) scalar types -- as C06: one more communicator per shard built with dx / eul_grid_coord_shift as python floats (variant A) / 0-d
     arrays (B) / np.float64 (C) / 0-d float64 arrays (D); the kernels take no scalar at call time.
 (e) grid origin -- as C06 (``c06.ORIGINS``): four more communicators per shard with eul_grid_coord_shift exactly 0.0 / dx/4 / x0 + dx/2
     (x0 = -2 dx, +3.5 dx) on pool (dx, N) pairs; marker sets are moved with the origin and the dense reference, the support sets of the
     tolerances and the cell coordinates of the first-moment check use the communicator's actual shift (cell centre i at i*dx + shift).
     Counters batches_grid_origin_zero / _quarter_cell / _shifted_domain.
Self-test of (a)-(d) (tools/mut.sh, quick tier, seed 0, ...Communicator2D.py; each reported VIOLATION, every witness carries the new dimension):
 15 (a) scalar spreading adds into ``np.ascontiguousarray(eul_grid_field)`` (a copy for non-contiguous targets)   spread(scalar)-left-target-unchanged, bilinear-identity(scalar),
                                                                                                                   force-integral(scalar), first moment: all 51 witnesses 'layout': views | fortran
 16 (b) __init__ wraps the spreading kernel with a cache of prepared target views keyed by id(target)             spread(scalar|vector)!=target+W^T F / -left-target-unchanged: 86 witnesses are
        (``out = cache[id(t)] = t[...]``, no reference to t kept)                                                  history slots, 31 layout batches (their targets are temporary views too), 3 ordinary
                                                                                                                   batches AFTER a history whose recycled ids hit the poisoned cache
 17 (c) scalar spreading: ``if not lag_grid_field.any(): eul_grid_field[...] = 0.0; return`` before the loop      spread(scalar)-of-zero-force-changes-target only (all other statistics unchanged)
 18 (d) __init__: ``if not isinstance(dx, np.floating): dx = np.float32(dx)``                                     interp / spread vs dense, bilinear, force integral, first moment in the float64
                                                                                                                   shards, every witness on the 'scalar-types' object

Tolerances are a-priori rounding models (``e_m = eps_t + eps64*(|X_m|/dx + 2)`` as in C06, S = cells with
|r_a| < 2.5 in every direction, n_c = markers touching cell c times number of spreads):
  interpolation   4*4^d*eps_t*sum|W||u|dx^d + 32*e_m*d*2^-d*sum_S|u|            (dot product + weight noise)
  spreading       (64 + n_c/2)*eps_t*(|T0| + sum|W||F|) + 32*d*2^-d/dx^d*sum_S e_m|F|   (sequential accumulation + weight noise)
  bilinear        (4*4^d + 64 + n_max/2)*eps_t*sum_m|F_m|(I|u|)_m   (the weight error itself cancels: same w in both directions)
  force integral  sum_m|F_m|*((64 + n_max/2)*eps_t + 64*eps_t + 4*eps64*kap_m)
  first moment    sum_m|F_m|*((|X_m - p| + 2dx)*(same bracket) + 24*e_m*dx)
Measured max error/tolerance over seeds 0..5 quick and 0,1 thorough (``rec.stat``): interpolation 0.026, spreading 0.078,
bilinear 0.017, force integral 0.024, first moment 0.016.  (One harness bug was found by the thorough tier and fixed: the
bilinear tolerance must not vanish when the field is zero on the closed-form support but a noise-level weight of the
floor-shifted window touches a spike.)

Deliberate breaks tried with ``tools/mut.sh --sed`` (files .../EulerianLagrangianGridCommunicator{2,3}D.py; quick tier,
seed 0; every one reported VIOLATION; mechanisms that fired, most frequent first)
==========================================================================================================
 1  2D scalar spreading  += -> =                            spread(scalar)-overwrites-instead-of-accumulating, force-integral, bilinear-identity,
                                                            spread(scalar)!=target+W^T F, peskin-first-moment
 2  2D vector spreading  += -> =                            same four with (vector)
 3  3D scalar spreading  += -> =                            same as 1
 4  2D vector spreading: force components reversed          spread(vector)-components-mixed-up, force-integral(vector), bilinear-identity(vector)
 5  2D vector interpolation: component 1 reads component 0  interp(vector)!=W u dx^d, bilinear-identity(vector)
 6  3D vector interpolation: component 1 without dx**d      interp(vector)!=W u dx^d, bilinear-identity(vector)   ("dx^d on the wrong side")
 7  2D scalar spreading x-window +1 (differs from interp.)  spread(scalar)!=target+W^T F, bilinear-identity(scalar), force-integral, first moment
 8  3D vector spreading: y-window taken from idx[2]         spread(vector)!=target+W^T F, bilinear-identity(vector), force-integral,
                                                            spread(vector)-left-target-unchanged (numba silently skips a clipped slice)
 9  2D scalar spreading skips the last marker               spread(scalar)!=target+W^T F, force-integral(scalar), bilinear-identity(scalar)
10  2D scalar spreading uses the weights of marker 0        spread(scalar)!=target+W^T F, bilinear-identity(scalar), first moment
11  2D scalar interpolation with transposed weights         interp!=W u dx^d, bilinear-identity(scalar)
12  3D Peskin 3.0 - 2r -> 3.1 - 2r (first factor)           interp/spread vs dense (all four), force-integral, first moment; the bilinear
                                                            identity rightly stays silent (still adjoint)
13  3D scalar spreading with transposed weights             spread(scalar)!=target+W^T F, bilinear-identity(scalar), first moment
14  3D cosine coefficient 0.25/dx -> 0.26/dx                interp/spread vs dense, force-integral (bilinear identity silent: still adjoint)
"""
import numpy as np

from .. import util
from ..ref import ib
from . import c06

ID = "C07"
LEVEL = "exploration"
TITLE = "Spreading is the adjoint of interpolation and conserves force (and torque)"
TECHNIQUE = (
    "runtime monitoring: reference-model oracle (dense matrix of the independent delta) for both transfer "
    "directions + reference-free invariant monitors (bilinear identity, force and first-moment conservation)"
)
RULE = (
    "per (dimension, precision, delta kernel, (x_range, nx, N) from a fixed pool) batches of N float64 markers on "
    "random non-square/non-cubic grids; marker sets: uniform, all in one cell, a few neighbouring cells, "
    "duplicated (up to 64 copies of one position), mixed on-centre/on-face/ulp-perturbed; fields: noise/big/"
    "small/smooth/spikes/checker/integer; targets zero or pre-filled; 1-5 successive spreads; scalar and vector "
    "variants; every third batch with all array arguments as non-contiguous views; one history of 3-6 rounds with "
    "temporary-view arguments per communicator; all-zero forces; one communicator per shard built with python-float / "
    "0-d-array scalars.  A case is non-trivial when field and marker force are non-zero; distinct = (dim, dtype, kernel, "
    "N class, marker-set class, field kind / spread count, sub-check)."
)
ASSUMPTIONS = [
    "rv.ref.ib delta functions (literature) and the documented window/layout conventions, as in C06",
    "rounding model: dot products of 4^d terms, sequential accumulation over the markers touching a cell, "
    "weight noise floor measured by C06; measured headroom >= 10x over seeds 0..5 in both tiers",
    "markers at least two cells inside the grid (the kernels document no boundary handling)",
]
REQUIRE = {
    "interp_values_vs_dense": 5000,
    "spread_cells_vs_dense": 50000,
    "bilinear_identities": 100,
    "spreads_into_prefilled_target": 50,
    "batches_with_2_to_5_successive_spreads": 50,
    "duplicate_groups_of_64": 4,
    "batches_all_markers_in_one_cell": 10,
    "force_integrals": 100,
    "first_moment_tensor_entries": 100,
    "vector_component_pairs_checked": 100,
    "batches_grid_y_exceeds_x": 100,
    "batches_grid_z_exceeds_x": 20,
    "batches_sibling_comm_shared_dx_or_N": 100,
    "batches_first_comm_after_sibling": 100,
    "batches_N_equals_dim": 20,
    "batches_more_than_1024_markers_2d": 20,
    "batches_more_than_1024_markers_3d": 20,
    "batches_layout_views": 100,
    "batches_layout_fortran": 100,
    "kernel_calls_with_noncontiguous_array_arguments": 2000,
    "histories_of_temporary_view_arguments": 50,
    "history_slots_compared": 150,
    "zero_force_spreads_into_prefilled_target": 1000,
    "vector_spreads_with_exactly_zero_force_component": 40,
    "batches_comm_built_with_other_scalar_types": 100,
    "batches_grid_origin_zero": 40,
    "batches_grid_origin_quarter_cell": 40,
    "batches_grid_origin_shifted_domain": 80,
}

EPS64 = c06.EPS64
LD = np.longdouble
WIDTH = c06.WIDTH
K_DOT, K_ACC, K_W, K_SUM, K_SUM_KAPPA, K_M1 = 4, 64, 2 * c06.K_W, c06.K_SUM, c06.K_SUM_KAPPA, c06.K_M1

# subsets / supersets of C06's pool (same (dx, N) -> shared numba cache); 3-D compiles ~25 s per entry cold
POOL = {
    2: dict(c06.POOL[2]),
    3: {
        "A": [(1.0, 32, 40), (1.3, 26, 512)],
        "B": [(2 * np.pi, 24, 2), (0.37, 30, 150)],
        "C": [(1.0, 37, 1), (4.0, 16, 9), (1.0, 28, 256), (2.0, 32, 64)],
        "D": [(10.0, 21, 5), (1.0, 40, 100), (2 * np.pi, 30, 400), (0.5, 16, 20)],
    },
}
ONE_THREAD = c06.ONE_THREAD
MARKER_SETS = ("uniform", "one_cell", "few_cells", "duplicates", "mixed")
FIELD_KINDS = ("noise", "big", "small", "smooth", "spikes", "checker", "int")


def shards(tier, seed):
    variants = ("A", "B") if tier == "quick" else ("A", "B", "C", "D")
    out = []
    for v in variants:
        for d in (3, 2):
            for dt in ("float32", "float64"):
                for k in ib.KERNELS:
                    out.append({"name": f"{d}d-{dt}-{k}-{v}", "dim": d, "dtype": dt, "kernel": k, "variant": v, "env": ONE_THREAD})
    return out


def _shape(rng, d, nx, N, tier, tall=0):
    """non-cubic grid, x size nx, with N * cells bounded (dense matrices); ``tall``: see c06.random_shape (dropped when
    the tall grid does not fit the budget)"""
    budget = 3e6 if tier == "quick" else 6e6
    for i in range(100):
        shape = c06.random_shape(rng, d, nx, tier, tall if i < 50 else 0)
        if N * int(np.prod(shape)) <= budget:
            return shape
    other = max(6, int((budget / N / nx) ** (1.0 / (d - 1))))
    shape = [other] * (d - 1) + [nx]
    if d == 3:
        shape[0] = max(6, other - 1)
    return tuple(shape) if len(set(shape)) > 1 else tuple([other + 1] + shape[1:])


def marker_set(rng, kind, N, shape, dx_t, real_t, x_range, pf, rec):
    d = len(shape)
    dxf = float(dx_t)
    if kind == "uniform":
        P = c06.gen_positions(rng, "uniform", N, shape, dx_t, real_t, x_range, pf)
    elif kind == "mixed":
        P = c06.gen_positions(rng, "mixed", N, shape, dx_t, real_t, x_range, pf)
    elif kind == "one_cell":
        P = np.empty((d, N))
        for a in range(d):
            n = shape[d - 1 - a]
            k = int(rng.integers(2, n - 2))
            P[a] = (k + 0.5 + rng.uniform(-0.499, 0.499, size=N)) * dxf
        rec.count("batches_all_markers_in_one_cell")
    elif kind == "few_cells":
        P = np.empty((d, N))
        for a in range(d):
            n = shape[d - 1 - a]
            k = int(rng.integers(2, n - 3))
            P[a] = (k + rng.uniform(0.0, 2.0, size=N)) * dxf
    elif kind == "duplicates":
        P = c06.gen_positions(rng, str(rng.choice(["uniform", "mixed"])), N, shape, dx_t, real_t, x_range, pf)
        ngroups = 1 if N < 130 else int(rng.integers(1, 4))
        perm = rng.permutation(N)
        at = 0
        for _ in range(ngroups):
            size = min(64, N - at) if rng.random() < 0.7 else int(rng.integers(2, min(64, max(2, N - at)) + 1))
            if size < 2 or at + size > N:
                break
            grp = perm[at : at + size]
            P[:, grp] = P[:, grp[:1]]
            at += size
            rec.count("duplicate_groups")
            if size == 64:
                rec.count("duplicate_groups_of_64")
    else:
        raise ValueError(kind)
    return P


# ------------------------------------------------------------------------------------------------
def run_shard(sh, rec):
    tier, seed = sh["tier"], sh["seed"]
    d, kernel = sh["dim"], sh["kernel"]
    real_t = util.DT[sh["dtype"]]
    eps = util.eps(real_t)
    rng = util.rng_for(seed, ID, sh["name"])
    # pool entries, then the sibling communicator (c06.SIBLINGS: shares N with one earlier object and, where C06's pool
    # entry is also in this pool, dx with another; positional constructor arguments + defaults), then the FIRST one again
    entries = [(e, "pool") for e in POOL[d][sh["variant"]]]
    if sh["variant"] == "B":
        entries.append((c06.BIG_N[d], "bigN"))  # > 1024 markers: dense W on a small grid
    entries += [(c06.SIBLINGS[d][sh["variant"]], "sibling"), (POOL[d][sh["variant"]][0], "first-again")]
    # one more communicator whose scalar constructor arguments (dx, eul_grid_coord_shift) are passed as another scalar type (C06's entry
    # and type per variant: shared numba cache)
    entries.append((c06.POOL[d][sh["variant"]][0], "scalar-types"))
    # grid origins: communicators whose eul_grid_coord_shift is exactly 0 / dx/4 / x0 + dx/2 (c06.ORIGINS; same (dx, shift) pairs as C06)
    entries += c06.origin_entries(c06.POOL[d][sh["variant"]], sh["variant"])
    first = None
    npred = 0
    for (x_range, nx, N), role in entries:
        dom0 = c06.make_domain(d, (8,) * (d - 1) + (nx,), x_range, real_t)
        dx_t = dom0.dx
        dxf = float(dx_t)
        shiftf = float(real_t(dx_t / 2))
        if role == "first-again":
            if first is None:
                continue
            comm = first
        else:
            if role == "pool" and c06.is_dyadic(float(dx_t)) and npred < 2:
                # predecessor of the OTHER precision with a numerically equal (dyadic) spacing, same marker count and kernel type,
                # created and used in this process first: np.float32(v) == np.float64(v) and hash equal for dyadic v, so a
                # generator cache keyed by (dx, width) without the precision hands the later object a kernel of the wrong precision
                other_t = np.float32 if real_t is np.float64 else np.float64
                try:
                    pred = c06.Comm(d, other_t(float(dx_t)), N, other_t, kernel)
                    Pp = rng.uniform(3.2, 4.8, size=(d, N)) * float(dx_t)
                    pred.weights(rng, Pp)
                    npred += 1
                    rec.count("other_precision_predecessors_same_dyadic_dx")
                except Exception as e:
                    rec.note(f"other-precision predecessor failed: {type(e).__name__}: {e}")
            skind = c06.SCALAR_TYPES[sh["variant"]] if role == "scalar-types" else None
            try:
                if role.startswith("origin:"):
                    comm = c06.Comm(d, dx_t, N, real_t, kernel, shift_arg=c06.origin_shift(role[7:], dx_t, real_t))
                elif skind is None:
                    comm = c06.Comm(d, dx_t, N, real_t, kernel, positional=(role == "sibling"))
                else:
                    comm = c06.Comm(d, dx_t, N, real_t, kernel, dx_arg=c06.scalar_as(skind, dx_t), shift_arg=c06.scalar_as(skind, real_t(dx_t / 2)))
            except Exception as e:
                rec.violation("communicator-construction-raises", f"{type(e).__name__}: {e} dx={dxf} N={N} scalar type {skind}", None)
                rec.case(None)
                continue
            if first is None and role == "pool":
                first = comm
                c06.probe_excluded_layout(rec, rng, comm)
        shiftf = comm.shiftf  # the shift this communicator was actually built with: every reference below uses it
        off_origin = shiftf - float(real_t(dx_t / 2))  # marker sets are generated for the standard grid and moved with the grid origin
        if tier == "quick":
            nb = 30 if N >= 128 else 50
        else:
            nb = 150 if N >= 128 else 300
        if role == "bigN":
            nb = 6 if tier == "quick" else 20
        elif role != "pool":
            nb = max(10, nb // 4)
        off = int(rng.integers(len(MARKER_SETS)))
        hist_at = int(rng.integers(nb))  # one history of temporary views per object, somewhere between its batches
        for b in range(nb):
            kind = MARKER_SETS[(b + off) % len(MARKER_SETS)]
            if N == 1 and kind in ("duplicates",):
                kind = "uniform"
            shape = _shape(rng, d, nx, N, tier, c06.tall_class(b, d))
            if shape[-2] > shape[-1]:
                rec.count("batches_grid_y_exceeds_x")
            if d == 3 and shape[0] > shape[-1]:
                rec.count("batches_grid_z_exceeds_x")
            rec.count({"pool": "batches_pool_comm", "bigN": "batches_pool_comm", "sibling": "batches_sibling_comm_shared_dx_or_N", "first-again": "batches_first_comm_after_sibling",
                       "scalar-types": "batches_comm_built_with_other_scalar_types", "origin": "batches_grid_origin_not_half_a_cell"}[role.split(":")[0]])
            if role.startswith("origin:"):
                rec.count(c06.ORIGIN_COUNTER[role[7:]])
                rec.count(f"batches_grid_origin_{role[7:]}")
            if role == "scalar-types":
                rec.count(f"batches_dx_and_shift_passed_as_{c06.SCALAR_TYPES[sh['variant']]}")
            if N > 1024:
                rec.count(f"batches_more_than_1024_markers_{d}d")
            if N == d:
                rec.count("batches_N_equals_dim")
            dom = c06.make_domain(d, shape, x_range, real_t)
            P = marker_set(rng, kind, N, shape, dx_t, real_t, x_range, dom.position_field, rec)
            if role.startswith("origin:"):
                P = P + off_origin
            base = (d, sh["dtype"], kernel, c06.n_class(N), kind)
            meta = {"dim": d, "dtype": sh["dtype"], "kernel": kernel, "x_range": x_range, "shape": shape, "dx": dxf, "N": N, "markers": kind, "object": role}
            if role == "scalar-types":
                meta["dx_and_shift_passed_as"] = c06.SCALAR_TYPES[sh["variant"]]
            if role.startswith("origin:"):
                meta["eul_grid_coord_shift"] = shiftf
            layout = c06.batch_layout(b)
            comm.set_layout(rng, layout)
            if layout is not None:
                meta["layout"] = layout
                rec.count("batches_noncontiguous_array_arguments")
                rec.count(f"batches_layout_{layout}")
            _check_batch(rec, rng, comm, P, shape, dxf, shiftf, eps, base, meta, kernel, real_t)
            comm.flush_calls(rec)
            if b == hist_at:
                _history(rec, rng, comm, shape, dx_t, x_range, dom.position_field, off_origin, dxf, shiftf, eps, base[:4], {k: v for k, v in meta.items() if k != "layout"}, kernel, real_t)
        comm.set_layout(rng, None)


def _fld(rng, shape, kind, real_t, lead=()):
    a = util.field(rng, tuple(lead) + tuple(shape), kind, real_t)
    if not np.any(a):
        a.flat[int(rng.integers(a.size))] = 1.0
    return a


def _overwrite_model_explains(target, T0, W, Fs, tol, vector):
    """diagnosis only (after a mismatch): does 'window = F*w' in marker order reproduce the real output?"""
    T = T0.astype(np.float64).copy()
    for Fk in Fs:
        Fk = Fk.astype(np.float64)
        for m in range(W.shape[0]):
            mask = W[m] > 0
            if vector:
                for c in range(T.shape[0]):
                    T[c][mask] = Fk[c, m] * W[m][mask]
            else:
                T[mask] = Fk[m] * W[m][mask]
    return util.err_over_tol(target, T, tol) <= 1


class _Ref:
    """dense reference operators and noise floors of one marker set (the formulas of the module docstring)"""

    def __init__(self, P, shape, dxf, shiftf, eps, kernel):
        d, N = P.shape
        self.d, self.N, self.dxf, self.eps, self.vol = d, N, dxf, eps, dxf**d
        self.W = ib.dense_weights(P, shape, dxf, kernel, shiftf)  # (N, *grid)
        # cells a legitimate window may touch: |r_a| < 2.5 in every direction (covers floor and floor-1 windows);
        # only used to size the tolerances
        near = [(np.abs(ib.scaled_distances(P[d - 1 - ax], shape[ax], dxf, shiftf)) < 2.5).astype(np.float64) for ax in range(d)]
        self.S = np.einsum("mj,mi->mji", *near) if d == 2 else np.einsum("mk,mj,mi->mkji", *near)
        self.kap = c06.kappa(P, dxf)
        self.e_m = eps + EPS64 * self.kap
        self.wnoise = K_W * d * 0.5**d  # weight noise floor, in units of e_m / dx^d
        self.touch = ib.spread(self.S, np.ones(N))  # markers touching each cell
        self.n_max = float(self.touch.max())
        self.kdot = K_DOT * 4**d

    def interp(self, u):
        """(W u dx^d, its noise floor, W |u| dx^d) for a scalar (*grid) or vector (d, *grid) field"""
        absI = ib.interpolate(self.W, np.abs(u), self.dxf)
        ref = ib.interpolate(self.W, u, self.dxf)
        tol = self.kdot * self.eps * absI + self.wnoise * self.e_m * ib.interpolate(self.S, np.abs(u), self.dxf) / self.vol + 1e-300
        return ref, tol, absI

    def spread(self, T0, Fs):
        """(T0 + sum_k W^T F_k, its noise floor) for len(Fs) successive spreads into a target that held T0"""
        ns = len(Fs)
        Fsum = np.sum([f.astype(np.float64) for f in Fs], axis=0)
        Fabs = np.sum([np.abs(f.astype(np.float64)) for f in Fs], axis=0)
        ref = T0.astype(np.float64) + ib.spread(self.W, Fsum)
        A = ib.spread(self.W, Fabs)
        B = ib.spread(self.S, Fabs * self.e_m)
        tol = (K_ACC + 0.5 * ns * self.touch) * self.eps * (np.abs(T0.astype(np.float64)) + A) + self.wnoise * B / self.vol + 1e-300
        return ref, tol, Fsum


def _check_batch(rec, rng, comm, P, shape, dxf, shiftf, eps, base, meta, kernel, real_t):
    d, N = comm.d, comm.N
    vol = dxf**d
    try:
        idx, w = comm.weights(rng, P)
    except Exception as e:
        rec.violation("weights-raise", f"{type(e).__name__}: {e} {meta}", {"meta": meta, "P": P})
        rec.case(None)
        return
    wit = {"meta": meta, "P": P.copy(), "idx": idx.copy(), "w": w.copy()}
    if not comm.windows_inside(shape).all() or not np.all(np.isfinite(w)):
        rec.violation("support-window-outside-grid-or-nan-weights", f"index range {idx.min(axis=1)}..{idx.max(axis=1)} on grid {shape} {meta}", wit)
        rec.case(None)
        return
    R = _Ref(P, shape, dxf, shiftf, eps, kernel)
    W, S, kap, e_m, wnoise, touch, n_max, kdot = R.W, R.S, R.kap, R.e_m, R.wnoise, R.touch, R.n_max, R.kdot
    if n_max >= 64:
        rec.count("batches_with_64_or_more_markers_on_one_cell")

    # ---------------------------------------------------------------- interpolation == W u dx^d
    fk = str(rng.choice(FIELD_KINDS))
    u = _fld(rng, shape, fk, real_t)
    uv = np.stack([_fld(rng, shape, str(rng.choice(FIELD_KINDS)), real_t) for _ in range(d)])
    lag = lagv = None
    try:
        lag = comm.interp(rng, u)
        lagv = comm.interp(rng, uv, vector=True)
    except Exception as e:
        rec.violation("interpolation-raises", f"{type(e).__name__}: {e} {meta}", wit)
    ref, tol, absI = R.interp(u)
    refv, tolv, absIv = R.interp(uv)
    if lag is not None and lagv is not None:
        r = util.err_over_tol(lag, ref, tol)
        rec.stat("interp_vs_dense", r)
        rec.stat(f"interp_{meta['dtype']}_{d}d", r)
        rec.count("interp_values_vs_dense", N)
        rec.case((*base, fk, "interp"), sample={**meta, "field": fk, "err_over_tol": r})
        if r > 1:
            m = int(np.argmax(np.abs(lag.astype(np.float64) - ref) / tol)) if np.all(np.isfinite(lag)) else 0
            rec.violation("interp!=W u dx^d", f"marker {m} at {P[:, m]}: kernel {lag[m]} dense {ref[m]} err/tol {r:.3g} field {fk} {meta}", {**wit, "u": u})
        r = util.err_over_tol(lagv, refv, tolv)
        rec.stat("interp_vector_vs_dense", r)
        rec.count("interp_values_vs_dense", N * d)
        rec.count("vector_component_pairs_checked", d)
        rec.case((*base, "interp-vector"))
        if r > 1:
            mech = "interp(vector)!=W u dx^d"
            # does a permutation of components explain it?
            for perm in ((1, 0), (1, 0, 2), (2, 1, 0), (0, 2, 1), (1, 2, 0), (2, 0, 1)):
                if len(perm) == d and util.err_over_tol(lagv, refv[list(perm)], tolv[list(perm)]) <= 1:
                    mech = "interp(vector)-components-mixed-up"
            rec.violation(mech, f"marker 0 at {P[:, 0]}: kernel {lagv[:, 0]} dense {refv[:, 0]} err/tol {r:.3g} {meta}", {**wit, "u": uv})

    # ---------------------------------------------------------------- spreading == T0 + W^T F (accumulating)
    for vector in (False, True):
        lead = (d,) if vector else ()
        tag = "vector" if vector else "scalar"
        prefilled = rng.random() < 0.6
        T0 = util.field(rng, lead + tuple(shape), str(rng.choice(["noise", "big", "small", "int"])), real_t) if prefilled else np.zeros(lead + tuple(shape), real_t)
        target = comm.lay(rng, T0.copy())  # the kernel writes into this array (a non-contiguous view in the layout batches)
        ns = int(rng.integers(1, 6))
        Fs = []
        ok = True
        for k in range(ns):
            Fk = (rng.standard_normal(lead + (N,)) * 10.0 ** float(rng.uniform(-2, 2))).astype(real_t)
            if vector and rng.random() < 0.25:  # force along one axis only: the other grid components must stay
                keep = int(rng.integers(d))
                Fk[[c for c in range(d) if c != keep]] = 0
            Fs.append(Fk)
            try:
                comm.spread(target, Fk, vector=vector)
            except Exception as e:
                rec.violation("spreading-raises", f"{tag}: {type(e).__name__}: {e} {meta}", wit)
                ok = False
                break
        if not ok:
            continue
        target = np.ascontiguousarray(target)
        ref, tol, Fsum = R.spread(T0, Fs)
        r = util.err_over_tol(target, ref, tol)
        rec.stat(f"spread_{tag}_vs_dense", r)
        rec.stat(f"spread_{meta['dtype']}_{d}d", r)
        rec.count("spread_cells_vs_dense", target.size)
        if prefilled:
            rec.count("spreads_into_prefilled_target")
        if ns >= 2:
            rec.count("batches_with_2_to_5_successive_spreads")
        if vector:
            rec.count("vector_component_pairs_checked", d)
        rec.case((*base, tag, "prefilled" if prefilled else "zero", min(ns, 2), "spread"))
        if vector:
            # a force component that is exactly zero in every spread adds 0 * w to its grid component: values unchanged exactly
            for c in range(d):
                if all(not np.any(f[c]) for f in Fs):
                    rec.count("vector_spreads_with_exactly_zero_force_component")
                    if not np.array_equal(target[c], T0[c]):
                        loc = tuple(int(x[0]) for x in np.nonzero(~(target[c] == T0[c])))
                        rec.violation(
                            "spread(vector)-zero-force-component-changes-target",
                            f"force component {c} is exactly zero in all {ns} spreads but grid component {c} changed at cell {loc}: {float(T0[c][loc])!r} -> {float(target[c][loc])!r} {meta}",
                            {**wit, "T0": T0, "F": Fs},
                        )
        if r > 1:
            got = target.astype(np.float64)
            loc = np.unravel_index(int(np.argmax(np.where(np.isfinite(got), np.abs(got - ref) / tol, np.inf))), got.shape)
            mech = f"spread({tag})!=target+W^T F"
            if util.bits_equal(target, T0):
                mech = f"spread({tag})-left-target-unchanged"
            elif _overwrite_model_explains(target, T0, W, Fs, tol, vector):
                mech = f"spread({tag})-overwrites-instead-of-accumulating"
            elif vector:
                for perm in ((1, 0), (1, 0, 2), (2, 1, 0), (0, 2, 1), (1, 2, 0), (2, 0, 1)):
                    if len(perm) == d and util.err_over_tol(target, T0.astype(np.float64) + ib.spread(W, Fsum[list(perm)]), tol) <= 1:
                        mech = "spread(vector)-components-mixed-up"
            rec.violation(
                mech,
                f"cell {tuple(int(x) for x in loc)} (array order): kernel {got[loc]} expected {ref[loc]} (target before {float(T0[loc])}) "
                f"err/tol {r:.3g}; {ns} spreads, prefilled={prefilled}, max markers per cell {n_max:.0f} {meta}",
                {**wit, "T0": T0, "F": Fs},
            )

    # ------------------------------------------------- an exactly-zero marker force into a finite (sentinel-free) pre-filled target
    # every contribution is 0 * w with finite w: the field keeps its values exactly (compared by value: -0.0 + 0.0 is +0.0)
    for vector in (False, True):
        lead = (d,) if vector else ()
        tag = "vector" if vector else "scalar"
        T0 = util.field(rng, lead + tuple(shape), str(rng.choice(["noise", "big", "small", "int"])), real_t)
        target = comm.lay(rng, T0.copy())
        try:
            comm.spread(target, np.zeros(lead + (N,), real_t), vector=vector)
        except Exception as e:
            rec.violation("spreading-raises", f"{tag}, zero force: {type(e).__name__}: {e} {meta}", wit)
            continue
        target = np.ascontiguousarray(target)
        rec.count("zero_force_spreads_into_prefilled_target")
        rec.case((*base, tag, "spread-zero-force"))
        if not np.array_equal(target, T0):
            loc = tuple(int(x[0]) for x in np.nonzero(~(target == T0)))
            rec.violation(f"spread({tag})-of-zero-force-changes-target", f"cell {loc} (array order): {float(T0[loc])!r} -> {float(target[loc])!r} after spreading an all-zero marker force {meta}", {**wit, "T0": T0})

    # ------------------------------------------------- reference-free identities on the two real outputs
    for vector in (False, True):
        lead = (d,) if vector else ()
        tag = "vector" if vector else "scalar"
        lg = lagv if vector else lag
        if lg is None:
            continue
        uu = uv if vector else u
        aI = absIv if vector else absI
        Fm = (rng.standard_normal(lead + (N,)) * 10.0 ** float(rng.uniform(-2, 2))).astype(real_t)
        sf = comm.lay(rng, np.zeros(lead + tuple(shape), real_t))
        try:
            comm.spread(sf, Fm, vector=vector)
        except Exception as e:
            rec.violation("spreading-raises", f"{tag}: {type(e).__name__}: {e} {meta}", wit)
            continue
        sf = np.ascontiguousarray(sf)
        Fl = Fm.astype(LD)
        sfl = sf.astype(LD)
        acc = K_ACC + 0.5 * n_max
        # bilinear identity
        lhs = float((Fl * lg.astype(LD)).sum())
        rhs = float((sfl * uu.astype(LD)).sum() * LD(vol))
        # both sides use the SAME real weights, which differ from W by the weight noise floor (also in cells where W = 0)
        noise = wnoise * e_m * ib.interpolate(S, np.abs(uu), dxf) / vol
        tol = (kdot + acc) * eps * float((np.abs(Fm.astype(np.float64)) * (aI + noise)).sum()) + 1e-300
        r = abs(lhs - rhs) / tol if np.isfinite(lhs) and np.isfinite(rhs) else float("inf")
        rec.stat(f"bilinear_identity_{tag}", r)
        rec.count("bilinear_identities")
        rec.case((*base, tag, "bilinear"))
        if r > 1:
            rec.violation(f"bilinear-identity({tag})", f"sum F.(Iu) = {lhs!r}  sum (SF).u dx^d = {rhs!r}  err/tol {r:.3g} {meta}", {**wit, "u": uu, "F": Fm})
        # force integral
        Fa = np.abs(Fm.astype(np.float64))
        tsum = K_SUM * eps + K_SUM_KAPPA * EPS64 * kap
        tot_grid = (sfl.reshape(lead + (-1,)).sum(axis=-1) * LD(vol)).astype(np.float64)
        tot_mark = Fl.sum(axis=-1).astype(np.float64)
        tol = (Fa * (acc * eps + tsum)).sum(axis=-1) + 1e-300
        r = float(np.max(np.abs(tot_grid - tot_mark) / tol)) if np.all(np.isfinite(tot_grid)) else float("inf")
        rec.stat(f"force_integral_{tag}", r)
        rec.count("force_integrals", d if vector else 1)
        rec.case((*base, tag, "force-integral"))
        if r > 1:
            rec.violation(f"force-integral({tag})!=total-marker-force", f"grid integral {tot_grid} marker total {tot_mark} err/tol {r:.3g} {meta}", {**wit, "F": Fm})
        # Peskin: first-moment tensor about a random point
        if kernel == "peskin":
            p = np.array([rng.uniform(0, shape[d - 1 - a] * dxf) for a in range(d)])
            worst = 0.0
            Mg = np.zeros((d,) + ((d,) if vector else ()))
            Mm = np.zeros_like(Mg)
            for a in range(d):
                xc = ib.cell_centres(shape[d - 1 - a], dxf, shiftf).astype(LD) - LD(p[a])
                bshape = [1] * d
                bshape[d - 1 - a] = -1
                arm_grid = xc.reshape(bshape)
                arm_mark = P[a].astype(LD) - LD(p[a])
                mg = ((sfl * arm_grid).reshape(lead + (-1,)).sum(axis=-1) * LD(vol)).astype(np.float64)
                mm = (Fl * arm_mark).sum(axis=-1).astype(np.float64)
                arm = np.abs(arm_mark.astype(np.float64)) + 2 * dxf
                tol = (Fa * (arm * (acc * eps + tsum) + K_M1 * e_m * dxf)).sum(axis=-1) + 1e-300
                rr = float(np.max(np.abs(mg - mm) / tol)) if np.all(np.isfinite(mg)) else float("inf")
                worst = max(worst, rr)
                Mg[a], Mm[a] = mg, mm
            rec.stat(f"first_moment_{tag}", worst)
            rec.count("first_moment_tensor_entries", d * (d if vector else 1))
            rec.case((*base, tag, "first-moment"))
            if vector:
                rec.count("torque_components_checked", 1 if d == 2 else 3)
            if worst > 1:
                msg = f"first-moment tensor grid {Mg.tolist()} markers {Mm.tolist()} about p={p} err/tol {worst:.3g}"
                if vector:
                    tq = (lambda M: [M[0, 1] - M[1, 0]] if d == 2 else [M[1, 2] - M[2, 1], M[2, 0] - M[0, 2], M[0, 1] - M[1, 0]])
                    msg += f"; torque grid {tq(Mg)} markers {tq(Mm)}"
                rec.violation(f"peskin-first-moment({tag})-not-preserved", f"{msg} {meta}", {**wit, "F": Fm, "p": p})


def _history(rec, rng, comm, shape, dx_t, x_range, pf, off_origin, dxf, shiftf, eps, base4, meta, kernel, real_t):
    """K calls of every kernel of ONE communicator in a tight loop in which every array argument is a TEMPORARY view ``stack[name][k]`` of
    different memory (marker sets, index/support/weight buffers, fields, outputs, pre-filled targets, forces: the view objects die after
    each call and CPython hands their id() to the next ones); afterwards every slot is compared with the dense reference at the module's
    tolerances."""
    d, N = comm.d, comm.N
    K = 3 if N >= 128 else int(rng.integers(3, 7))
    kinds = [MARKER_SETS[int(i)] for i in rng.permutation(len(MARKER_SETS))][:K] + ["uniform"] * max(0, K - len(MARKER_SETS))
    kinds = ["uniform" if (N == 1 and k == "duplicates") else k for k in kinds]
    sh_ = tuple(shape)
    S = {
        "P": np.stack([marker_set(rng, k, N, shape, dx_t, real_t, x_range, pf, rec) + off_origin for k in kinds]),
        "idx": np.full((K, d, N), -(2**40), dtype=int),
        "sup": util.sentinel_like(rng, (K,) + comm._bufs[None][1].shape, real_t).copy(),
        "w": util.sentinel_like(rng, (K,) + comm._bufs[None][2].shape, real_t).copy(),
        "u": np.stack([_fld(rng, shape, str(rng.choice(FIELD_KINDS)), real_t) for _ in range(K)]),
        "uv": np.stack([np.stack([_fld(rng, shape, str(rng.choice(FIELD_KINDS)), real_t) for _ in range(d)]) for _ in range(K)]),
        "lag": util.sentinel_like(rng, (K, N), real_t).copy(),
        "lagv": util.sentinel_like(rng, (K, d, N), real_t).copy(),
        "T": np.stack([util.field(rng, sh_, str(rng.choice(["noise", "big", "small", "int"])), real_t) for _ in range(K)]),
        "Tv": np.stack([util.field(rng, (d,) + sh_, str(rng.choice(["noise", "big", "small", "int"])), real_t) for _ in range(K)]),
        "F": np.stack([(rng.standard_normal(N) * 10.0 ** float(rng.uniform(-2, 2))).astype(real_t) for _ in range(K)]),
        "Fv": np.stack([(rng.standard_normal((d, N)) * 10.0 ** float(rng.uniform(-2, 2))).astype(real_t) for _ in range(K)]),
    }
    before = {n: S[n].copy() for n in ("P", "u", "uv", "T", "Tv", "F", "Fv")}
    sc, vc = comm.scalar, comm.vector
    try:
        for k in range(K):
            sc.local_eulerian_grid_support_of_lagrangian_grid_kernel(
                local_eul_grid_support_of_lag_grid=S["sup"][k], nearest_eul_grid_index_to_lag_grid=S["idx"][k], lag_positions=S["P"][k]
            )
            sc.interpolation_weights_kernel(interp_weights=S["w"][k], local_eul_grid_support_of_lag_grid=S["sup"][k])
            sc.eulerian_to_lagrangian_grid_interpolation_kernel(
                lag_grid_field=S["lag"][k], eul_grid_field=S["u"][k], interp_weights=S["w"][k], nearest_eul_grid_index_to_lag_grid=S["idx"][k]
            )
            vc.eulerian_to_lagrangian_grid_interpolation_kernel(
                lag_grid_field=S["lagv"][k], eul_grid_field=S["uv"][k], interp_weights=S["w"][k], nearest_eul_grid_index_to_lag_grid=S["idx"][k]
            )
            sc.lagrangian_to_eulerian_grid_interpolation_kernel(
                eul_grid_field=S["T"][k], lag_grid_field=S["F"][k], interp_weights=S["w"][k], nearest_eul_grid_index_to_lag_grid=S["idx"][k]
            )
            vc.lagrangian_to_eulerian_grid_interpolation_kernel(
                eul_grid_field=S["Tv"][k], lag_grid_field=S["Fv"][k], interp_weights=S["w"][k], nearest_eul_grid_index_to_lag_grid=S["idx"][k]
            )
    except Exception as e:
        rec.violation("history-of-temporary-views-raises", f"{type(e).__name__}: {e} call {k + 1} of {K} {meta}", {"meta": meta, "P": before["P"]})
        rec.case(None)
        return
    rec.count("histories_of_temporary_view_arguments")
    rec.count("kernel_calls_with_temporary_view_arguments", 6 * K)
    for n in ("P", "u", "uv", "F", "Fv"):
        if not util.bits_equal(S[n], before[n]):
            rec.violation("kernel-input-modified", f"argument stack {n!r} changed during the history {meta}", {"meta": meta})
    for k in range(K):
        P = before["P"][k]
        m = {**meta, "markers": kinds[k], "history": f"call {k + 1} of {K} with temporary views stack[name][k] of different memory"}
        wit = {"meta": m, "P": P, "idx": S["idx"][k].copy(), "w": S["w"][k].copy()}
        comm.adopt(S["idx"][k], S["sup"][k], S["w"][k])
        inside = comm.windows_inside(shape).all()
        comm.set_layout(rng, None)
        if not inside or not np.all(np.isfinite(S["w"][k])):
            rec.violation("support-window-outside-grid-or-nan-weights", f"index range {S['idx'][k].min(axis=1)}..{S['idx'][k].max(axis=1)} on grid {shape} {m}", wit)
            rec.case(None)
            continue
        R = _Ref(P, shape, dxf, shiftf, eps, kernel)
        for tag, got, fld in (("", S["lag"][k], before["u"][k]), ("(vector)", S["lagv"][k], before["uv"][k])):
            ref, tol, _ = R.interp(fld)
            r = util.err_over_tol(got, ref, tol)
            rec.stat("interp_vector_vs_dense" if tag else "interp_vs_dense", r)
            rec.count("interp_values_vs_dense", got.size)
            if r > 1:
                rec.violation(f"interp{tag}!=W u dx^d", f"kernel {got[..., 0]} dense {ref[..., 0]} (marker 0 at {P[:, 0]}) err/tol {r:.3g} {m}", {**wit, "u": fld})
        for tag, got, T0, F in (("scalar", S["T"][k], before["T"][k], before["F"][k]), ("vector", S["Tv"][k], before["Tv"][k], before["Fv"][k])):
            ref, tol, _ = R.spread(T0, [F])
            r = util.err_over_tol(got, ref, tol)
            rec.stat(f"spread_{tag}_vs_dense", r)
            rec.count("spread_cells_vs_dense", got.size)
            if r > 1:
                gotf = got.astype(np.float64)
                loc = np.unravel_index(int(np.argmax(np.where(np.isfinite(gotf), np.abs(gotf - ref) / tol, np.inf))), gotf.shape)
                mech = f"spread({tag})-left-target-unchanged" if util.bits_equal(got, T0) else f"spread({tag})!=target+W^T F"
                rec.violation(mech, f"cell {tuple(int(x) for x in loc)} (array order): kernel {gotf[loc]} expected {ref[loc]} (target before {float(T0[loc])}) err/tol {r:.3g} {m}", {**wit, "T0": T0, "F": [F]})
        rec.count("history_slots_compared")
        rec.case((*base4, kinds[k], "temporary-view-history"), sample=m)
