"""C08 -- action equals reaction between every immersed body and the fluid (DESIGN §4 C08).

Oracle: wrench bookkeeping in float64 from PUBLIC arrays only (``rv.bodies.wrench_residuals``): the nodal
forces / element couples a grid hands to PyElastica (``transfer_forcing_from_grid_to_body``), rotated to the
lab frame with ``Q_e^T``, plus the marker forces at ``position_field`` must have zero net force, zero net
moment about a random point (rigid bodies and off-node rod grids; z-component only in 2-D) and -- rigid
bodies -- zero net power with the markers moving at ``velocity_field``.  Nodal rod grids: net force only,
as the property says.  Full interaction (``__call__`` + ``compute_flow_forces_and_torques``): grid integral of
the Eulerian forcing equals the marker total and cancels the body force; ``FlowForces.apply_forces`` adds.

Tolerance: 64 * eps64 * (sum of |terms|); positions carry their own rounding (x_m = fl(X + r_m)), so moment arms
are bounded by |x| + |P|.  Measured max err/tol on the unchanged tree (quick seeds 0..5, thorough seeds 0,1):
force 0.033, moment 0.071, power 0.031, grid integral vs marker total 0.029, grid integral + body force 0.029,
apply_forces 0 (exact).

Workload diversity (added after the seeded-change campaign): ``transfer_forcing_from_grid_to_body`` is called alternately
with keyword and positional arguments; every body also gets a float32 marker-force field (tolerance 64 * eps32 * sum|terms|,
the precision of that input); grids with N == dim markers and 2-element rods are counted and required; every third full
interaction runs on a box with y (and z) extent > x extent.  Every second body is CHANGED after its grid was built (rods
stretched / compressed per element 0.7..1.4 => rod.radius rescaled by PyElastica, new velocities; rigid bodies a new centre
and director frame) and the SAME grid object, refreshed as every interaction does, must still balance force and moment for a
gaussian (non-uniform around the circumference) force field; 2-D bodies with d3 = -z and non-zero spin are required.  Not added: a sibling interaction with another dx (each new
(dx, N) pair costs ~25 s of numba compilation in 3-D; C06/C07/C10 own that dimension).

Self-test of the added dimension: surface grid whose ``transfer_forcing_from_grid_to_body`` uses the moment arms of its FIRST
call (sed, stale cache) -> VIOLATION moment-balance|surface3d on 'gauss-after-body-change' and on the one-hot fields after the
change.  Control: a surface grid that caches rod.radius at construction CONSISTENTLY (positions and moment arms both stale)
stays HELD here -- the balance is stated for the marker positions the grid publishes; that change is C09's
(marker-distance-from-element-centre|surface3d).

Observed sign convention (matches the property text): ``lag_grid_forcing_field`` F_m is the force ON THE FLUID; it is
spread to the Eulerian forcing field (sum_c f_c dx^d = sum_m F_m) and the body receives -F_m.

Not demanded (and known not to hold): moment balance of the NODAL rod grid.  Its nodal forces -F_k already carry the
whole moment; the additional element couples it returns make the total moment residual equal to the sum of those
couples (generally non-zero).  Mutating those couples (sign flip of the end correction, l.55) leaves this check HELD.

Self-test: ``tools/mut.sh --sed <expr> <file> C08`` (quick tier, seed 0).  23 mutations -> VIOLATION, 1 (outside the
property, see above) -> HELD as intended.
  cosserat_rod_forcing_grids.py
    nodal: missing minus sign (l.43 `= -lag` -> `= lag`)                        force-balance|nodal3d, nodal2d
    elem: 0.5/0.5 split -> 0.6/0.4 (l.120-121)                                  moment-balance|elem3d, elem2d (net force still balances)
    elem: one half -> 0.6 (l.120)                                               force-balance|elem3d
    edge: right-edge arm sign (l.270 `-self.moment_arm` -> `self.moment_arm`)   moment-balance|edge2d
    edge: couples rotated with Q^T instead of Q (l.281)                         moment-balance|edge2d (rolled directors)
    edge: minus dropped for centre-marker force on one node (l.253)             force-balance|edge2d
    surface: couple sign (l.489 `-lag` -> `lag`)                                moment-balance|surface3d, surfacecap3d
    surface: Q -> Q^T (l.494)                                                   moment-balance|surface3d
    surface: last (cap) marker of each element left out of the couple (l.495)   moment-balance|surface3d, one-hot
    surface: last (cap) marker of each element left out of the force (l.482)    force-balance|surface3d, one-hot
    surface: split 0.5/0.4 (l.485)                                              force-balance|surface3d
    surface: element centre taken at node i (l.412, arm from the wrong centre)  moment-balance|surface3d
    surface: arm scaled by 0.9 in the couple (l.489)                            moment-balance|surface3d
    nodal: sign of the end-element couple correction (l.55)                     HELD (nodal couples are outside the property)
  rigid_body_forcing_grids.py
    3-D: torque sign (l.163)                                                    moment-balance|plane3d..., power-balance
    3-D: Q -> Q^T (l.164)                                                       moment-balance|plane3d, cyl3d, generic3d
    3-D: force sign (l.160)                                                     force-balance|plane3d...
    2-D: Q[2,2] factor of the torque dropped (l.72, z handling)                 moment-balance|generic2d, cyl2d (d3 = -z poses only)
    2-D: force sign (l.66)                                                      force-balance|cyl2d
    2-D: sign of the r_x F_y term (l.73)                                        moment-balance|cyl2d
  flow_forces.py
    `external_forces +=` -> `[...] =`                                           apply-forces-not-additive
    `external_torques +=` -> `[...] =`                                          apply-forces-not-additive
  numeric/immersed_boundary_ops/VirtualBoundaryForcing.py
    spread 0.5 * F to the grid but transfer F to the body                       grid-integral!=sum(F), fluid+body-force!=0
"""
import numpy as np

from .. import bodies, util

ID = "C08"
LEVEL = "exploration"
TITLE = "Action equals reaction between every immersed body and the fluid"
RULE = (
    "random bodies of every forcing-grid kind (4 rod grids in 2-D/3-D where defined, surface grid with and "
    "without caps, densities 3..24, tapers that collapse elements to one centre marker; 2-D/3-D cylinder, "
    "sphere, plane and the constructible generic rigid base grids) in random poses (QR rotations, helical / "
    "curved centre lines, per-element random directors, 2-D bodies with d3 = +-z), random V and omega; marker "
    "force fields: gaussian (scales 1e-2..1e3), uniform, one-hot per marker (first, last, cap and centre "
    "markers plus random ones), a second transfer into the same output arrays, and the field produced by a "
    "real flow interaction against a random flow.  A case is non-trivial if the force field is non-zero; "
    "distinct = (kind, taper | centre line | pose class, force-field class, sub-check)."
)
ASSUMPTIONS = [
    "PyElastica convention: director rows are the body axes, so couples are rotated to the lab frame with Q^T; nodal forces act at node positions, rigid-body force at position_collection",
    "body_flow_forces / body_flow_torques start from zeros, as the interaction classes allocate them (components a 2-D grid never writes stay zero)",
    "2-D bodies lie in the plane z = 0 with angular velocity along z; in 2-D only the z-component of the moment is compared",
    "tolerance 64*eps64*(sum of |arm||F| terms incl. |x|+|P| for the position rounding); interaction objects in float64",
    "full interaction: all markers >= 3 cells inside the Eulerian box (delta support inside the grid)",
]
TECHNIQUE = "runtime monitoring: conservation invariants (net force, moment, power, grid integral) evaluated on the public arrays of the real objects"
REQUIRE = {
    "moment_checks": 100,
    "power_checks": 50,
    "nodal_force_only_checks": 5,
    "onehot_cap_markers": 1,
    "onehot_centre_markers": 1,
    "grids_with_collapsed_elements": 1,
    "bodies_2d_d3_flipped": 1,
    "second_transfer_checks": 20,
    "interactions": 10,
    "apply_forces_checks": 8,
    "grid_integral_checks": 10,
    "rod_bodies_changed_after_grid_construction": 200,
    "radius_dependent_grids_after_radius_change_gt_5pct": 50,
    "rigid_bodies_reposed_after_grid_construction": 200,
    "transfers_after_body_change": 400,
    "bodies_2d_d3_flipped_with_nonzero_spin": 20,
    "moment_checks_2d_d3_flipped": 50,
    "transfers_keyword_arguments": 1000,
    "transfers_positional_arguments": 1000,
    "float32_marker_force_transfers": 500,
    "grids_with_N_equal_dim": 3,
    "rods_with_2_elements": 5,
    "interactions_on_tall_grid": 10,
}
K = 64.0
EPS = float(np.finfo(np.float64).eps)


def shards(tier, seed):
    nb = 12 if tier == "quick" else 36
    out = [{"name": f"bodies{i}", "mode": "bodies", "idx": i, "nshards": nb} for i in range(nb)]
    reps = 1 if tier == "quick" else 3
    for r in range(reps):
        out.append({"name": f"ix2d-N12-{r}", "mode": "ix", "dim": 2, "N": 12, "idx": r})
        out.append({"name": f"ix3d-N24-{r}", "mode": "ix", "dim": 3, "N": 24, "idx": r})
        out.append({"name": f"ix3d-N18-{r}", "mode": "ix", "dim": 3, "N": 18, "idx": r})
    return out


# ------------------------------------------------------------------------------------------------
def _check_wrench(rec, case, bf, bt, F, P, fkind, cls_extra, witness_extra=None, eps=None):
    """evaluate the balances the property demands for this grid kind; ``eps``: unit round-off of the marker-force array
    when it is not float64 (a float32 interaction hands float32 marker forces to the float64 body arrays)"""
    EPS = eps if eps is not None else globals()["EPS"]
    kind = case.kind
    r = bodies.wrench_residuals(case, bf, bt, F, P)
    wit = {"meta": case.meta, "fkind": fkind, "F": np.array(F), "P": np.array(P), "body_forces": np.array(bf), "body_torques": np.array(bt),
           "position_field": case.grid.position_field.copy(), "directors": np.array(case.body.director_collection),
           "body_positions": np.array(case.body.position_collection)}
    if witness_extra:
        wit.update(witness_extra)
    tolF = K * EPS * r["force_scale"] + 1e-300
    ef = float(np.max(np.abs(r["force"]))) / tolF
    rec.stat("force", ef); rec.stat(f"force_{kind}", ef)
    rec.count("force_checks")
    if not ef <= 1:
        rec.violation(f"force-balance|{kind}", f"sum body forces + sum marker forces = {r['force']} (err/tol={ef:.3g}) F={fkind} {case.meta}", wit)
    if kind in ("nodal2d", "nodal3d"):
        rec.count("nodal_force_only_checks")
    else:
        tolM = K * EPS * r["moment_scale"] + 1e-300
        m = r["moment"][2:] if case.dim == 2 else r["moment"]
        em = float(np.max(np.abs(m))) / tolM
        rec.stat("moment", em); rec.stat(f"moment_{kind}", em)
        rec.count("moment_checks")
        if not em <= 1:
            rec.violation(f"moment-balance|{kind}", f"net moment about P of nodal forces + lab-frame couples + marker forces = {r['moment']} (err/tol={em:.3g}) F={fkind} {case.meta}", wit)
    if case.family == "rigid":
        tolP = K * EPS * r["power_scale"] + 1e-300
        ep = abs(r["power"]) / tolP
        rec.stat("power", ep); rec.stat(f"power_{kind}", ep)
        rec.count("power_checks")
        if not ep <= 1:
            rec.violation(f"power-balance|{kind}", f"F_body.V + T.Omega + sum F_m.v_m = {r['power']} (err/tol={ep:.3g}) F={fkind} {case.meta}", wit)
    rec.case((kind, *cls_extra, fkind), sample={**{k: v for k, v in case.meta.items() if k != "shape"}, "force_field": fkind, "force_err_over_tol": ef})


def _zeros_out(case):
    nn = case.body.position_collection.shape[1]
    ne = case.body.director_collection.shape[2]
    return np.zeros((3, nn)), np.zeros((3, ne))


_NTRANSFER = [0]


def _transfer(rec, case, bf, bt, F):
    F0 = F.copy()
    _NTRANSFER[0] += 1
    try:
        if _NTRANSFER[0] % 2:
            case.grid.transfer_forcing_from_grid_to_body(body_flow_forces=bf, body_flow_torques=bt, lag_grid_forcing_field=F)
            rec.count("transfers_keyword_arguments")
        else:  # documented order (body_flow_forces, body_flow_torques, lag_grid_forcing_field)
            case.grid.transfer_forcing_from_grid_to_body(bf, bt, F)
            rec.count("transfers_positional_arguments")
    except Exception as e:  # SophT raising on an admissible input
        rec.violation(f"transfer-raises|{case.kind}", f"{type(e).__name__}: {e} {case.meta}", {"meta": case.meta, "F": F0})
        return False
    rec.count("transfers")
    if not util.bits_equal(F, F0):
        rec.violation(f"transfer-modifies-marker-forces|{case.kind}", f"{case.meta}", {"meta": case.meta})
    return True


def _pose_class(case):
    m = case.meta
    if case.family == "rod":
        return (m.get("taper"), m.get("centreline"), "n<=4" if m["n_elems"] <= 4 else "n>4")
    return ("flipped" if m.get("flipped") else "pose",)


def _run_bodies(sh, rec):
    tier, seed = sh["tier"], sh["seed"]
    rng = util.rng_for(seed, ID, "bodies", sh["idx"])
    ncase = 250 if tier == "quick" else 1500
    kinds = bodies.ALL_KINDS
    for j in range(ncase):
        kind = kinds[(sh["idx"] + j * 5) % len(kinds)] if j % 3 else str(rng.choice(kinds))
        opts = {}
        if kind in bodies.ROD_KINDS and j % 7 == 0:
            opts["n_elems"] = int(rng.choice([2, 3, 24]))
        if kind in ("surface3d", "surfacecap3d") and j % 4 == 0:
            opts["taper"] = str(rng.choice(["steep", "bulge"]))
        case = bodies.make_case(rng, kind, **opts)
        g, body = case.grid, case.body
        bodies.refresh_grid(g)
        sib = None
        if j % 3 == 1:
            # a SECOND live grid of the same class with the same structural arguments (element count, density / marker number) around
            # ANOTHER body is built and updated between this grid's own update and its transfers (a carpet of equal rods evaluated
            # in turn): per-grid state (moment arms, cached frames) must belong to the grid, not to a pool shared by equal sizes
            try:
                sib = bodies.make_case(rng, kind, **{k: case.meta[k] for k in ("n_elems", "density", "num") if k in case.meta})
                bodies.refresh_grid(sib.grid)
                rec.count("grids_evaluated_after_update_of_a_sibling_grid")
            except Exception as e:
                rec.note(f"sibling grid failed: {type(e).__name__}: {e}")
        N, dim = g.num_lag_nodes, case.dim
        rec.count("bodies"); rec.count(f"bodies_{kind}")
        if dim == 2 and case.family == "rigid" and body.director_collection[2, 2, 0] < 0:
            case.meta["flipped"] = True
            rec.count("bodies_2d_d3_flipped")
        el = role = None
        if case.family == "rod" and kind not in ("nodal2d", "nodal3d"):
            el, role = bodies.marker_elements(case)
        if kind in ("surface3d", "surfacecap3d"):
            ncol = int(np.sum(role == "centre"))
            if ncol:
                rec.count("grids_with_collapsed_elements")
            case.meta["collapsed"] = ncol
        pc = _pose_class(case)
        P = rng.standard_normal(3) * float(rng.choice([0.5, 5.0]))
        if dim == 2:
            P[2] = 0.0
        if N == 0:
            rec.case(None)
            continue
        if N == dim:
            rec.count("grids_with_N_equal_dim")
        if case.family == "rod" and body.n_elems == 2:
            rec.count("rods_with_2_elements")

        # (a) gaussian / uniform force fields, then a second transfer into the SAME output arrays
        bf, bt = _zeros_out(case)
        for rep, fkind in enumerate(("gauss", "uniform", "gauss2")):
            if fkind == "uniform":
                F = np.repeat(rng.standard_normal((dim, 1)), N, axis=1) * 10 ** rng.uniform(-2, 3)
            else:
                F = rng.standard_normal((dim, N)) * 10 ** rng.uniform(-2, 3)
            F = np.ascontiguousarray(F)
            if not _transfer(rec, case, bf, bt, F):
                break
            rec.count("markers_forced", N)
            if rep:
                rec.count("second_transfer_checks")
            if case.meta.get("flipped"):
                rec.count("moment_checks_2d_d3_flipped")
            _check_wrench(rec, case, bf, bt, F, P, fkind if rep < 2 else "second-transfer", pc)
        else:
            # mixed precision: float32 marker forces (what a real_t=float32 interaction holds) into the float64 body arrays
            F = np.ascontiguousarray((rng.standard_normal((dim, N)) * 10 ** rng.uniform(-2, 3)).astype(np.float32))
            if _transfer(rec, case, bf, bt, F):
                rec.count("float32_marker_force_transfers")
                _check_wrench(rec, case, bf, bt, F, P, "gauss-float32", pc, eps=float(np.finfo(np.float32).eps))

        flipped_spin = bool(case.meta.get("flipped")) and body.omega_collection[2, 0] != 0
        if flipped_spin:
            rec.count("bodies_2d_d3_flipped_with_nonzero_spin")
        # (a') the BODY changes under the SAME grid object (a grid that cached geometry at construction is stale): rods are
        # stretched / compressed per element along their tangents (PyElastica rescales rod.radius per element) and get new
        # velocities; rigid bodies get a new centre, director frame and velocities.  The grid is refreshed the way every
        # interaction does (position, then velocity); the force field is gaussian, i.e. non-uniform around the circumference.
        if j % 2 == 1:
            if j % 4 == 1 and bodies.rebind_arrays(body):
                # finalize()-like: array attributes of the body rebound to other array objects (same values) after grid construction
                rec.count("bodies_with_arrays_rebound_like_finalize")
            if case.family == "rod":
                r_before = np.array(body.radius)
                bodies.stretch_rod(body, rng)
                bodies.set_rod_velocities(body, rng, dim)
                rchg = float(np.max(np.abs(np.array(body.radius) / r_before - 1.0)))
                rec.count("rod_bodies_changed_after_grid_construction")
                if kind in ("surface3d", "surfacecap3d", "edge2d") and rchg > 0.05:
                    rec.count("radius_dependent_grids_after_radius_change_gt_5pct")
            else:
                bodies.set_rigid_state(body, rng, dim)
                if dim == 2:
                    case.meta["flipped"] = bool(body.director_collection[2, 2, 0] < 0)
                rec.count("rigid_bodies_reposed_after_grid_construction")
            try:
                bodies.refresh_grid(g)
                changed_ok = True
            except Exception as e:
                rec.violation(f"grid-update-raises|{kind}", f"{type(e).__name__}: {e} {case.meta}", {"meta": case.meta})
                changed_ok = False
            if changed_ok:
                bf, bt = _zeros_out(case)
                F = np.ascontiguousarray(rng.standard_normal((dim, N)) * 10 ** rng.uniform(-2, 3))
                if _transfer(rec, case, bf, bt, F):
                    rec.count("transfers_after_body_change")
                    if case.meta.get("flipped"):
                        rec.count("moment_checks_2d_d3_flipped")
                    _check_wrench(rec, case, bf, bt, F, P, "gauss-after-body-change", pc)

        # (b) one-hot fields: every marker class must reach the body on its own
        picks = {0, N - 1, *(int(i) for i in rng.integers(0, N, size=min(N, 5)))}
        if kind in ("surface3d", "surfacecap3d"):
            ratio = np.asarray(g.grid_point_radius_ratio)
            inner = np.flatnonzero(ratio < 1.0)
            if inner.size:
                picks.update(int(i) for i in rng.choice(inner, size=min(3, inner.size), replace=False))
                picks.update((int(inner[0]), int(inner[-1])))
            cen = np.flatnonzero(role == "centre")
            if cen.size:
                picks.add(int(rng.choice(cen)))
        if kind == "edge2d":
            n = body.n_elems
            picks.update((n, 2 * n, int(n + rng.integers(n)), int(2 * n + rng.integers(n))))
        for m in sorted(picks):
            F = np.zeros((dim, N))
            c = int(rng.integers(dim))
            F[c, m] = float(rng.choice([1.0, -2.5, 300.0]))
            bf, bt = _zeros_out(case)
            if not _transfer(rec, case, bf, bt, F):
                break
            rec.count("onehot_markers")
            if kind in ("surface3d", "surfacecap3d"):
                if g.grid_point_radius_ratio[m] < 1.0:
                    rec.count("onehot_cap_markers")
                if role[m] == "centre":
                    rec.count("onehot_centre_markers")
            _check_wrench(rec, case, bf, bt, F, P, "onehot", pc, {"marker": m})


# ------------------------------------------------------------------------------------------------
def _run_ix(sh, rec):
    import sopht.simulator as sps

    tier, seed = sh["tier"], sh["seed"]
    dim, N = sh["dim"], sh["N"]
    rng = util.rng_for(seed, ID, "ix", dim, N, sh["idx"])
    nrep = 6 if tier == "quick" else 16
    for kind in bodies.ix_kinds(dim, N):
        for rep in range(nrep):
            reset = (rep % 4 == 3)
            # every third interaction on a box whose y (and z) extent exceeds the x extent (same dx and N: no new closures)
            pool = bodies.IX_POOL[dim]
            saved_other = pool["other"]
            if rep % 3 == 2:
                pool["other"] = (44, 48) if dim == 2 else (26, 28)
            try:
                lay = (None, None, "interior", None, "fortran", None)[rep % 6]
                case = bodies.make_interaction_case(rng, kind, N, reset=reset, field_layout=lay)
                if lay:
                    rec.count("interactions_on_noncontiguous_eulerian_fields")
            finally:
                pool["other"] = saved_other
            if case.meta["shape"][-2] > case.meta["shape"][-1]:
                rec.count("interactions_on_tall_grid")
            it, f, u, dx = case.it, case.eul_force, case.eul_vel, case.dx
            body = case.body
            meta = case.meta
            try:
                it()  # velocity mismatch of the first visit
                it.time_step(float(10 ** rng.uniform(-4, -2)))  # => non-zero position-mismatch integral
                if rep % 2:
                    # the body moves on and the flow changes, as in a real simulation
                    if case.family == "rod":
                        bodies.set_rod_velocities(body, rng, dim)
                    else:
                        bodies.set_rigid_state(body, rng, dim, centre=body.position_collection[:, 0].copy(), keep_directors=True)
                    u[...] = rng.standard_normal(u.shape)
                if reset:
                    f[...] = rng.standard_normal(f.shape) * 100.0  # must be wiped by the reset variant
                else:
                    f[...] = 0.0
                it()
                it.compute_flow_forces_and_torques()
            except Exception as e:
                rec.violation(f"interaction-raises|{kind}", f"{type(e).__name__}: {e} {meta}", {"meta": meta})
                rec.case(None)
                continue
            rec.count("interactions"); rec.count(f"interactions_{kind}")
            F = np.array(it.lag_grid_forcing_field, np.float64)
            if not np.any(F):
                rec.inconclusive_(f"interaction produced a zero marker force field {meta}")
                continue
            sumF = F.sum(axis=1)
            absF = float(np.abs(F).sum())
            integral = f.astype(np.float64).sum(axis=tuple(range(1, dim + 1))) * dx**dim
            tol = K * EPS * absF + 1e-300
            e1 = float(np.max(np.abs(integral - sumF))) / tol
            rec.stat("grid_integral_vs_markers", e1)
            rec.count("grid_integral_checks")
            wit = {"meta": meta, "F": F, "integral": integral, "body_forces": np.array(it.body_flow_forces), "position_field": case.grid.position_field.copy()}
            if not e1 <= 1:
                rec.violation("grid-integral!=sum(F)", f"sum_c f_c dx^d = {integral}, sum_m F_m = {sumF} (err/tol={e1:.3g}) {meta}", wit)
            bsum = np.asarray(it.body_flow_forces, np.float64).sum(axis=1)
            i3 = np.zeros(3); i3[:dim] = integral
            e2 = float(np.max(np.abs(i3 + bsum))) / tol
            rec.stat("grid_integral_plus_body_force", e2)
            if not e2 <= 1:
                rec.violation(f"fluid+body-force!=0|{kind}", f"grid integral {i3} + body force {bsum} (err/tol={e2:.3g}) {meta}", wit)
            P = rng.standard_normal(3) * 0.5
            if dim == 2:
                P[2] = 0.0
            _check_wrench(rec, case, it.body_flow_forces, it.body_flow_torques, F, P, "interaction" + ("-reset" if reset else ""), _pose_class(case))

            # FlowForces.apply_forces must ADD the wrench to whatever the system already carries
            if not hasattr(body, "external_forces"):
                rec.count("apply_forces_skipped_no_external_arrays")
                continue
            ff = sps.FlowForces(it)
            e0 = rng.standard_normal(body.external_forces.shape) * 10 ** rng.uniform(-1, 2)
            t0 = rng.standard_normal(body.external_torques.shape) * 10 ** rng.uniform(-1, 2)
            body.external_forces[...] = e0
            body.external_torques[...] = t0
            try:
                ff.apply_forces(body, 0.0)
                bf1, bt1 = np.array(it.body_flow_forces), np.array(it.body_flow_torques)
                ef1, et1 = np.array(body.external_forces), np.array(body.external_torques)
                ff.apply_forces(body, 0.0)
            except Exception as e:
                rec.violation(f"apply_forces-raises|{kind}", f"{type(e).__name__}: {e} {meta}", {"meta": meta})
                continue
            bf2, bt2 = np.array(it.body_flow_forces), np.array(it.body_flow_torques)
            ok = True
            for got, ref, scale in ((ef1, e0 + bf1, np.abs(e0) + np.abs(bf1)), (et1, t0 + bt1, np.abs(t0) + np.abs(bt1)),
                                    (np.array(body.external_forces), e0 + bf1 + bf2, np.abs(e0) + np.abs(bf1) + np.abs(bf2)),
                                    (np.array(body.external_torques), t0 + bt1 + bt2, np.abs(t0) + np.abs(bt1) + np.abs(bt2))):
                r = util.err_over_tol(got, ref, 4 * EPS * scale + 1e-300)
                rec.stat("apply_forces", r)
                ok = ok and r <= 1
            rec.count("apply_forces_checks")
            rec.case((kind, "apply_forces"))
            if not (np.any(bf1) and ok):
                rec.violation("apply-forces-not-additive", f"external forces/torques after apply_forces != previous + flow wrench {meta}",
                              {"meta": meta, "e0": e0, "t0": t0, "bf": bf1, "bt": bt1, "ext_f": ef1, "ext_t": et1})


def run_shard(sh, rec):
    import logging

    logging.disable(logging.CRITICAL)
    if sh["mode"] == "bodies":
        _run_bodies(sh, rec)
    else:
        _run_ix(sh, rec)
