"""C09 -- marker kinematics are the rigid-section kinematics of the body (DESIGN §4 C09).

Oracle (float64, public arrays only, formulas written from the property statement):

* rigid grids: ``velocity_field == V + (Q^T omega) x (position_field - X)``;
* body-fixed rigid grids (2-D/3-D cylinder, plane, generic base grids): pose advanced by +-h and +-h/2 with
  PyElastica's kinematic operator, markers recomputed with ``compute_lag_grid_position_field()``: the centred
  difference must agree with the reported velocity within the analytic truncation bound
  ``h^2 |Omega|^3 |r| / 6`` (+ rounding floor) and the error must drop by ~4 under h -> h/2 (ratio in [3, 5]
  unless both errors sit on the rounding floor); sphere: marker offsets from the centre do not change under
  the pose advance and the centred difference equals V;
* rod grids: nodal markers == node positions / velocities; element-centric markers == element centres with
  the (mass-weighted) element velocity; edge markers at +-radius along the in-plane normal of their element,
  the two edges opposite each other; surface markers at ``ratio * radius`` from the element centre inside the
  director cross-section plane (ratio = 1 except on capped end elements where it is the grid's published
  ``grid_point_radius_ratio`` in [0, 1]), centre markers on the element centre; every marker velocity ==
  ``v_elem + Omega_elem_lab x offset``.  Repeated after the rod has been advanced / re-posed (stale caches).

Workload diversity (added after the seeded-change campaign): every sixth body starts with omega == 0 exactly, every
sixth with V == 0 exactly; every fifth case builds a SIBLING grid of the same class with the same structural constructor
arguments (element count, density / number of forcing points) around another body, with positional constructor arguments
(with_cap default left out), checks it, and then re-checks the FIRST grid.  The second state of every case changes the BODY
under the SAME grid object: rods are stretched / compressed per element by 0.7..1.4 along their tangents (PyElastica then
rescales rod.radius per element, so surface / edge markers must sit at the CURRENT radius x cap ratio) in 60 % of the cases,
rigid bodies get a completely new centre and director frame in 50 % (a grid that cached geometry at construction is stale);
2-D rigid states with d3 = -z and non-zero spin are counted and required.

Self-test of the added dimension: surface grid using rod.radius as cached at construction (sed) -> VIOLATION
marker-distance-from-element-centre|surface3d in state1 (after the stretch / advance).

Tolerances: 64 * eps64 * (|terms|).  Measured max err/tol on the unchanged tree (quick seeds 0..5, thorough
seeds 0,1): rigid_velocity 0.022, rod_velocity 0.009, rod_position 0.06 (0.05 of it on the edge grid: PyElastica's
+1e-14 length regularisation makes |tangent| = 1 - 1e-14/l_e; 20x that is allowed), sphere_translation 0.022.
The two finite-difference statistics (0.667 = 1/1.5) are measured against ANALYTIC truncation inequalities with a
1.5x slack, not against a noise floor; the rounding part (64*eps*|x|/h + 1e-13*|r| for PyElastica's |omega|+1e-14
axis regularisation) is tracked separately as ``fd_rounding_excess_over_floor`` (max 0.08).  Error ratio under
h -> h/2: 4.000 in every case (accepted window [3, 5]).

Observed on the unchanged tree (confirmed before asserting): the element velocity SophT uses is the nodal-mass
weighted average (m_k v_k + m_{k+1} v_{k+1}) / (m_k + m_{k+1}), not the plain mid-point average.

Self-test: ``tools/mut.sh --sed <expr> <file> C09`` (quick tier, seed 0); all 19 -> VIOLATION
  rigid_body_forcing_grids.py
    3-D velocity: Omega = Q omega (``.T`` dropped, l.143)             marker-velocity!=V+Omega x r|plane3d,cyl3d,...
    3-D position: Q instead of Q^T (l.132)                            advanced-pose-markers!=velocity*h|plane3d,...
    3-D velocity: sign of omega x r (l.146)                           marker-velocity!=V+Omega x r
    3-D velocity: local- instead of global-frame offsets (l.148)      marker-velocity!=V+Omega x r
    2-D velocity: Q[2,2] factor dropped (z handling, l.45)            marker-velocity!=V+Omega x r|generic2d,cyl2d (d3 = -z poses)
    2-D velocity: sign of the omega x r x-component (l.50)            marker-velocity!=V+Omega x r|cyl2d
    2-D position: Q instead of Q^T (l.31)                             advanced-pose-markers!=velocity*h|cyl2d
    sphere: markers rotate with the body (l.299)                      marker-velocity!=V+Omega x r|sphere3d, sphere-markers-do-not-translate-with-centre
  cosserat_rod_forcing_grids.py
    edge velocity: Omega = Q omega (transpose dropped, l.220)         marker-velocity!=v_elem+Omega x offset|edge2d
    edge velocity: right-edge arm sign (l.235)                        marker-velocity!=v_elem+Omega x offset|edge2d
    edge position: half radius (l.197)                                marker-distance-from-element-centre|edge2d
    surface: radius ratio ignored on caps (l.428)                     marker-distance-from-element-centre|surfacecap3d
    surface position: Q instead of Q^T (l.417)                        surface-marker-outside-cross-section-plane|surface3d
    surface velocity: sign of omega x r (l.466)                       marker-velocity!=v_elem+Omega x offset|surface3d
    surface velocity: plain instead of mass-weighted v_elem (l.448)   marker-velocity!=v_elem+Omega x offset|surface3d
    surface: centre marker of collapsed elements off-centre (l.381)   marker-distance-from-element-centre|surface3d
    nodal velocity: wrong components in 2-D (z handling, l.32)        nodal-marker-velocity!=node-velocity|nodal2d
    element-centric position: node instead of centre (l.100)          marker-distance-from-element-centre|elem3d
    element-centric velocity: plain average (l.107)                   marker-velocity!=v_elem+Omega x offset|elem3d
"""
import numpy as np

from .. import bodies, util

ID = "C09"
LEVEL = "exploration"
TITLE = "Marker kinematics are the rigid-section kinematics of the body"
RULE = (
    "random bodies of every forcing-grid kind (as C08: 4 rod grids in 2-D/3-D where defined, surface grid with / "
    "without caps, densities 3..24, collapsing tapers, 2..24 elements, helical / curved centre lines, random "
    "per-element directors; 2-D/3-D cylinder, sphere, plane, generic rigid base grids, 2-D bodies with d3 = +-z) "
    "with random V and omega; each grid is evaluated in its initial state and again after the body has been moved "
    "(kinematic advance + new velocities).  Non-trivial = body moving and rotating; distinct = (kind, pose / taper "
    "class, sub-check, state index)."
)
ASSUMPTIONS = [
    "PyElastica convention: director rows are the body axes (Omega_lab = Q^T omega); its kinematic operator overload_operator_kinematic_numba is the trusted pose advance",
    "element velocity = momentum-conserving (nodal-mass weighted) average of the two node velocities (DESIGN §3.4); element centre = mid-point of its nodes",
    "2-D bodies lie in the plane z = 0 with lab angular velocity along z; only the first grid_dim components are compared",
    "PyElastica's cached rod.tangents are unit vectors up to its +1e-14 length regularisation (edge grid offsets may be short by radius*1e-14/l_e)",
    "PyElastica's pose advance regularises the rotation axis by |omega| + 1e-14 (effective rotation rate short by 1e-14): 1e-13*|r| is added to the finite-difference floor",
    "the marker -> element map and the cap radius ratios are read from the grid's public layout (start_idx/end_idx, grid_point_radius_ratio); ratios are only trusted inside [0, 1] and only on capped end elements",
    "compute_lag_grid_position_field() is called before compute_lag_grid_velocity_field(), as every SophT interaction does",
]
TECHNIQUE = "runtime monitoring: independent rigid-kinematics reference + centred finite differences of the real marker positions under PyElastica's pose advance"
REQUIRE = {
    "rigid_markers_checked": 1000,
    "fd_second_order_ratio_checks": 20,
    "sphere_translation_checks": 5,
    "rod_markers_checked": 2000,
    "cap_inner_markers_checked": 5,
    "centre_markers_checked": 5,
    "edge_markers_checked": 50,
    "nodal_markers_checked": 50,
    "bodies_2d_d3_flipped": 1,
    "states_after_motion": 50,
    "rod_states_after_cross_section_change": 100,
    "radius_dependent_grids_after_radius_change_gt_5pct": 30,
    "rigid_states_after_new_pose_on_same_grid": 50,
    "states_2d_d3_flipped_with_nonzero_spin": 20,
    "states_with_omega_exactly_zero": 50,
    "states_with_velocity_exactly_zero": 50,
    "sibling_grids_checked": 50,
    "sibling_grids_built_positionally": 30,
    "first_grids_rechecked_after_sibling": 50,
    "grid_pairs_updated_interleaved": 50,
}
K = 64.0
EPS = float(np.finfo(np.float64).eps)


def shards(tier, seed):
    nb = 14 if tier == "quick" else 42
    return [{"name": f"bodies{i}", "idx": i} for i in range(nb)]


def _n(a, axis=0):
    return np.linalg.norm(a, axis=axis)


def _report(rec, mech, kind, ratio, msg, wit, statname):
    rec.stat(statname, ratio)
    rec.stat(f"{statname}_{kind}", ratio)
    if not ratio <= 1:
        rec.violation(f"{mech}|{kind}", f"{msg} (max err/tol={ratio:.3g})", wit)
        return False
    return True


# ------------------------------------------------------------------------------------------------
# rigid bodies
# ------------------------------------------------------------------------------------------------
def _rigid_formula(rec, case, tag):
    g, b, dim, kind = case.grid, case.body, case.dim, case.kind
    X = np.asarray(b.position_collection, np.float64)[:, 0].copy()
    if dim == 2:
        X[2] = 0.0
    V = np.asarray(b.velocity_collection, np.float64)[:, 0]
    Om = bodies.lab_omega(b)[:, 0]
    x3 = bodies.pad3(g.position_field)
    r = x3 - X[:, None]
    vref = V[:, None] + np.cross(Om, r.T).T
    tol = K * EPS * (_n(V) + _n(Om) * (_n(x3) + _n(X))) + 1e-300
    err = _n(np.asarray(g.velocity_field, np.float64) - vref[:dim])
    ratio = float(np.max(err / tol)) if err.size else 0.0
    rec.count("rigid_markers_checked", g.num_lag_nodes)
    wit = {"meta": case.meta, "X": X, "V": V, "omega_body": np.array(b.omega_collection), "Q": np.array(b.director_collection),
           "position_field": g.position_field.copy(), "velocity_field": g.velocity_field.copy()}
    _report(rec, "marker-velocity!=V+Omega x r", kind, ratio, f"rigid marker velocity differs from V + (Q^T omega) x (x_m - X) {tag} {case.meta}", wit, "rigid_velocity")


def _positions_at(case, h):
    with bodies.pose_advanced(case.body, h):
        case.grid.compute_lag_grid_position_field()
        x = case.grid.position_field.copy()
        X = np.array(case.body.position_collection[:, 0])
    return x, X


def _rigid_fd(rec, case, tag):
    g, b, dim, kind = case.grid, case.body, case.dim, case.kind
    V = np.asarray(b.velocity_collection, np.float64)[:, 0]
    w = _n(np.asarray(b.omega_collection, np.float64)[:, 0])
    X0 = np.asarray(b.position_collection, np.float64)[:, 0].copy()
    x0 = g.position_field.copy()
    v = np.asarray(g.velocity_field, np.float64).copy()
    reach = _n(bodies.pad3(x0) - np.where(np.arange(3)[:, None] < dim, X0[:, None], 0.0))
    h = 0.05 / max(w, 1e-3)
    errs = []
    xs = {}
    for hh in (h, h / 2):
        xp, Xp = _positions_at(case, +hh)
        xm, Xm = _positions_at(case, -hh)
        xs[hh] = (xp, xm, Xp, Xm)
        cd = (xp - xm) / (2 * hh)
        # rounding of the two position fields over 2h; PyElastica's Rodrigues operator normalises the axis with
        # |omega| + 1e-14, i.e. it rotates 1e-14 rad/time slower than omega: allow 10x that (1e-13 * |r|)
        floor = K * EPS * (_n(X0) + reach + hh * _n(V)) / hh + 1e-13 * reach
        errs.append((_n(cd - v), floor, hh))
        xs[("cd", hh)] = cd
    g.compute_lag_grid_position_field()  # back to the unadvanced pose
    if not util.bits_equal(g.position_field, x0):
        rec.violation(f"position-field-not-a-function-of-pose|{kind}", f"markers differ after restoring the pose bit-exactly {case.meta}", {"meta": case.meta})
    wit = {"meta": case.meta, "h": h, "X": X0, "V": V, "omega_body": np.array(b.omega_collection), "Q": np.array(b.director_collection),
           "position_field": x0, "velocity_field": v}
    if kind == "sphere3d":
        # "the sphere's markers translate with its centre": offsets from the centre are pose-independent
        xp, xm, Xp, Xm = xs[h]
        off0 = x0 - X0[:, None]
        tol = K * EPS * (_n(X0) + reach + h * _n(V)) + 1e-300
        r1 = float(np.max(np.maximum(_n((xp - Xp[:, None]) - off0), _n((xm - Xm[:, None]) - off0)) / tol))
        e, floor, hh = errs[0]
        r2 = float(np.max(_n(((xp - xm) / (2 * h)) - V[:, None]) / (floor + 1e-300)))
        rec.count("sphere_translation_checks")
        _report(rec, "sphere-markers-do-not-translate-with-centre", kind, max(r1, r2), f"sphere marker offsets change under a pose advance / centred difference != V {case.meta}", wit, "sphere_translation")
        rec.case((kind, "translate-only", tag))
        return
    # Body-fixed markers rotate about a fixed axis at a constant rate, so the odd derivatives of x(t) are
    # -+|Omega|^(2k) Omega x r and the Taylor series of the centred difference alternates:
    #   |cd_h - v| < h^2 |Omega|^3 |r| / 6            and, for the Richardson combination (4 cd_{h/2} - cd_h) / 3,
    #   |cd_R - v| < h^4 |Omega|^5 |r| / 480
    # hold strictly in exact arithmetic.  These are analytic inequalities, not noise floors (1.5x slack); the
    # rounding floor (K eps |x| / h) is added on top and has the usual >= 10x headroom.
    (e1, f1, h1), (e2, f2, h2) = errs
    bound1 = 1.5 * h1**2 * w**3 * reach / 6 + f1 + 1e-300
    bound2 = 1.5 * h2**2 * w**3 * reach / 6 + f2 + 1e-300
    eR = _n((4 * xs[("cd", h2)] - xs[("cd", h1)]) / 3 - v)
    fR = (4 * f2 + f1) / 3
    boundR = 1.5 * h1**4 * w**5 * reach / 480 + fR + 1e-300
    r = float(max(np.max(e1 / bound1), np.max(e2 / bound2)))
    rec.count("fd_checks")
    # headroom of the rounding floor alone: whatever exceeds the exact analytic bound is rounding
    for e_, a_, f_ in ((e1, h1**2 * w**3 * reach / 6, f1), (e2, h2**2 * w**3 * reach / 6, f2), (eR, h1**4 * w**5 * reach / 480, fR)):
        rec.stat("fd_rounding_excess_over_floor", float(np.max(np.maximum(e_ - a_, 0.0) / (f_ + 1e-300))))
    ok = _report(rec, "advanced-pose-markers!=velocity*h", kind, r, f"centred difference of marker positions under PyElastica's pose advance deviates from velocity_field beyond the O(h^2) bound; h={h1:.3g} {case.meta}", wit, "fd_vs_velocity")
    if ok:
        _report(rec, "advanced-pose-markers!=velocity*h (Richardson)", kind, float(np.max(eR / boundR)),
                f"Richardson-extrapolated centred difference deviates from velocity_field beyond the O(h^4) bound; h={h1:.3g} {case.meta}", wit, "fd_richardson_vs_velocity")
    E1, E2 = float(np.max(e1)), float(np.max(e2))
    if E2 > 100 * float(np.max(f2)):
        ratio = E1 / E2
        rec.count("fd_second_order_ratio_checks")
        rec.stat("fd_ratio_max", ratio); rec.stat("fd_inverse_ratio_max", 1.0 / ratio if ratio > 0 else float("inf"))
        if ok and not (3.0 <= ratio <= 5.0):
            rec.violation(f"pose-advance-not-second-order|{kind}", f"error ratio under h -> h/2 is {ratio:.4g}, expected ~4 {case.meta}", wit)
    else:
        rec.count("fd_on_rounding_floor")
    rec.case((kind, "fd", tag, "flipped" if case.meta.get("flipped") else ""), sample={**case.meta, "state": tag, "h": h1, "fd_err_over_bound": r})


# ------------------------------------------------------------------------------------------------
# rods
# ------------------------------------------------------------------------------------------------
def _rod_checks(rec, case, tag):
    g, rod, dim, kind = case.grid, case.body, case.dim, case.kind
    N = g.num_lag_nodes
    x = np.asarray(rod.position_collection, np.float64)
    vn = np.asarray(rod.velocity_collection, np.float64)
    pos = np.asarray(g.position_field, np.float64)
    vel = np.asarray(g.velocity_field, np.float64)
    wit = {"meta": case.meta, "tag": tag, "nodes": x.copy(), "node_velocities": vn.copy(), "Q": np.array(rod.director_collection),
           "omega_body": np.array(rod.omega_collection), "radius": np.array(rod.radius), "mass": np.array(rod.mass),
           "position_field": pos.copy(), "velocity_field": vel.copy()}
    rec.count("rod_markers_checked", N)
    if kind in ("nodal2d", "nodal3d"):
        rp = float(np.max(_n(pos - x[:dim]) / (4 * EPS * _n(x) + 1e-300)))
        rv = float(np.max(_n(vel - vn[:dim]) / (4 * EPS * _n(vn) + 1e-300)))
        rec.count("nodal_markers_checked", N)
        _report(rec, "nodal-marker-off-node", kind, rp, f"nodal grid markers differ from node positions {case.meta}", wit, "rod_position")
        _report(rec, "nodal-marker-velocity!=node-velocity", kind, rv, f"nodal grid marker velocities differ from node velocities {case.meta}", wit, "rod_velocity")
        rec.case((kind, case.meta["centreline"], tag))
        return
    el, role = bodies.marker_elements(case)
    xc = bodies.element_centres(rod)
    ve = bodies.element_velocity_mass_weighted(rod)
    Om = bodies.lab_omega(rod)
    rad = np.asarray(rod.radius, np.float64)
    Q = np.asarray(rod.director_collection, np.float64)
    xscale = (_n(x[:, :-1]) + _n(x[:, 1:]))[el]
    vscale = (_n(vn[:, :-1]) + _n(vn[:, 1:]))[el]
    off = bodies.pad3(pos) - np.where(np.arange(3)[:, None] < dim, xc[:, el], 0.0)  # marker offset from its element centre
    if dim == 2:
        off[2] = 0.0
    # terms entering a marker offset: the marker position (~|x|), the element centre (two nodes), the rotated
    # local offset (three products) times the radius
    tolx = K * EPS * (2 * xscale + 4 * rad[el]) + 1e-300
    if kind == "edge2d":
        # the edge grid scales PyElastica's cached ``tangents``; PyElastica regularises lengths by +1e-14, so
        # |tangent| = 1 - 1e-14 / l_e: allow 20x that relative deviation of the edge offset
        seg = _n(x[:, 1:] - x[:, :-1])
        tolx = tolx + rad[el] * 2e-13 / seg[el]
    # --- positions
    if kind in ("elem2d", "elem3d"):
        want = np.zeros(N)
    elif kind == "edge2d":
        want = np.where(role == "centre", 0.0, rad[el])
    else:
        ratio = np.ones(N)
        if kind == "surfacecap3d":
            pub = np.asarray(g.grid_point_radius_ratio, np.float64)
            ends = (el == 0) | (el == rod.n_elems - 1)
            if pub.shape != (N,) or np.any(pub < 0) or np.any(pub > 1):
                rec.violation(f"cap-radius-ratio-outside-[0,1]|{kind}", f"grid_point_radius_ratio invalid {case.meta}", wit)
                pub = np.clip(np.resize(pub, N), 0, 1)
            ratio = np.where(ends, pub, 1.0)
            rec.count("cap_inner_markers_checked", int(np.sum(ratio < 1.0)))
        want = np.where(role == "centre", 0.0, ratio * rad[el])
    rec.count("centre_markers_checked", int(np.sum(role == "centre")) if kind not in ("elem2d", "elem3d") else 0)
    rdist = float(np.max(np.abs(_n(off) - want) / tolx))
    _report(rec, "marker-distance-from-element-centre", kind, rdist,
            f"marker distance from its element centre differs from (cap ratio x) local radius / centre marker off the centre {tag} {case.meta}", wit, "rod_position")
    if kind == "edge2d":
        t = x[:, 1:] - x[:, :-1]
        t = t / _n(t)
        along = np.abs(np.einsum("im,im->m", off, t[:, el]))
        ra = float(np.max(along / tolx))
        n = rod.n_elems
        pair = _n(off[:, n:2 * n] + off[:, 2 * n:3 * n])
        rpair = float(np.max(pair / tolx[n:2 * n]))
        rec.count("edge_markers_checked", 2 * n)
        _report(rec, "edge-marker-not-on-in-plane-normal", kind, max(ra, rpair), f"edge markers not at +-radius along the in-plane normal of their element {tag} {case.meta}", wit, "rod_position")
    if kind in ("surface3d", "surfacecap3d"):
        d3 = Q[2][:, el]
        ra = float(np.max(np.abs(np.einsum("im,im->m", off, d3)) / tolx))
        _report(rec, "surface-marker-outside-cross-section-plane", kind, ra, f"surface markers leave the cross-section plane of their element {tag} {case.meta}", wit, "rod_position")
    # --- velocities: rigid motion with the element's cross-section
    vref = ve[:, el] + np.cross(Om[:, el].T, off.T).T
    tolv = K * EPS * (vscale + _n(Om[:, el]) * (_n(off) + xscale)) + 1e-300
    rv = float(np.max(_n(vel - vref[:dim]) / tolv))
    _report(rec, "marker-velocity!=v_elem+Omega x offset", kind, rv, f"rod marker velocity differs from element velocity + (Q^T omega) x offset {tag} {case.meta}", wit, "rod_velocity")
    rec.case((kind, case.meta["taper"], case.meta["centreline"], "n<=4" if rod.n_elems <= 4 else "n>4", tag),
             sample={**case.meta, "state": tag, "position_err_over_tol": rdist, "velocity_err_over_tol": rv})


# ------------------------------------------------------------------------------------------------
def _move(case, rng):
    """advance the pose with PyElastica's operator (kept), refresh geometry, draw new velocities"""
    from elastica.rod.data_structures import overload_operator_kinematic_numba as kin

    b = case.body
    if rng.random() < 0.5:
        # finalize()-like: the body's array attributes are REBOUND to other array objects (same values) after the grid was built
        if bodies.rebind_arrays(b):
            case.meta["rebound"] = True
    h = float(10 ** rng.uniform(-3, -1.3))
    kin(np.float64(h), b.position_collection, b.director_collection, b.velocity_collection, b.omega_collection)
    if case.family == "rod":
        bodies.refresh_rod_geometry(b)
        if rng.random() < 0.6:
            # the cross-sections change AFTER the grid was built (axial stretch => rod.radius rescaled per element by
            # PyElastica): a grid that cached radius / lengths at construction is stale now
            r_before = np.array(b.radius)
            bodies.stretch_rod(b, rng)
            case.meta["stretched"] = True
            case.meta["radius_change_max"] = float(np.max(np.abs(np.array(b.radius) / r_before - 1.0)))
        bodies.set_rod_velocities(b, rng, case.dim)
    else:
        if rng.random() < 0.5:
            # a completely new pose (centre and directors) on the SAME grid object, not just a small kinematic advance
            bodies.set_rigid_state(b, rng, case.dim)
            case.meta["reposed"] = True
        else:
            bodies.set_rigid_state(b, rng, case.dim, centre=b.position_collection[:, 0].copy(), keep_directors=True)


def _positional_grid(case):
    """a second grid object of the same class built with POSITIONAL constructor arguments in the documented order and the
    documented default left out (with_cap=False); generic base grids keep the keyword-built grid"""
    import sopht.simulator as sps

    k, b, m = case.kind, case.body, case.meta
    if k in ("nodal2d", "nodal3d"):
        return sps.CosseratRodNodalForcingGrid(case.dim, b)
    if k in ("elem2d", "elem3d"):
        return sps.CosseratRodElementCentricForcingGrid(case.dim, b)
    if k == "edge2d":
        return sps.CosseratRodEdgeForcingGrid(2, b)
    if k == "surface3d":
        return sps.CosseratRodSurfaceForcingGrid(3, b, int(m["density"]))
    if k == "surfacecap3d":
        return sps.CosseratRodSurfaceForcingGrid(3, b, int(m["density"]), True)
    if k == "cyl2d":
        return sps.CircularCylinderForcingGrid(2, b, int(m["num"]))
    if k == "cyl3d":
        return sps.OpenEndCircularCylinderForcingGrid(3, b, int(m["num"]))
    if k == "sphere3d":
        return sps.SphereForcingGrid(3, b, int(m["num"]))
    if k == "plane3d":
        return sps.RectangularPlaneForcingGrid(3, b, int(m["num"]))
    return None


def _check_state(rec, case, tag):
    """refresh the grid (position, then velocity) and run every monitor of the grid's family; False if SophT raised"""
    try:
        bodies.refresh_grid(case.grid)
    except Exception as e:
        rec.violation(f"grid-update-raises|{case.kind}", f"{type(e).__name__}: {e} {case.meta}", {"meta": case.meta})
        return False
    if case.family == "rigid":
        _rigid_formula(rec, case, tag)
        rec.case((case.kind, "formula", tag, "flipped" if case.meta.get("flipped") else ""))
        _rigid_fd(rec, case, tag)
        case.grid.compute_lag_grid_velocity_field()
    else:
        _rod_checks(rec, case, tag)
    return True


def run_shard(sh, rec):
    import logging

    logging.disable(logging.CRITICAL)
    tier, seed = sh["tier"], sh["seed"]
    rng = util.rng_for(seed, ID, "bodies", sh["idx"])
    ncase = 100 if tier == "quick" else 1000
    kinds = bodies.ALL_KINDS
    for j in range(ncase):
        kind = kinds[(sh["idx"] + j * 5) % len(kinds)] if j % 3 else str(rng.choice(kinds))
        opts = {}
        if kind in bodies.ROD_KINDS and j % 7 == 0:
            opts["n_elems"] = int(rng.choice([2, 3, 24]))
        if kind in ("surface3d", "surfacecap3d") and j % 4 == 0:
            opts["taper"] = str(rng.choice(["steep", "bulge"]))
        case = bodies.make_case(rng, kind, **opts)
        rec.count("bodies"); rec.count(f"bodies_{kind}")
        if case.dim == 2 and case.family == "rigid" and case.body.director_collection[2, 2, 0] < 0:
            case.meta["flipped"] = True
            rec.count("bodies_2d_d3_flipped")
        if case.grid.num_lag_nodes == 0:
            rec.case(None)
            continue
        # exact ties in the initial state: angular velocity identically zero / linear velocity identically zero
        tie = {4: "omega0", 5: "v0"}.get(j % 6)
        if tie == "omega0":
            case.body.omega_collection[...] = 0.0
            rec.count("states_with_omega_exactly_zero")
        elif tie == "v0":
            case.body.velocity_collection[...] = 0.0
            rec.count("states_with_velocity_exactly_zero")
        if tie:
            case.meta["tie"] = tie
        for state in range(2):
            tag = f"state{state}"
            if state:
                _move(case, rng)
                rec.count("states_after_motion")
                if case.meta.get("rebound"):
                    rec.count("states_after_body_arrays_rebound_like_finalize")
                if case.meta.get("stretched"):
                    rec.count("rod_states_after_cross_section_change")
                    if kind in ("surface3d", "surfacecap3d", "edge2d") and case.meta.get("radius_change_max", 0) > 0.05:
                        rec.count("radius_dependent_grids_after_radius_change_gt_5pct")
                if case.meta.get("reposed"):
                    rec.count("rigid_states_after_new_pose_on_same_grid")
                if case.dim == 2 and case.family == "rigid":
                    case.meta["flipped"] = bool(case.body.director_collection[2, 2, 0] < 0)
            if case.dim == 2 and case.family == "rigid" and case.meta.get("flipped") and case.body.omega_collection[2, 0] != 0:
                rec.count("states_2d_d3_flipped_with_nonzero_spin")
            try:
                bodies.refresh_grid(case.grid)
            except Exception as e:
                rec.violation(f"grid-update-raises|{kind}", f"{type(e).__name__}: {e} {case.meta}", {"meta": case.meta})
                break
            if case.family == "rigid":
                _rigid_formula(rec, case, tag)
                rec.case((kind, "formula", tag, "flipped" if case.meta.get("flipped") else ""))
                _rigid_fd(rec, case, tag)
                case.grid.compute_lag_grid_velocity_field()
            else:
                _rod_checks(rec, case, tag)
        else:
            if j % 5 != 2:
                continue
            # sibling object: a SECOND grid of the same class with the SAME structural constructor arguments (element count,
            # density / number of forcing points) around ANOTHER body (size, pose, velocities), built with positional
            # arguments; then the FIRST grid again (module-level state keyed by the shared arguments, or overwritten)
            sopts = {k: case.meta[k] for k in ("n_elems", "density", "num") if k in case.meta}
            case2 = bodies.make_case(rng, kind, **sopts)
            if case2.grid.num_lag_nodes == 0:
                continue
            g2 = _positional_grid(case2)
            if g2 is not None:
                if g2.num_lag_nodes != case2.grid.num_lag_nodes:
                    rec.violation(f"grid-marker-count-depends-on-call-style|{kind}", f"positional {g2.num_lag_nodes} vs keyword {case2.grid.num_lag_nodes} {case2.meta}", {"meta": case2.meta})
                    continue
                case2.grid = g2
                rec.count("sibling_grids_built_positionally")
            case2.meta["object"] = "sibling"
            if case2.dim == 2 and case2.family == "rigid" and case2.body.director_collection[2, 2, 0] < 0:
                case2.meta["flipped"] = True
            if _check_state(rec, case2, "sibling"):
                rec.count("sibling_grids_checked")
            case.meta["object"] = "first-after-sibling"
            if _check_state(rec, case, "first-after-sibling"):
                rec.count("first_grids_rechecked_after_sibling")
            # interleaved updates of the two grids: position(A), position(B), velocity(A), velocity(B) - work arrays that are
            # persistent state of one grid (lever arms, director transposes) must not be shared between instances
            try:
                case.grid.compute_lag_grid_position_field()
                case2.grid.compute_lag_grid_position_field()
                case.grid.compute_lag_grid_velocity_field()
                case2.grid.compute_lag_grid_velocity_field()
            except Exception as e:
                rec.violation(f"grid-update-raises|{kind}", f"interleaved: {type(e).__name__}: {e} {case.meta}", {"meta": case.meta})
                continue
            for cc, tg in ((case, "interleaved-first"), (case2, "interleaved-second")):
                cc.meta["object"] = tg
                if cc.family == "rigid":
                    _rigid_formula(rec, cc, tg)
                else:
                    _rod_checks(rec, cc, tg)
            rec.count("grid_pairs_updated_interleaved")
