"""C10 — virtual-boundary feedback is the documented PI law over any call history (DESIGN §4 C10).

Oracle: an executable model of the property statement, driven by the same event stream as the real
``RigidBodyFlowInteraction`` / ``CosseratRodFlowInteraction`` objects (events are recorded at the
object boundary; the model only ever looks at the public arrays named in the property):

    time_step(dt):      I <- I + dt * e_last ;  time <- time + dt
    any evaluation:     e <- interp(u)(X) - V ;  F <- k_eff * I + c_eff * e        (I untouched)
                        k_eff = k * s_max**(d-1),  c_eff = c * s_max**(d-1)
    __call__ only:      f <- f + spread(F)   (accumulate)      f <- spread(F)   (reset mode)
    u, body arrays:     never modified (bitwise snapshots around every op, read-only flag of the view)

``interp``/``spread`` are dense operators built from the closed-form cosine delta function
(``phi(r) = (1 + cos(pi r / 2)) / 4`` on |r| < 2), completely independent of SophT's 4^d stencil
gather/scatter.  ``s_max`` is recomputed per grid type from the body geometry (circle arc, node
distances, sphere equator arc, max(element length, radius * 2 pi / density)).  Marker positions and
velocities used by the model come from a FRESH forcing-grid object built on the current body state
(so an interaction that evaluates with stale markers is seen; the geometry formulas themselves are
C09's subject).

After EVERY op all observables of every body sharing the field are compared with the model:
marker force, integral, velocity mismatch, clock, Eulerian forcing field; flow field and body
arrays bitwise.  Tolerances are running noise floors: every model quantity carries a bound
``K * eps_t * (sum of |terms|)`` that is propagated through the same recurrences (including the
conditioning of the delta weights w.r.t. the rounding of (x_grid - X)/dx).

Workload diversity (added after the seeded-change campaign): the last three histories of every shard run two histories on
the OTHER dx of the same dimension (2-D: with a body of the same marker count, 12) and then one on the shard's own dx again
(sibling objects in one process: caches keyed without dx); the interaction constructor is called in three ways (all
arguments explicit / documented defaults left out / the optional shift and kernel width given explicitly).

Self-test of the added dimension: the interpolation-closure cache keyed without dx (see C06) -> VIOLATION marker-force!=model,
velocity-mismatch!=model, eul-forcing!=model in the histories that run on the other dx of the shard's dimension.
Counters confirm (REQUIRE): reset-mode calls (2nd or later of a body) on a field with content OUTSIDE the body's stencil footprint;
3-D evaluations with non-zero integral and stiffness (s_max**(d-1) vs s_max*(d-1) differ only for d = 3).  Not added: a body
with N == dim markers (a new (dx, N) closure set per dimension and precision).

Argument dimensions (added later; nothing asserted before was changed; every new execution is compared with the SAME executable model
and running noise floors -- never with another execution):
 (a) array layout -- interactions: every third history (``history_layout``) hands the constructor an Eulerian forcing field and a flow
     velocity field that are NON-contiguous views holding the same values (interior of a sentinel-padded parent / every second cell of a
     parent = numba layout 'A'; column-major = 'F'); the interactions own every Lagrangian array, so those cannot be varied there.
     ``run_direct`` therefore drives ``VirtualBoundaryForcing`` itself (the class both interactions inherit the PI law from, called with
     the same keyword calls) and passes, per call, flow field, forcing field and marker velocities contiguous / as such views /
     column-major, marker positions C-contiguous or as (N, d) storage passed as ``.T``; results are read back through
     ``np.ascontiguousarray``.  Counters histories_noncontiguous_eulerian_fields, vbf_calls_with_noncontiguous_array_arguments.
     EXCLUDED: strided marker positions (numba refuses ``reshape`` on them at typing: a loud rejection, see the C06 docstring).
 (b) histories of temporary views -- ``run_direct`` stage 2: K = 3..6 {full evaluation, time_step} rounds on ONE forcing object in a
     tight loop where every array argument is ``stack[name][k]`` (fresh temporary views of different memory; CPython recycles their
     id()); afterwards every ``stack["f"][k]`` and the final marker force / integral / mismatch / clock are compared with the model
     replayed over the same inputs.  Counter vbf_calls_with_temporary_view_arguments.  Not applicable to the interactions: they bind
     their arrays at construction and pass the same objects on every call.
 (c) exact zeros -- interactions: ``time_step(0)`` (8 % of the steps; integral and clock must keep their VALUES: I + 0 * e = I),
     all-zero flow fields (15 % of the flow overwrites; with a body at rest the model's floor for the velocity mismatch is 0, i.e. the
     existing comparison is exact there), counters for the existing 6 % draws of stiffness 0 / damping 0.  ``run_direct``: stiffness 0
     with damping != 0 and damping 0 with stiffness != 0 as dedicated cases (j % 4 == 0 / 1); a fresh object evaluated on fluid and
     markers at rest (e = 0 and F = 0 exactly; the all-zero marker force leaves a finite sentinel-free forcing field unchanged in
     accumulate mode and exactly zero in reset mode); the same again after a history when the stiffness is 0 (0 * I = 0); ``time_step(0)``
     in every scalar type; a non-zero step with e = 0 exactly (integral unchanged).  All by value (-0.0 == 0.0).
 (d) scalar types -- dt as python float / np.float64 / working-precision scalar / 0-d array (interactions and ``run_direct``); in
     ``run_direct`` also dx, eul_grid_coord_shift, both coefficients and the start time (the start time never as a 0-d array: ``self.time
     += dt`` would update the caller's array in place, Python semantics that say nothing about the PI law).  The model uses float(arg).
 (e) finalize()-like rebinding -- every fourth history replaces, at one point, every ndarray attribute of one body by another array object
     holding the same values (``rv.bodies.rebind_arrays``: what PyElastica's ``simulator.finalize()`` does after the interactor was built),
     moves the body through its new arrays and evaluates the SAME interaction object again; judged by the existing monitors
     (evaluation-uses-stale-markers, model comparison).  Counters histories_with_body_arrays_rebound_like_finalize,
     evaluations_after_body_arrays_rebound.
False alarm corrected while adding (c): my first version demanded that ``time_step(0)`` leaves the clock bit-for-bit unchanged; with
``dt = np.float32(0)`` NumPy-2 promotion turns a python-float clock into a float32 (soundness note 3 below), i.e. the value is rounded once
to the working precision.  Check too strict: the clock after ``time_step(0)`` is now compared within one working-precision rounding
(eps_t * |t|); the integral is still compared by value.
 (f) grid origin -- the last of every four ``run_direct`` histories builds the forcing object with eul_grid_coord_shift exactly 0 / dx/4 /
     x0 + dx/2 (x0 = -2 dx, +3.5 dx), markers moved with the origin, the model evaluated with that shift (cell centre i at i*dx + shift).
     Counter vbf_direct_histories_grid_origin_not_half_a_cell.  (The interactions pass their shift straight through; C06/C07 drive the
     communicators with the same origins.)  Not demonstrated with its own tools/mut.sh run (C06/C07 demonstrate the two origin-related
     changes on the communicators); unchanged tree HELD for seeds 0-3 quick and seed 0 thorough.
Self-test of (a)-(e) (tools/mut.sh, quick tier, seed 0, VBF; every witness carries the new dimension):
  M18 (a) spreading target ``np.ascontiguousarray(eul_grid_forcing_field)`` (a copy for non-contiguous fields)          VIOLATION  eul-forcing!=model, only in histories with 'eulerian_field_layout'
                                                                                                                                    views | fortran and in direct calls with such arguments
  M19 (b) cache of prepared forcing-field views keyed by id(eul_grid_forcing_field) (``field[...]``, no reference kept)  VIOLATION  eul-forcing!=model in the temporary-view histories ("call 1 of 6 ...") and in direct
                                                                                                                                    calls whose field is a temporary layout view; never in an interaction history
  M20 (c) Euler forward rewritten as ``dt * (I / dt + e)`` (equal up to rounding for dt != 0, NaN for dt = 0)            VIOLATION  integral-changed-by-time_step(0) (+ the time_step contract), only at dt = 0
  M21 (c) marker force only recomputed ``if self.virtual_boundary_stiffness_coeff:``                                     VIOLATION  marker-force!=model / eul-forcing!=model in the dedicated k = 0 direct histories; ALSO
                                                                                                                                    reached by the pre-existing 6 % draws of stiffness 0 (now counted, with a REQUIRE)
  M22 (d) __init__: ``if not isinstance(dx, (float, np.floating)): dx = float(np.float32(dx))`` (0-d arrays coerced)     VIOLATION  marker-force / velocity-mismatch / eul-forcing != model, every witness a float64
                                                                                                                                    direct history with 'scalars_passed_as': '0d-array'
  M23 (e) nodal rod grid keeps ``cosserat_rod.position_collection[:grid_dim]`` from construction and reads that          VIOLATION  evaluation-uses-stale-markers, every witness after a 'rebind-arrays+move' op

Soundness notes (measured on the unchanged tree, seeds 0..5 quick + 0,1 thorough, both precisions): every
err/tol ratio stays <= 0.07 (headroom >= 14x).  Three things had to be modelled to get there, none of them a
defect: (1) PyElastica stores element lengths as |dx| + 1e-14, so the rod grids report s_max 3e-13 (relative)
above the geometric value - the model checks the reported value against the geometry (abs. allowance 2e-13)
and then uses the reported one; (2) spreading performs one rounding per marker whose 4^d stencil covers a
cell, relative to the CURRENT cell content, so the floor of the Eulerian field is eps*(K + 2*count)*(|f| +
sum|contrib|), not K*eps*|result|; (3) when ``dt`` is passed as ``np.float32`` NumPy-2 promotion turns the
forcing clock ``time`` into a float32 for the rest of the run, so the clock is compared at working precision.

Self-test (tools/mut.sh --sed, quick tier, seed 0; VBF = sopht/numeric/immersed_boundary_ops/
VirtualBoundaryForcing.py, IBFI = sopht/simulator/immersed_body/immersed_body_flow_interaction.py,
RG = sopht/simulator/immersed_body/rigid_body/rigid_body_forcing_grids.py).  21 mutations, 21 caught (M1-M17 below; M18-M23 above):

  #    mutation                                                               verdict    mechanism
  M1   VBF  evaluation also advances the integral (I += 1e-3 e before step 5) VIOLATION  marker-force!=model (5e12 tol)
  M2   VBF  time_step: dt*dt*e                                                VIOLATION  integral!=model (9e13)
  M3   VBF  time_step: dt ignored (0.01*e)                                    VIOLATION  integral!=model (6e17)
  M4   VBF  damping multiplies the integral instead of the mismatch           VIOLATION  marker-force!=model (1e14)
  M5   IBFI both coefficients * s_max**d instead of **(d-1)                   VIOLATION  marker-force!=model (1e14)
  M5b  IBFI only the damping coefficient * s_max**d                           VIOLATION  marker-force!=model (1e14)
  M6   VBF  reset variant selected in accumulate mode (if True)               VIOLATION  eul-forcing!=model (6e12)
  M7   VBF  accumulate variant selected in reset mode (if False)              VIOLATION  eul-forcing!=model
  M8   IBFI view left writeable AND __call__ spreads into the velocity field  VIOLATION  velocity-view-writeable (at construction)
  M8b  IBFI view left writeable, nothing written                              VIOLATION  velocity-view-writeable
  M8c  IBFI __call__ spreads into the read-only velocity view                 VIOLATION  call-raises (numba refuses the read-only array)
  M8d  IBFI __call__ spreads into ``.base`` of the view (flag intact)         VIOLATION  flow-velocity-modified (bitwise snapshot)
  M9   VBF  time not advanced                                                 VIOLATION  time!=start+sum(dt)
  M10  VBF  integral zeroed on every evaluation                               VIOLATION  marker-force!=model (1e11) / integral!=model
  M11  VBF  mismatch sign (body - flow)                                       VIOLATION  marker-force!=model (3e14)
  M12  VBF  time = dt instead of += dt                                        VIOLATION  time!=start+sum(dt)
  M13  IBFI marker positions not refreshed before an evaluation               VIOLATION  evaluation-uses-stale-markers
  M14  IBFI compute_flow_forces_and_torques runs the full __call__            VIOLATION  eul-forcing-touched-by-lag-only-evaluation
  M15  IBFI stiffness not rescaled by s_max**(d-1)                            VIOLATION  marker-force!=model (5e12)
  M16  RG   cylinder marker spacing from the diameter                         VIOLATION  s_max!=max-marker-spacing
  M17  VBF  Euler step with dt/2                                              VIOLATION  integral!=model (5e13)
"""
import numpy as np

from .. import util

ID = "C10"
LEVEL = "exploration"
TITLE = "Virtual-boundary feedback is the documented PI law over any call history"
TECHNIQUE = "runtime monitoring: history model (executable PI-law model with independent dense delta operators) + bitwise read-only snapshots"
RULE = (
    "random histories (5-60 ops) over {__call__, compute_flow_forces_and_torques, compute_interaction_on_lag_grid, "
    "time_step(dt) with dt log-uniform 1e-6..1e-1, move body, overwrite flow field, external zeroing / overwriting of the "
    "forcing field} addressed at 1-3 bodies sharing one Eulerian forcing field, each body in reset or accumulate mode, "
    "2-D (circular cylinder, rod nodal / element-centric / edge grids) and 3-D (sphere, rod surface grid with/without caps), "
    "float32 and float64, random non-square grids, random stiffness/damping (both signs) and start time; every third history with "
    "non-contiguous Eulerian fields; dt as python float / NumPy scalar / 0-d array, 8 % of the steps with dt = 0; plus, per shard, "
    "4 (quick) / 12 histories on a bare VirtualBoundaryForcing object with per-call array layouts, a tight loop of temporary-view "
    "arguments, exactly-zero coefficients / fields / steps and all scalar types of the scalar arguments.  After every op "
    "every observable of every body is compared with the model.  A history is non-trivial if it contains at least one "
    "evaluation and one time step; distinct = (dim, dtype, body kinds, reset flags, op-pattern class)."
)
ASSUMPTIONS = [
    "NumPy float64 einsum over closed-form cosine delta weights is the trusted interpolation/spreading reference",
    "marker positions/velocities are taken from a fresh SophT forcing-grid object on the current body state (geometry itself is C09)",
    "tolerance = running bound K*eps_t*sum|terms| (K=16) propagated through the model recurrences, delta-weight conditioning "
    "8*eps_t*(|X|/dx+2) included; measured headroom >= 10x on the unchanged tree",
    "markers are kept >= 2.5 cells away from the domain boundary (SophT documents no boundary handling)",
    "PyElastica's compute_internal_forces_and_torques is used by the harness to keep rod geometry self-consistent after a move",
]
REQUIRE = {
    "histories": 20,
    "ops_compared": 500,
    "evaluations_after_step": 50,
    "repeated_evaluations_without_step": 50,
    "consecutive_steps_without_evaluation": 20,
    "multi_body_histories": 5,
    "reset_mode_calls": 20,
    "accumulate_calls_on_nonzero_field": 20,
    "external_zeroings": 10,
    "body_moves": 20,
    "flow_overwrites": 10,
    "bitwise_snapshots_flow": 500,
    "bitwise_snapshots_body": 500,
    "reset_mode_calls_2nd_or_later_with_content_outside_footprint": 20,
    "evaluations_3d_with_nonzero_integral_and_stiffness": 50,
    "histories_other_dx_same_process": 16,
    "histories_own_dx_after_other_dx": 8,
    "ctor_with_defaults_left_out": 20,
    "ctor_with_explicit_shift_and_width": 20,
    "grid_cyl2d": 3, "grid_nodal": 3, "grid_elem": 3, "grid_edge": 3, "grid_sphere": 3, "grid_surface": 3,
    # workload dimensions added later (array layout, temporary views, exact zeros, scalar types)
    "histories_noncontiguous_eulerian_fields": 60,
    "histories_with_body_arrays_rebound_like_finalize": 40,
    "evaluations_after_body_arrays_rebound": 40,
    "time_steps_with_dt_exactly_zero": 40,
    "time_steps_dt_as_np.float64": 40,
    "time_steps_dt_as_0d-array": 40,
    "vbf_direct_histories": 48,
    "vbf_direct_ops_compared": 500,
    "vbf_calls_with_noncontiguous_array_arguments": 150,
    "vbf_calls_with_temporary_view_arguments": 150,
    "vbf_time_steps_dt_exactly_zero": 150,
    "vbf_evaluations_exactly_zero_velocity_mismatch": 80,
    "vbf_spreads_of_exactly_zero_marker_force": 48,
    "vbf_time_steps_with_exactly_zero_velocity_mismatch": 40,
    "vbf_evaluations_zero_stiffness_nonzero_damping": 30,
    "vbf_evaluations_zero_damping_nonzero_stiffness_and_integral": 30,
    "vbf_direct_histories_grid_origin_not_half_a_cell": 12,
    "vbf_ctor_scalars_as_python-float": 8, "vbf_ctor_scalars_as_np.float64": 8, "vbf_ctor_scalars_as_working-precision-scalar": 8, "vbf_ctor_scalars_as_0d-array": 8,
}
K = 16.0

# (dx, N) pool: per dimension two dx values, each with a fixed list of body configurations, so every
# numba closure (keyed by dx, N) is compiled a handful of times only.
POOL = {
    2: [
        {"dx": 1.0 / 40, "bodies": [
            {"kind": "cyl2d", "N": 12, "R": 0.05},
            {"kind": "nodal", "n": 6, "L": 0.16, "r": 0.012},
            {"kind": "edge", "n": 5, "L": 0.15, "r": 0.02},
        ]},
        {"dx": 0.03, "bodies": [
            {"kind": "cyl2d", "N": 20, "R": 0.09},
            {"kind": "elem", "n": 8, "L": 0.2, "r": 0.01},
            {"kind": "edge", "n": 4, "L": 0.14, "r": 0.03},
            {"kind": "nodal", "n": 3, "L": 0.1, "r": 0.012},
        ]},
    ],
    3: [
        {"dx": 1.0 / 24, "bodies": [
            {"kind": "sphere", "Neq": 8, "R": 0.07},
            {"kind": "surface", "n": 3, "L": 0.15, "r": 0.035, "dens": 6, "cap": False, "taper": [6, 6, 3]},
        ]},
        {"dx": 0.05, "bodies": [
            {"kind": "sphere", "Neq": 10, "R": 0.1},
            {"kind": "surface", "n": 2, "L": 0.12, "r": 0.05, "dens": 8, "cap": True, "taper": [8, 6]},
        ]},
    ],
}
SHAPE_RANGE = {2: (30, 46), 3: (16, 24)}
OPS = ("call", "forces", "lag", "dt", "move", "flow", "zero", "fnoise")
OPW = np.array([0.26, 0.09, 0.09, 0.26, 0.10, 0.08, 0.07, 0.05])


def shards(tier, seed):
    out = []
    reps = 2 if tier == "quick" else 4
    for rep in range(reps):
        for d in (2, 3):
            for ip in range(2):
                for dtype in ("float64", "float32"):
                    out.append({"name": f"d{d}p{ip}{dtype[-2:]}r{rep}", "dim": d, "pool": ip, "dtype": dtype, "rep": rep})
    return out


# ------------------------------------------------------------------------------------------------
# independent dense delta operators (closed form)
# ------------------------------------------------------------------------------------------------
try:  # shared reference written for C06/C07 (closed-form deltas, distances formed in long double)
    from ..ref import ib as _ib

    _HAVE_IB = all(hasattr(_ib, n) for n in ("phi_cosine", "scaled_distances"))
except ImportError:  # pragma: no cover - stand-alone fallback, same closed form
    _ib, _HAVE_IB = None, False


def phi_cosine(r):
    """cosine 4-point delta function phi(r) = (1 + cos(pi r / 2)) / 4 on |r| < 2 (the default kernel type of the
    communicators; VirtualBoundaryForcing never passes another one)"""
    if _HAVE_IB:
        return _ib.phi_cosine(r)
    r = np.abs(r)
    return np.where(r < 2.0, 0.25 * (1.0 + np.cos(0.5 * np.pi * r)), 0.0)


def _scaled_distances(x_markers, n, dx, shift):
    if _HAVE_IB:
        return _ib.scaled_distances(x_markers, n, dx, shift)
    coords = shift + dx * np.arange(n, dtype=np.float64)
    return (coords[None, :] - np.asarray(x_markers, np.float64)[:, None]) / dx


def axis_weights(X, shape, dx, shift):
    """per array axis (z,y,x order) the 1-D weights phi((x_cell - X_m)/dx), shape (N, n_axis), and the
    support indicator.  X has component order x, y(, z); x runs along the LAST array axis."""
    d = len(shape)
    w, s = [], []
    for ax in range(d):
        r = _scaled_distances(X[d - 1 - ax], shape[ax], dx, shift)
        w.append(phi_cosine(r))
        s.append((np.abs(r) < 2.0).astype(np.float64))
    return w, s


def interp(w, u):
    if len(w) == 2:
        return np.einsum("mj,mi,cji->cm", w[0], w[1], u, optimize=True)
    return np.einsum("mk,mj,mi,ckji->cm", w[0], w[1], w[2], u, optimize=True)


def spread(w, F, dx):
    d = len(w)
    if d == 2:
        return np.einsum("mj,mi,cm->cji", w[0], w[1], F, optimize=True) / dx**d
    return np.einsum("mk,mj,mi,cm->ckji", w[0], w[1], w[2], F, optimize=True) / dx**d


# ------------------------------------------------------------------------------------------------
# the model
# ------------------------------------------------------------------------------------------------
class Model:
    """PI law for one body; every quantity carries its running noise-floor bound (``*_t``)."""

    def __init__(self, d, n, k_eff, c_eff, t0, reset, eps):
        self.d, self.n, self.k, self.c, self.reset, self.eps = d, n, float(k_eff), float(c_eff), reset, eps
        self.I = np.zeros((d, n)); self.I_t = np.zeros((d, n))
        self.e = np.zeros((d, n)); self.e_t = np.zeros((d, n))
        self.F = np.zeros((d, n)); self.F_t = np.zeros((d, n))
        self.t = float(t0); self.t_t = 0.0
        self.stepped_since_eval = False
        self.evaluated_since_step = False

    def step(self, dt):
        dt = float(dt)
        self.I = self.I + dt * self.e
        self.I_t = self.I_t + dt * self.e_t + K * self.eps * (np.abs(self.I) + dt * np.abs(self.e))
        self.t_t += 16 * self.eps * (abs(self.t) + abs(dt))  # dt may be passed in working precision (NEP 50: the clock then is real_t)
        self.t = self.t + dt

    def evaluate(self, X, V, u, shape, dx, shift):
        """returns (w, sup, G*dr) for the optional spreading"""
        d, eps = self.d, self.eps
        w, sup = axis_weights(X, shape, dx, shift)
        au = np.abs(u)
        A = interp(w, au)
        S = interp(sup, au)
        dr = 8.0 * eps * (float(np.max(np.abs(X))) / dx + 2.0)  # rounding of (x_cell - X)/dx in working precision (1.5 eps |X|/dx worst case)
        G = d * (np.pi / 8.0) * 0.5 ** (d - 1)  # bound on |d(prod phi)/dr|
        self.e = interp(w, u) - V
        self.e_t = (K + 4.0**d) * eps * A + K * eps * np.abs(V) + G * dr * S  # 4^d-term sum: worst-case sequential rounding
        self.F = self.k * self.I + self.c * self.e
        self.F_t = abs(self.k) * self.I_t + abs(self.c) * self.e_t + K * eps * (np.abs(self.k * self.I) + np.abs(self.c * self.e))
        return w, sup, G * dr


# ------------------------------------------------------------------------------------------------
# bodies (PyElastica 1.0)
# ------------------------------------------------------------------------------------------------
def _rotz(th):
    c, s = np.cos(th), np.sin(th)
    return np.array([[c, s, 0.0], [-s, c, 0.0], [0.0, 0.0, 1.0]])


def _randrot(rng, angle=None):
    if angle is None:
        q, _ = np.linalg.qr(rng.standard_normal((3, 3)))
        if np.linalg.det(q) < 0:
            q[0] *= -1
        return q
    ax = rng.standard_normal(3); ax /= np.linalg.norm(ax)
    Kx = np.array([[0, -ax[2], ax[1]], [ax[2], 0, -ax[0]], [-ax[1], ax[0], 0]])
    return np.eye(3) + np.sin(angle) * Kx + (1 - np.cos(angle)) * Kx @ Kx


class Body:
    """wrapper: the PyElastica object, how to build its forcing grid / interaction, how to move it"""

    def __init__(self, spec, d, rng, lo, hi):
        import elastica as ea
        import sopht.simulator as sps

        self.spec, self.d, self.kind = spec, d, spec["kind"]
        k = self.kind
        self.ext = {"cyl2d": spec.get("R", 0), "sphere": spec.get("R", 0)}.get(k, 0.62 * spec.get("L", 0) + 1.5 * spec.get("r", 0))
        c = np.zeros(3)
        for a in range(d):
            c[a] = rng.uniform(lo[a] + self.ext, hi[a] - self.ext)
        if k == "cyl2d":
            c[2] = -0.5
            self.body = ea.Cylinder(c, np.array([0.0, 0.0, 1.0]), np.array([1.0, 0.0, 0.0]), 1.0, spec["R"], density=10.0)
            self.grid_cls, self.grid_kw, self.ctor, self.body_kw = sps.CircularCylinderForcingGrid, {"num_forcing_points": spec["N"]}, sps.RigidBodyFlowInteraction, "rigid_body"
            self.s_max = spec["R"] * 2 * np.pi / spec["N"]
        elif k == "sphere":
            self.body = ea.Sphere(c, spec["R"], density=10.0)
            self.grid_cls, self.grid_kw, self.ctor, self.body_kw = sps.SphereForcingGrid, {"num_forcing_points_along_equator": spec["Neq"]}, sps.RigidBodyFlowInteraction, "rigid_body"
            self.s_max = spec["R"] * 2 * np.pi / spec["Neq"]
        else:
            n, L = spec["n"], spec["L"]
            if d == 2:
                th = rng.uniform(0, 2 * np.pi)
                t = np.array([np.cos(th), np.sin(th), 0.0]); nrm = np.array([0.0, 0.0, 1.0])
                rad = spec["r"] * np.linspace(1.0, 0.5, n) if k == "edge" else spec["r"]
            else:
                t = rng.standard_normal(3); t /= np.linalg.norm(t)
                a = rng.standard_normal(3); nrm = a - a.dot(t) * t; nrm /= np.linalg.norm(nrm)
                rad = spec["r"] * np.asarray(spec["taper"], float) / spec["dens"]
            rod = ea.CosseratRod.straight_rod(n, c - 0.5 * L * t, t, nrm, L, rad, density=800.0, youngs_modulus=1e4, shear_modulus=1e4 / 1.5)
            self.body = rod
            if d == 2:  # planar bend + uneven node spacing
                s = np.linspace(0, 1, n + 1)
                s = s + rng.uniform(-0.25, 0.25, n + 1) / n * (np.arange(n + 1) > 0) * (np.arange(n + 1) < n)
                side = np.array([-t[1], t[0], 0.0])
                amp = rng.uniform(-0.12, 0.12) * L
                rod.position_collection[...] = (c - 0.5 * L * t)[:, None] + L * s[None, :] * t[:, None] + amp * np.sin(np.pi * s)[None, :] * side[:, None]
                self._planar_directors()
            rod.compute_internal_forces_and_torques(0.0)
            x = rod.position_collection
            seg = np.linalg.norm(x[:, 1:] - x[:, :-1], axis=0)
            self.ctor, self.body_kw = sps.CosseratRodFlowInteraction, "cosserat_rod"
            if k == "surface":
                self.grid_cls = sps.CosseratRodSurfaceForcingGrid
                self.grid_kw = {"surface_grid_density_for_largest_element": spec["dens"], "with_cap": spec["cap"]}
                self.s_max = max(float(seg.max()), float(np.max(rod.radius) * 2 * np.pi / spec["dens"]))
            else:
                self.grid_cls = {"nodal": sps.CosseratRodNodalForcingGrid, "elem": sps.CosseratRodElementCentricForcingGrid, "edge": sps.CosseratRodEdgeForcingGrid}[k]
                self.grid_kw = {}
                self.s_max = float(seg.max())
        self.randomise_velocity(rng)
        if k in ("cyl2d", "sphere"):
            self.body.director_collection[:, :, 0] = _rotz(rng.uniform(0, 2 * np.pi)) if d == 2 else _randrot(rng)

    # -- geometry helpers ------------------------------------------------------------------------
    def _planar_directors(self):
        rod = self.body
        x = rod.position_collection
        for e in range(rod.n_elems):
            t = x[:, e + 1] - x[:, e]; t = t / np.linalg.norm(t)
            d2 = np.array([0.0, 0.0, 1.0]); d1 = np.cross(d2, t)
            rod.director_collection[:, :, e] = np.array([d1, d2, t])

    def fresh_grid(self):
        return self.grid_cls(grid_dim=self.d, **{self.body_kw: self.body}, **self.grid_kw)

    def arrays(self):
        return {k: v for k, v in vars(self.body).items() if isinstance(v, np.ndarray)}

    def snapshot(self):
        return {k: v.copy() for k, v in self.arrays().items()}

    def randomise_velocity(self, rng):
        b, d = self.body, self.d
        sc = float(rng.choice([0.0, 0.1, 1.0, 1.0, 30.0]))
        b.velocity_collection[...] = sc * rng.standard_normal(b.velocity_collection.shape)
        b.omega_collection[...] = sc * 3 * rng.standard_normal(b.omega_collection.shape)
        if d == 2:
            b.velocity_collection[2] = 0.0
            if self.kind == "cyl2d":
                b.omega_collection[:2] = 0.0
            else:  # planar rod: lab-frame omega along z == local d2 component with the directors used here
                b.omega_collection[0] = 0.0; b.omega_collection[2] = 0.0

    def move(self, rng, dx, lo, hi):
        """random rigid motion (+ in-plane node jitter for 2-D rods), new velocities; reverted when a
        marker would leave the admissible box.  Returns True if the pose changed."""
        b, d, k = self.body, self.d, self.kind
        saved = self.snapshot()
        mode = rng.choice(["pose+vel", "pose", "vel"])
        if mode != "vel":
            sh = np.zeros(3); sh[:d] = rng.uniform(-1.5, 1.5, d) * dx
            if k in ("cyl2d", "sphere"):
                b.position_collection[:, 0] += sh
                b.director_collection[:, :, 0] = (_rotz(rng.uniform(0, 2 * np.pi)) if d == 2 else _randrot(rng))
            else:
                x = b.position_collection
                c = x.mean(axis=1, keepdims=True)
                R = _rotz(rng.uniform(-0.4, 0.4)).T if d == 2 else _randrot(rng, rng.uniform(-0.5, 0.5))
                x[...] = c + R @ (x - c) + sh[:, None]
                if d == 2:
                    jit = np.zeros_like(x); jit[:2] = rng.uniform(-0.04, 0.04, (2, x.shape[1])) * self.spec["L"] / self.spec["n"]
                    x += jit
                    self._planar_directors()
                else:
                    Q = b.director_collection
                    for e in range(b.n_elems):
                        Q[:, :, e] = Q[:, :, e] @ R.T
                b.compute_internal_forces_and_torques(0.0)
        if mode != "pose":
            self.randomise_velocity(rng)
        X = self.fresh_grid().position_field
        ok = all(X[a].min() >= lo[a] and X[a].max() <= hi[a] for a in range(d))
        if not ok:
            for name, v in self.arrays().items():
                v[...] = saved[name]
            return False
        return True


def history_layout(hidx):
    """array layout of the Eulerian fields of history ``hidx``: every third history non-contiguous, alternating the two layouts numba
    distinguishes (any strided view is layout 'A', column-major storage is 'F': one more compilation each per closure)"""
    return {1: "views", 4: "fortran"}.get(hidx % 6)


def layout_view(rng, a, lay):
    """the values of ``a`` (>= 2 axes) as a non-contiguous array: "views" = interior of a sentinel-padded parent or every second element
    of a parent along every axis, "fortran" = column-major storage (a (d, N) Lagrangian field: (N, d) storage passed as ``.T``)"""
    if lay is None:
        return a
    return util.noncontiguous_copy(rng, a, mode="fortran" if lay == "fortran" else ("pad", "step")[int(rng.integers(2))])


# ------------------------------------------------------------------------------------------------
# VirtualBoundaryForcing driven directly (the class the interactions inherit the PI law from): every array is a caller argument
# ------------------------------------------------------------------------------------------------
SCALAR_KINDS = ("python-float", "np.float64", "working-precision-scalar", "0d-array")
N_DIRECT = {"quick": 4, "thorough": 12}


def scalar_as(kind, v, real_t):
    """the value v as one of the scalar types a caller may pass where the API takes a scalar"""
    if kind == "python-float":
        return float(v)
    if kind == "np.float64":
        return np.float64(float(v))
    if kind == "working-precision-scalar":
        return real_t(v)
    if kind == "0d-array":
        return np.array(real_t(v))
    raise ValueError(kind)


def expected_field(m, w, sup, gdr, f0, dx, eps):
    """model of the Eulerian forcing field after one full evaluation of body model ``m`` on a field that held ``f0`` (same recurrences
    as in ``run_history``): (values, running noise floor)"""
    d = m.d
    sp = spread(w, m.F, dx)
    absum = spread(w, np.abs(m.F), dx)  # sum over markers of |contribution| per cell
    cnt = spread(sup, np.ones_like(m.F), dx) * dx**d  # markers whose stencil covers the cell: one rounding each
    sp_t = spread(w, m.F_t, dx) + gdr * spread(sup, np.abs(m.F), dx)
    if m.reset:
        return sp, sp_t + m.eps * (K + 2 * cnt) * absum
    f0 = np.asarray(f0, np.float64)
    return f0 + sp, sp_t + m.eps * (K + 2 * cnt) * (np.abs(f0) + absum)


def run_direct(rec, rng, sh, j):
    """One history on ONE ``VirtualBoundaryForcing`` object called the way ``ImmersedBodyFlowInteraction`` calls it, but with every
    array a caller argument, so that the argument dimensions the interactions never vary can be driven:

    0. a fresh object (I = 0) evaluated on fluid at rest and markers at rest: e = 0 and F = 0 EXACTLY, and spreading the all-zero F leaves
       a finite pre-filled forcing field unchanged (accumulate) / exactly zero (reset mode);
    1. evaluations / time steps whose array arguments are, per call, contiguous / strided or padded views / column-major ((N, d) storage
       passed as ``.T`` for the Lagrangian arrays) -- results read back through ``np.ascontiguousarray``;
    2. K = 3..6 full evaluations + time steps in a tight loop where every array argument is a TEMPORARY view ``stack[name][k]`` of
       different memory (CPython recycles their id()), compared afterwards: every ``stack["f"][k]`` and the final marker state;
    3. ``time_step(0)`` in every scalar type (integral and clock unchanged exactly); fluid and markers at rest again, now with I != 0
       (e = 0 exactly; with stiffness 0 the force is exactly zero and the forcing field keeps its values).
    Scalar arguments (dx, shift, coefficients, start time, dt) are passed as python floats / np.float64 / working-precision scalars /
    0-d arrays; stiffness 0 with damping != 0 and damping 0 with stiffness != 0 are dedicated cases.  The model and its noise floors are
    those of ``run_history`` (``k_eff = k``: the rescaling by the marker spacing belongs to the interaction classes)."""
    from sopht.numeric.immersed_boundary_ops import VirtualBoundaryForcing

    d = sh["dim"]
    real_t = util.DT[sh["dtype"]]
    eps = util.eps(real_t)
    pool = POOL[d][sh["pool"]]
    dxv = real_t(pool["dx"])
    dx = float(dxv)
    # grid origin: the last history of every four is built with an eul_grid_coord_shift that is NOT dx/2 (cell centre i at i*dx + shift):
    # exactly 0, dx/4, or x0 + dx/2 for a domain starting at x0 = -2 dx / +3.5 dx -- one variant per (rep, pool), all four per (dim, dtype)
    origin = ("zero", "quarter-cell", "domain-starts-at-minus-2dx", "domain-starts-at-plus-3.5dx")[(sh["rep"] + 2 * sh["pool"]) % 4] if j % 4 == 3 else None
    shiftv = real_t({None: dx / 2, "zero": 0.0, "quarter-cell": dx / 4, "domain-starts-at-minus-2dx": -1.5 * dx, "domain-starts-at-plus-3.5dx": 4.0 * dx}[origin])
    shift = float(shiftv)
    off_origin = shift - float(real_t(dxv / 2))  # markers move with the grid origin
    lo_n, hi_n = SHAPE_RANGE[d]
    shape = util.shape2d(rng, lo_n, hi_n) if d == 2 else util.shape3d(rng, lo_n, hi_n)
    ext = [shape[d - 1 - a] * dx for a in range(d)]
    lo = [2.5 * dx] * d
    hi = [ext[a] - 2.5 * dx for a in range(d)]
    # marker count of the pool's first body (cylinder / sphere): the (dx, N) closures are the ones the interactions compile anyway
    N = Body(pool["bodies"][0], d, rng, lo, hi).fresh_grid().num_lag_nodes
    kind = SCALAR_KINDS[(j + sh["rep"]) % 4]
    zero_mode = ("k=0", "c=0", "none", "none")[j % 4]
    reset = bool((j // 2 + sh["pool"] + sh["rep"]) % 2)
    kc = 0.0 if zero_mode == "k=0" else -float(10 ** rng.uniform(2, 5)) * float(rng.choice([1, 1, 1, -1]))
    cc = 0.0 if zero_mode == "c=0" else -float(10 ** rng.uniform(-1, 1.5)) * float(rng.choice([1, 1, 1, -1]))
    t0 = float(rng.choice([0.0, rng.uniform(-1, 5)]))
    # start_time is never passed as a 0-d array: ``self.time += dt`` would then update the CALLER's array in place (Python semantics of
    # += on an ndarray attribute), which says nothing about the PI law
    k_arg, c_arg = scalar_as(kind, kc, real_t), scalar_as(kind, cc, real_t)
    t_arg = scalar_as("working-precision-scalar" if kind == "0d-array" else kind, t0, real_t)
    ckw = dict(virtual_boundary_stiffness_coeff=k_arg, virtual_boundary_damping_coeff=c_arg, grid_dim=d, dx=scalar_as(kind, dxv, real_t), num_lag_nodes=N,
               real_t=real_t, enable_eul_grid_forcing_reset=reset, num_threads=2, start_time=t_arg)
    if j % 2:
        ckw.update(eul_grid_coord_shift=scalar_as(kind, shiftv, real_t), interp_kernel_width=2)
    meta = {"dim": d, "dtype": sh["dtype"], "shape": list(shape), "dx": dx, "N": N, "object": "VirtualBoundaryForcing (direct)", "scalars_passed_as": kind,
            "zero_coefficient": zero_mode, "reset": reset}
    if origin is not None:
        meta["eul_grid_coord_shift"] = shift
        rec.count("vbf_direct_histories_grid_origin_not_half_a_cell")
        rec.count(f"vbf_direct_histories_grid_origin_{origin}")
    rec.count("vbf_direct_histories")
    rec.count(f"vbf_ctor_scalars_as_{kind}")
    ops = []

    def fail(mech, msg):
        rec.violation(mech, f"{msg} after op #{len(ops) - 1} {ops[-1] if ops else None}; {meta}", {"meta": meta, "ops": ops, "j": j})
        return False

    try:
        vb = VirtualBoundaryForcing(**ckw)
    except Exception as e:
        fail("ctor-raises", f"{type(e).__name__}: {str(e)[:300]}")
        rec.case(None)
        return
    m = Model(d, N, float(k_arg), float(c_arg), float(t_arg), reset, eps)
    n_real = 0

    def compare(f_got=None, f_ref=None, f_tol=None):
        ok = True
        for name, got, ref, tol in (
            ("marker-force", vb.lag_grid_forcing_field, m.F, m.F_t),
            ("integral", vb.lag_grid_position_mismatch_field, m.I, m.I_t),
            ("velocity-mismatch", vb.lag_grid_velocity_mismatch_field, m.e, m.e_t),
        ):
            r = util.err_over_tol(got, ref, tol + 1e-300)
            rec.stat(name, r); rec.stat(f"{name}_{sh['dtype']}_{d}d", r)
            if r > 1:
                ok = fail(f"{name}!=model", f"err/tol={r:.3g} max|ref|={util.maxabs(ref):.3g}")
        r = abs(float(vb.time) - m.t) / (m.t_t + 1e-300)
        rec.stat("time", r)
        if r > 1:
            ok = fail("time!=start+sum(dt)", f"time={vb.time!r} model={m.t!r}")
        if f_got is not None:
            r = util.err_over_tol(f_got, f_ref, f_tol + 1e-300)
            rec.stat("eulerian-forcing", r); rec.stat(f"eulerian-forcing_{sh['dtype']}_{d}d", r)
            if r > 1:
                ok = fail("eul-forcing!=model", f"err/tol={r:.3g} max|ref|={util.maxabs(f_ref):.3g}")
        rec.count("vbf_direct_ops_compared")
        return ok

    def inputs(rest=False):
        """(u, X, V): flow field in working precision, float64 marker positions >= 2.5 cells inside and marker velocities (the forcing
        grids' arrays are float64); rest: fluid and markers at rest"""
        X = np.array([rng.uniform(lo[a], hi[a], N) for a in range(d)]) + off_origin
        if rest:
            return np.zeros((d, *shape), real_t), X, np.zeros((d, N))
        u = _gen_u(rng, shape, d, real_t, float(rng.choice([1e-2, 1.0, 1.0, 1e2])))
        return u, X, float(rng.choice([0.1, 1.0, 1.0, 30.0])) * rng.standard_normal((d, N))

    def evaluate(op, u, X, V, f, lay=None):
        """one real evaluation ('call' = full interaction into f, 'lag' = marker force only) with the arrays in layout ``lay``, followed by
        the model and the comparison; returns (ok, field read back)"""
        nonlocal n_real
        ua = layout_view(rng, u, lay)
        ua.flags.writeable = False  # what the interactions hand over: a read-only view of the flow velocity
        Xa = np.ascontiguousarray(X.T).T if lay else X  # positions: C or (N, d) storage passed as .T (strided ones: see the docstring)
        Va = layout_view(rng, V, lay)
        fa = layout_view(rng, f.copy(), lay) if lay else f
        f0 = f.copy()
        ops.append([op, lay])
        try:
            if op == "call":
                vb.compute_interaction_forcing(eul_grid_forcing_field=fa, eul_grid_velocity_field=ua, lag_grid_position_field=Xa, lag_grid_velocity_field=Va)
            else:
                vb.compute_interaction_force_on_lag_grid(eul_grid_velocity_field=ua, lag_grid_position_field=Xa, lag_grid_velocity_field=Va)
        except Exception as e:
            return fail(f"{op}-raises", f"{type(e).__name__}: {str(e)[:300]}"), f
        n_real += 1
        if lay:
            rec.count("vbf_calls_with_noncontiguous_array_arguments")
            rec.count(f"vbf_calls_layout_{lay}")
        if not (util.bits_equal(ua, u) and util.bits_equal(Xa, X) and util.bits_equal(Va, V)):
            return fail("evaluation-modifies-its-inputs", "flow velocity, marker positions or marker velocities changed"), f
        got = np.ascontiguousarray(fa)
        if op != "call" and not util.bits_equal(got, f0):
            return fail("eul-forcing-touched-by-lag-only-evaluation", "compute_interaction_force_on_lag_grid changed an array it was not given"), f
        w, sup, gdr = m.evaluate(X, V, u.astype(np.float64), shape, dx, shift)
        if m.k == 0 and m.c != 0 and np.any(m.e != 0):
            rec.count("vbf_evaluations_zero_stiffness_nonzero_damping")
        if m.c == 0 and m.k != 0 and np.any(m.I != 0):
            rec.count("vbf_evaluations_zero_damping_nonzero_stiffness_and_integral")
        if op == "call":
            fref, ftol = expected_field(m, w, sup, gdr, f0, dx, eps)
            return compare(got, fref, ftol), got
        return compare(), got

    def step(dt, dkind):
        arg = scalar_as(dkind, dt, real_t)
        ops.append(["dt", float(arg), dkind])
        I0, tb = np.array(vb.lag_grid_position_mismatch_field, copy=True), float(vb.time)
        try:
            vb.time_step(arg)
        except Exception as e:
            return fail("dt-raises", f"{type(e).__name__}: {str(e)[:300]}")
        rec.count(f"vbf_time_steps_dt_as_{dkind}")
        if float(arg) == 0.0:
            rec.count("vbf_time_steps_dt_exactly_zero")
            if not np.array_equal(vb.lag_grid_position_mismatch_field, I0):
                return fail("integral-changed-by-time_step(0)", f"time_step({arg!r}) changed the integral of the velocity mismatch")
            if abs(float(vb.time) - tb) > eps * abs(tb):  # one rounding: NEP 50 makes the clock a working-precision scalar
                return fail("time-changed-by-time_step(0)", f"time_step({arg!r}) moved the clock from {tb!r} to {vb.time!r}")
        elif not np.any(m.e):
            rec.count("vbf_time_steps_with_exactly_zero_velocity_mismatch")
            if not np.array_equal(vb.lag_grid_position_mismatch_field, I0):
                return fail("integral-changed-by-zero-velocity-mismatch", f"time_step({arg!r}) with an exactly zero velocity mismatch changed the integral")
        m.step(arg)
        return compare()

    def at_rest(f):
        """fluid and markers at rest: e = 0 exactly; when also k * I = 0 exactly the all-zero marker force must leave the finite field
        unchanged (accumulate) or exactly zero (reset mode)"""
        u, X, V = inputs(rest=True)
        f0 = f.copy()
        ok, got = evaluate("call", u, X, V, f)
        if not ok:
            return False, got
        rec.count("vbf_evaluations_exactly_zero_velocity_mismatch")
        if np.any(vb.lag_grid_velocity_mismatch_field != 0):
            return fail("velocity-mismatch!=0-for-fluid-and-markers-at-rest", f"max |e| = {util.maxabs(vb.lag_grid_velocity_mismatch_field)!r}"), got
        if m.k == 0 or not np.any(m.I):
            rec.count("vbf_spreads_of_exactly_zero_marker_force")
            if np.any(vb.lag_grid_forcing_field != 0):
                return fail("marker-force!=0-for-zero-mismatch-and-zero-stiffness-or-integral", f"max |F| = {util.maxabs(vb.lag_grid_forcing_field)!r}"), got
            want = np.zeros_like(f0) if reset else f0
            if not np.array_equal(got, want):
                return fail("zero-marker-force-changes-eul-forcing", f"{int((got != want).sum())} cells of the forcing field differ from {'zero (reset mode)' if reset else 'their previous values'}"), got
        return True, got

    def body():
        nonlocal n_real
        # a finite, sentinel-free forcing field
        f = util.field(rng, (d, *shape), "noise", real_t)
        # -- 0: fresh object, everything at rest
        ok, f = at_rest(f)
        if not ok:
            return
        # -- 1: evaluations and steps, array layouts varied per call
        u, X, V = inputs()
        nev = 0
        for i in range(int(rng.integers(8, 15))):
            op = str(rng.choice(["call", "call", "lag", "dt", "dt"]))
            if i == 0:
                op = "call"
            if op == "dt":
                if not step(float(10 ** rng.uniform(-6, -1)), SCALAR_KINDS[int(rng.integers(4))]):
                    return
                continue
            if rng.random() < 0.6:
                u, X, V = inputs()
            lay = (None, "views", "fortran")[nev % 3]
            nev += 1
            ok, f = evaluate(op, u, X, V, f, lay)
            if not ok:
                return
        # -- 2: tight loop, every array argument a temporary view of different memory
        Kh = int(rng.integers(3, 7))
        ins = [inputs() for _ in range(Kh)]
        S = {
            "u": np.stack([i_[0] for i_ in ins]),
            "X": np.stack([i_[1] for i_ in ins]),
            "V": np.stack([i_[2] for i_ in ins]),
            "f": np.stack([util.field(rng, (d, *shape), str(rng.choice(["noise", "small", "int"])), real_t) for _ in range(Kh)]),
        }
        S["u"].flags.writeable = False
        dts = [scalar_as(SCALAR_KINDS[int(rng.integers(4))], float(10 ** rng.uniform(-6, -1)), real_t) for _ in range(Kh)]
        before = {n: S[n].copy() for n in S}
        ops.append(["temporary-view-history", Kh])
        try:
            for k in range(Kh):
                vb.compute_interaction_forcing(eul_grid_forcing_field=S["f"][k], eul_grid_velocity_field=S["u"][k], lag_grid_position_field=S["X"][k], lag_grid_velocity_field=S["V"][k])
                vb.time_step(dts[k])
        except Exception as e:
            fail("call-raises", f"history of temporary views, call {k + 1} of {Kh}: {type(e).__name__}: {str(e)[:300]}")
            return
        n_real += 2 * Kh
        rec.count("vbf_histories_of_temporary_view_arguments")
        rec.count("vbf_calls_with_temporary_view_arguments", Kh)
        if not all(util.bits_equal(S[n], before[n]) for n in ("u", "X", "V")):
            fail("evaluation-modifies-its-inputs", "flow velocity, marker positions or marker velocities changed during the history of temporary views")
            return
        for k in range(Kh):
            w, sup, gdr = m.evaluate(before["X"][k], before["V"][k], before["u"][k].astype(np.float64), shape, dx, shift)
            fref, ftol = expected_field(m, w, sup, gdr, before["f"][k], dx, eps)
            r = util.err_over_tol(S["f"][k], fref, ftol + 1e-300)
            rec.stat("eulerian-forcing", r)
            rec.stat("eulerian-forcing_temporary_view_history", r)
            if r > 1:
                fail("eul-forcing!=model", f"call {k + 1} of {Kh} with temporary views stack[name][k] of different memory: err/tol={r:.3g} max|ref|={util.maxabs(fref):.3g}")
                return
            m.step(dts[k])
        if not compare():
            return
        # -- 3: exact zeros with a non-trivial integral
        for dk in SCALAR_KINDS:
            if not step(0.0, dk):
                return
        ok, f = at_rest(f)
        if not ok:
            return
        if not step(float(10 ** rng.uniform(-4, -1)), SCALAR_KINDS[int(rng.integers(4))]):  # e = 0 exactly: the integral keeps its values
            return
        u, X, V = inputs()
        ok, f = evaluate("call", u, X, V, f)
        if not ok:
            return

    body()
    rec.case((d, sh["dtype"], "vbf-direct", kind, zero_mode, reset), sample={**meta, "ops_head": ops[:8]}, n=max(1, n_real))


# ------------------------------------------------------------------------------------------------
# one history
# ------------------------------------------------------------------------------------------------
def _gen_u(rng, shape, d, real_t, scale):
    kind = str(rng.choice(["noise", "noise", "smooth", "spikes", "const"]))
    u = np.stack([util.field(rng, shape, kind, np.float64) for _ in range(d)]) * scale
    return np.ascontiguousarray(u.astype(real_t))


def run_history(rec, rng, sh, hidx, length, force=None):
    d = sh["dim"]
    real_t = util.DT[sh["dtype"]]
    eps = util.eps(real_t)
    pool = POOL[d][sh["pool"]]
    dx = float(real_t(pool["dx"]))
    lo_n, hi_n = SHAPE_RANGE[d]
    shape = util.shape2d(rng, lo_n, hi_n) if d == 2 else util.shape3d(rng, lo_n, hi_n)
    shift = float(real_t(dx / 2))
    ext = [shape[d - 1 - a] * dx for a in range(d)]  # component order x, y(, z)
    lo = [2.5 * dx] * d
    hi = [ext[a] - 2.5 * dx for a in range(d)]
    nb = int(rng.choice([1, 1, 2, 2, 3]))
    specs = [pool["bodies"][int(i)] for i in rng.integers(0, len(pool["bodies"]), nb)]
    if hidx < len(pool["bodies"]):
        specs[0] = pool["bodies"][hidx]  # every configuration is visited by every shard
    if force is not None:
        specs[0] = pool["bodies"][force]
    uscale = float(rng.choice([1e-2, 1.0, 1.0, 1e2]))
    u = _gen_u(rng, shape, d, real_t, uscale)
    f = np.zeros((d, *shape), real_t) if rng.random() < 0.5 else util.field(rng, (d, *shape), "noise", real_t)
    meta = {"dim": d, "dtype": sh["dtype"], "shape": list(shape), "dx": dx, "bodies": [s["kind"] for s in specs]}
    lay = history_layout(hidx)
    if lay is not None:
        # the two Eulerian fields the caller hands to the constructor are NON-contiguous views holding the same values (interior of a
        # sentinel-padded parent / every second cell of a parent / column-major storage); everything below reads them through NumPy
        u, f = layout_view(rng, u, lay), layout_view(rng, f, lay)
        meta["eulerian_field_layout"] = lay
        rec.count("histories_noncontiguous_eulerian_fields")
        rec.count(f"histories_eulerian_fields_layout_{lay}")
    fm = f.astype(np.float64)
    fm_t = np.zeros_like(fm)

    bodies, its, models = [], [], []
    for s in specs:
        b = Body(s, d, rng, lo, hi)
        kc = -float(10 ** rng.uniform(2, 5)) * float(rng.choice([1, 1, 1, -1]))
        cc = -float(10 ** rng.uniform(-1, 1.5)) * float(rng.choice([1, 1, 1, -1]))
        if rng.random() < 0.06:
            kc = 0.0
        elif rng.random() < 0.06:
            cc = 0.0
        reset = bool(rng.random() < 0.4)
        t0 = float(rng.choice([0.0, rng.uniform(-1, 5)]))
        ckw = dict(eul_grid_forcing_field=f, eul_grid_velocity_field=u, virtual_boundary_stiffness_coeff=kc, virtual_boundary_damping_coeff=cc,
                   dx=real_t(dx), grid_dim=d, real_t=real_t, forcing_grid_cls=b.grid_cls, enable_eul_grid_forcing_reset=reset, num_threads=2, start_time=t0)
        api = int(rng.integers(0, 3))
        if api == 1:
            # documented defaults left out wherever they coincide with the requested configuration
            # (real_t=np.float64, enable_eul_grid_forcing_reset=False, num_threads=False [reset kernel only], start_time=0.0)
            del ckw["num_threads"]
            if not reset:
                del ckw["enable_eul_grid_forcing_reset"]
            if t0 == 0.0:
                del ckw["start_time"]
            if real_t is np.float64:
                del ckw["real_t"]
            rec.count("ctor_with_defaults_left_out")
        elif api == 2:
            # the two optional geometry arguments given explicitly with their documented default values
            ckw.update(eul_grid_coord_shift=real_t(dx / 2), interp_kernel_width=2)
            rec.count("ctor_with_explicit_shift_and_width")
        try:
            it = b.ctor(**{b.body_kw: b.body}, **ckw, **b.grid_kw)
        except Exception as e:
            rec.violation("ctor-raises", f"{type(e).__name__}: {e} {meta}", {"meta": meta, "spec": s})
            rec.case(None)
            return
        n = it.forcing_grid.num_lag_nodes
        # s_max: the value the grid reports must equal the independently recomputed geometry value (PyElastica adds
        # 1e-14 to every element length, hence the absolute term for rods); the model then uses the verified reported
        # value so that this 3e-13 relative offset does not have to be carried through every tolerance.
        s_rep = float(it.forcing_grid.get_maximum_lagrangian_grid_spacing())
        s_tol = 64 * np.finfo(np.float64).eps * b.s_max + (2e-13 if s["kind"] in ("nodal", "elem", "edge", "surface") else 0.0)
        r = abs(s_rep - b.s_max) / s_tol
        rec.stat("s_max", r)
        if r > 1:
            rec.violation("s_max!=max-marker-spacing", f"grid reports {s_rep}, geometry gives {b.s_max} ({s['kind']}) {meta}", {"meta": meta, "spec": s})
            rec.case(None)
            return
        m = Model(d, n, kc * s_rep ** (d - 1), cc * s_rep ** (d - 1), t0, reset, eps)
        bodies.append(b); its.append(it); models.append(m)
        rec.count("grid_" + s["kind"])
    if nb > 1:
        rec.count("multi_body_histories")
    flags = [m.reset for m in models]

    ops = []
    n_real = 0
    pattern = set()
    ncalls = [0] * nb
    # every fourth history: at one point every array ATTRIBUTE of one body is replaced by another array object with the same values
    # (what PyElastica's simulator.finalize() does AFTER the interactor was built), the body is then moved through its new arrays and
    # the same interaction object is evaluated again: a reference to a body array taken at construction would be stale
    rebind_at = int(rng.integers(1, max(2, (2 * length) // 3))) if hidx % 4 == 2 else -1
    pending = []
    rebound = [False] * nb

    def fail(mech, msg):
        rec.violation(mech, f"{msg} after op #{len(ops) - 1} {ops[-1] if ops else None}; {meta} reset={flags}",
                      {"meta": meta, "ops": ops, "specs": specs, "reset": flags, "hidx": hidx})
        return False

    def compare_all():
        ok = True
        for ib, (it, m) in enumerate(zip(its, models)):
            for name, got, ref, tol in (
                ("marker-force", it.lag_grid_forcing_field, m.F, m.F_t),
                ("integral", it.lag_grid_position_mismatch_field, m.I, m.I_t),
                ("velocity-mismatch", it.lag_grid_velocity_mismatch_field, m.e, m.e_t),
            ):
                r = util.err_over_tol(got, ref, tol + 1e-300)
                rec.stat(name, r); rec.stat(f"{name}_{sh['dtype']}_{d}d", r)
                if r > 1:
                    ok = fail(f"{name}!=model", f"body {ib} ({specs[ib]['kind']}) err/tol={r:.3g} max|ref|={util.maxabs(ref):.3g}")
            r = abs(float(it.time) - m.t) / (m.t_t + 1e-300)
            rec.stat("time", r)
            if r > 1:
                ok = fail("time!=start+sum(dt)", f"body {ib} time={it.time!r} model={m.t!r}")
            if it.eul_grid_velocity_field.flags.writeable:
                ok = fail("velocity-view-writeable", f"body {ib}: the interaction's view of the flow velocity is writeable")
        r = util.err_over_tol(f, fm, fm_t + 1e-300)
        rec.stat("eulerian-forcing", r); rec.stat(f"eulerian-forcing_{sh['dtype']}_{d}d", r)
        if r > 1:
            ok = fail("eul-forcing!=model", f"err/tol={r:.3g} max|ref|={util.maxabs(fm):.3g}")
        rec.count("ops_compared")
        return ok

    if not compare_all():
        rec.case(None)
        return

    for step in range(length):
        op = str(rng.choice(OPS, p=OPW))
        ib = int(rng.integers(0, nb))
        if step == rebind_at:
            pending = [("rebind+move", ib), (str(rng.choice(["call", "forces", "lag"])), ib)]
        if pending:
            op, ib = pending.pop(0)
        it, m, b = its[ib], models[ib], bodies[ib]
        rebind = op == "rebind+move"
        if rebind:
            op = "move"
        if op == "dt":
            dt = float(10 ** rng.uniform(-6, -1))
            r_kind = rng.random()
            if rng.random() < 0.08:
                dt = 0.0  # a step of exactly zero length: integral and clock keep their values
            # scalar type of the argument: working-precision scalar (30 %), np.float64, 0-d array (working precision or float64), python float
            if r_kind < 0.3:
                arg, akind = real_t(dt), "working-precision-scalar"
            elif r_kind < 0.4:
                arg, akind = np.float64(dt), "np.float64"
            elif r_kind < 0.5:
                arg, akind = np.array(dt, dtype=(real_t if rng.random() < 0.5 else np.float64)), "0d-array"
            else:
                arg, akind = dt, "python-float"
            rec.count(f"time_steps_dt_as_{akind}")
            ops.append(["dt", ib, float(arg)])
        elif op == "move":
            if rebind:
                from .. import bodies as rv_bodies

                rec.count("body_array_attributes_rebound", rv_bodies.rebind_arrays(b.body))
                rec.count("histories_with_body_arrays_rebound_like_finalize")
                rebound[ib] = True
            moved = b.move(rng, dx, lo, hi)
            for _ in range(5 if rebind else 0):  # a move that would leave the admissible box is reverted: try again
                moved = moved or b.move(rng, dx, lo, hi)
            ops.append(["rebind-arrays+move" if rebind else "move", ib, bool(moved)])
            rec.count("body_moves" if moved else "moves_rejected")
        elif op == "flow":
            if rng.random() < 0.3:
                uscale = float(rng.choice([1e-2, 1.0, 1e2]))
            u[...] = _gen_u(rng, shape, d, real_t, uscale)
            if rng.random() < 0.15:
                u[...] = 0  # fluid at rest: with a body at rest the velocity mismatch is exactly zero
                rec.count("flow_overwrites_with_all_zero_field")
            ops.append(["flow", None, uscale])
            rec.count("flow_overwrites")
        elif op == "zero":
            f[...] = 0
            fm[...] = 0; fm_t[...] = 0
            ops.append(["zero", None])
            rec.count("external_zeroings")
        elif op == "fnoise":
            f[...] = util.field(rng, f.shape, "noise", real_t)
            fm[...] = f; fm_t[...] = 0
            ops.append(["fnoise", None])
        else:
            ops.append([op, ib])

        if op in ("dt", "call", "forces", "lag"):
            u0 = u.copy()
            f0 = f.copy()
            snaps = [bb.snapshot() for bb in bodies]
            zero_dt = op == "dt" and float(arg) == 0.0
            if zero_dt:
                I_before, t_before = np.array(it.lag_grid_position_mismatch_field, copy=True), float(it.time)
            try:
                if op == "dt":
                    it.time_step(arg)
                elif op == "call":
                    it()
                elif op == "forces":
                    it.compute_flow_forces_and_torques()
                else:
                    it.compute_interaction_on_lag_grid()
            except Exception as e:
                fail(f"{op}-raises", f"{type(e).__name__}: {str(e)[:300]}")
                break
            n_real += 1
            # read-only obligations
            rec.count("bitwise_snapshots_flow")
            if not util.bits_equal(u, u0):
                fail("flow-velocity-modified", f"{op} changed {util.nbits_differ(u, u0)} bytes of the flow velocity field")
                break
            bad = None
            for jb, (bb, sn) in enumerate(zip(bodies, snaps)):
                rec.count("bitwise_snapshots_body")
                for name, v in bb.arrays().items():
                    if not util.bits_equal(v, sn[name]):
                        bad = (jb, name)
            if bad:
                fail("body-state-modified", f"{op} on body {ib} changed {bad[1]} of body {bad[0]}")
                break
            if op != "call" and not util.bits_equal(f, f0):
                fail("eul-forcing-touched-by-" + ("time_step" if op == "dt" else "lag-only-evaluation"), f"{op} changed the Eulerian forcing field")
                break
            if zero_dt:
                # Euler forward over a step of exactly zero length: I + 0 * e = I and t + 0 = t (compared by value, finite e)
                rec.count("time_steps_with_dt_exactly_zero")
                if not np.array_equal(it.lag_grid_position_mismatch_field, I_before):
                    fail("integral-changed-by-time_step(0)", f"body {ib}: time_step({arg!r}) changed the integral of the velocity mismatch")
                    break
                if abs(float(it.time) - t_before) > eps * abs(t_before):  # one rounding: NEP 50 makes the clock a working-precision scalar
                    fail("time-changed-by-time_step(0)", f"body {ib}: time_step({arg!r}) moved the clock from {t_before!r} to {it.time!r}")
                    break
            # model
            if op == "dt":
                if m.stepped_since_eval:
                    rec.count("consecutive_steps_without_evaluation")
                m.step(arg)
                m.stepped_since_eval = True
                m.evaluated_since_step = False
                pattern.add("dt")
            else:
                g = b.fresh_grid()
                X, V = g.position_field, g.velocity_field
                if g.num_lag_nodes != m.n:
                    raise RuntimeError("harness: fresh forcing grid has a different marker count")
                rg = max(util.err_over_tol(it.forcing_grid.position_field, X, 8 * np.finfo(np.float64).eps * (np.abs(X) + dx)),
                         util.err_over_tol(it.forcing_grid.velocity_field, V, 8 * np.finfo(np.float64).eps * (np.abs(V) + util.maxabs(V)) + 1e-300))
                rec.stat("markers_vs_fresh_grid", rg)
                if rg > 1:
                    fail("evaluation-uses-stale-markers", f"forcing grid of body {ib} differs from a fresh grid on the current body state (ratio {rg:.3g})")
                    break
                w, sup, gdr = m.evaluate(X, V, u.astype(np.float64), shape, dx, shift)
                if d == 3 and m.k != 0 and np.any(m.I != 0):
                    rec.count("evaluations_3d_with_nonzero_integral_and_stiffness")  # s_max**(d-1) vs s_max*(d-1) differ only here
                if m.k == 0 and m.c != 0 and np.any(m.e != 0):
                    rec.count("evaluations_zero_stiffness_nonzero_damping")
                if m.c == 0 and m.k != 0 and np.any(m.I != 0):
                    rec.count("evaluations_zero_damping_nonzero_stiffness_and_integral")
                if not np.any(u0) and not np.any(V):
                    rec.count("evaluations_with_exactly_zero_velocity_mismatch")  # the model's floor is 0 there: compared exactly
                if rebound[ib]:
                    rec.count("evaluations_after_body_arrays_rebound")
                if m.evaluated_since_step:
                    rec.count("repeated_evaluations_without_step")
                if m.stepped_since_eval:
                    rec.count("evaluations_after_step")
                m.evaluated_since_step = True
                m.stepped_since_eval = False
                pattern.add(op)
                if op == "call":
                    nonzero = bool(np.any(f0))
                    sp = spread(w, m.F, dx)
                    absum = spread(w, np.abs(m.F), dx)  # sum over markers of |contribution| per cell
                    cnt = spread(sup, np.ones_like(m.F), dx) * dx**d  # markers whose stencil covers the cell: one rounding each
                    sp_t = spread(w, m.F_t, dx) + gdr * spread(sup, np.abs(m.F), dx)
                    ncalls[ib] += 1
                    if m.reset:
                        fm[...] = sp; fm_t[...] = sp_t + eps * (K + 2 * cnt) * absum
                        rec.count("reset_mode_calls")
                        if nonzero:
                            rec.count("reset_mode_calls_on_nonzero_field")
                        # content OUTSIDE this body's stencil footprint (written by another body or by the caller) at its 2nd, 3rd, ...
                        # call: the reset variant must wipe the whole field, not only where the body spreads
                        if ncalls[ib] >= 2 and np.any(f0[:, ~(cnt[0] > 0.5)] != 0):
                            rec.count("reset_mode_calls_2nd_or_later_with_content_outside_footprint")
                    else:
                        fm_t[...] = fm_t + sp_t + eps * (K + 2 * cnt) * (np.abs(fm) + absum); fm[...] = fm + sp
                        rec.count("accumulate_calls")
                        if nonzero:
                            rec.count("accumulate_calls_on_nonzero_field")
        if not compare_all():
            break

    nontrivial = "dt" in pattern and (pattern & {"call", "forces", "lag"})
    lenc = "short" if length < 15 else ("mid" if length < 35 else "long")
    cls = (d, sh["dtype"], tuple(sorted(s["kind"] for s in specs)), tuple(flags), lenc, tuple(sorted(pattern))) if nontrivial else None
    rec.count("histories")
    rec.case(cls, sample={**meta, "reset": flags, "length": length, "ops_head": ops[:8]}, n=max(1, n_real))


def run_shard(sh, rec):
    import logging

    logging.disable(logging.CRITICAL)
    import sopht.simulator  # noqa: F401  (import inside the worker: the adapter is installed)

    tier, seed = sh["tier"], sh["seed"]
    rng = util.rng_for(seed, ID, sh["name"])
    nh = N_HIST[tier]
    # the (dx, N) body of each pool whose marker count also occurs in the OTHER pool of the same dimension (2-D: 12 markers)
    same_n = {2: {0: 0, 1: 2}, 3: {0: 0, 1: 0}}[sh["dim"]]
    other = dict(sh, pool=1 - sh["pool"])
    for h in range(nh):
        length = int(rng.integers(5, 61))
        if nh - 3 <= h < nh - 1:
            # sibling objects: interactions on the OTHER dx of this dimension in the same process (2-D: same marker count)
            rec.count("histories_other_dx_same_process")
            run_history(rec, rng, other, h, length, force=same_n[other["pool"]])
        elif h == nh - 1:
            rec.count("histories_own_dx_after_other_dx")
            run_history(rec, rng, sh, h, length, force=same_n[sh["pool"]])
        else:
            run_history(rec, rng, sh, h, length)
    # VirtualBoundaryForcing driven directly on this shard's (dx, N): layouts, temporary views, exact zeros, scalar types
    drng = util.rng_for(seed, ID, sh["name"], "direct")
    for j in range(N_DIRECT[tier]):
        run_direct(rec, drng, sh, j)


N_HIST = {"quick": 19, "thorough": 375}  # 16 x 19 = 304 and 32 x 375 = 12000 histories (~0.29 CPU-s each)
