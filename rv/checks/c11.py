"""C11 — fast diagonalisation solves the discrete Neumann Poisson problem (DESIGN §4 C11).

Oracle (no solve in the primary oracle): APPLY the second-order negative Laplacian with mirrored
ghost cells (``ops.neg_laplacian_neumann``, float64) to the returned ``u`` and compare with
``f - mean f``.  Further monitors: mean u == 0 to the floor; ``u`` real, of the caller's precision,
finite everywhere (the output array is pre-loaded with payload NaNs); the call does not raise; the
right-hand side is not modified; a pure null-space rhs (constant) gives ``u == 0`` to the floor; a
single cosine mode gives ``f / lambda_k`` (closed form); an independent DCT-II solve
(``ops.neumann_solve``) as second opinion on ``u`` itself; the 3-D vector solve equals three scalar
solves of the same object bitwise.

Noise floor (measured, see ``max err/tol`` in the evidence):
    T_res = eps_t * (32 n_max^2 |f|max + 64 ||A|| |u|max),      ||A|| = 4 d / dx^2
The second term is the backward error of a computed eigendecomposition (A V^ = V^ L^ + E, |E| ~
eps ||A||).  The first term is the accuracy of the *computed null vector*: the gap between the zero
eigenvalue and the next one is (pi/n)^2/dx^2, so LAPACK returns the constant mode only to
~0.4 n^2 eps (measured up to 840 eps at n = 48 in float64), and that much of ``mean f`` leaks into
the residual.  T_u = T_res / lambda_min for comparisons of ``u`` itself.

Known genuine defect on the pinned tree (F1): ``FastDiagPoissonSolver2D.solve`` raises ValueError for
every input under NumPy >= 2 (``la.eig`` returns complex arrays, ``multi_dot(out=<real>)`` refuses
to cast) -> mechanism ``fastdiag2d-solve-raises``.  Silent with /verif/fixes/F1.diff applied.

Self-test (tools/mut.sh, quick tier, seed 0; 2-D mutants are patches on top of F1.diff):
  2-D class (patch = F1.diff + one-line change), all VIOLATION:
    poisson_matrix_x[0,0] = 2*inv_dx2 (boundary entry)      -> A_N u != f - mean f, mean u != 0, u != DCT solve, cosine mode
    eig_val_matrix[-1,-1] = inf removed (mean mode kept)     -> mean u != 0, null-space rhs gives u != 0, u != DCT solve
    y eigenvalues sorted ascending (argsort without [::-1])  -> mean u != 0, null-space rhs gives u != 0, cosine mode
    y eigenvectors not permuted with their eigenvalues       -> A_N u != f - mean f, mean u != 0, cosine mode
    transpose_of_eig_vecs_x = eig_vecs_x (transpose dropped) -> A_N u != f - mean f, mean u != 0, u != DCT solve
    inv_dx2 = 1 (dx ignored) / inv_dx2 = 1/dx                -> A_N u != f - mean f, cosine mode, u != DCT solve
  3-D class (one-line change of the pinned tree; F1 is reported in addition), all VIOLATION:
    poisson_matrix_z[-1,-1] = 2*inv_dx2                      -> A_N u != f - mean f, mean u != 0, u != DCT solve
    eig_val_matrix[-1,-1,-1] = inf removed                   -> output-not-finite, mean u != 0, null-space rhs gives u != 0
    eig_val_matrix[0,0,0] = inf (wrong corner)               -> output-not-finite, mean u != 0, cosine mode
    y eigenvalues sorted ascending                           -> output-not-finite, mean u != 0, cosine mode
    forward y transform with axes=(0,1) (transposed matrix)  -> A_N u != f - mean f, null-space rhs gives u != 0, cosine mode
    eig_vecs_z stored transposed                             -> A_N u != f - mean f, mean u != 0, u != DCT solve
    inv_dx2 = 1 (dx ignored)                                 -> A_N u != f - mean f, cosine mode, u != DCT solve
    vector_field_solve: y component solved from the x rhs    -> vector != 3 scalar solves
  Unchanged tree + F1.diff: HELD for seeds 0..5 quick, 0..1 thorough (max err/tol 0.06)
"""
import numpy as np

from .. import util
from ..ref import ops

ID = "C11"
LEVEL = "exploration"
TECHNIQUE = "runtime monitoring: residual oracle (the Neumann finite-difference operator applied to the returned field, no solve in the oracle) + independent DCT-II solve as second opinion, bitwise vector-vs-scalar differential"
TITLE = "Fast-diagonalisation solver solves the discrete Neumann Poisson problem"
RULE = (
    "solver objects of both classes over random shapes (2..24 per side quick, 2..64 thorough; non-square/"
    "non-cubic, 2xn slabs, minimal 2^d, occasionally square), dx log-uniform in [1e-3,10] or 1/n, both "
    "precisions; per object right-hand sides noise / big / spikes / single impulse / smooth / constant "
    "(pure null space) / single cosine modes (incl. modes constant along some axes) / zero; 3-D: vector "
    "solve vs three scalar solves.  A case is non-trivial if the rhs is not identically zero; distinct = "
    "(dim, dtype, size class, slab?, dx class, rhs kind, sub-check)."
)
ASSUMPTIONS = [
    "ops.neg_laplacian_neumann (NumPy float64, mirrored ghost cells) is the trusted discrete operator",
    "scipy DCT-II (ops.neumann_solve) is the trusted independent solver for the second opinion",
    "noise floor eps*(32 n_max^2 |f|max + 64 (4d/dx^2) |u|max): null-vector accuracy of LAPACK + backward error of the eigendecomposition; calibrated headroom >= 10x",
]
REQUIRE = {
    "residual_checks_2d": 20,
    "residual_checks_3d": 20,
    "residual_cells": 2000,
    "const_rhs_checked": 8,
    "cosine_modes_checked": 8,
    "vector_solves_bitwise": 4,
    "slab_objects": 2,
    "second_opinion_checks": 40,
    "objects_with_every_axis_at_least_32_cells_not_square": 8,
    "right_hand_sides_of_extreme_magnitude": 100,
}
# 16 workers x 16 BLAS threads thrash; results do not depend on the BLAS thread count being small
BLAS_ENV = {"OPENBLAS_NUM_THREADS": "2", "OMP_NUM_THREADS": "2", "MKL_NUM_THREADS": "2"}
KINDS = ("noise", "big", "spikes", "impulse", "smooth", "const", "cos", "cos", "zero")


def shards(tier, seed):
    n = 16 if tier == "quick" else 48
    return [
        {"name": f"obj{i}-{2 + i % 2}d-{'f64' if (i // 2) % 2 == 0 else 'f32'}", "idx": i, "dim": 2 + i % 2,
         "dtype": "float64" if (i // 2) % 2 == 0 else "float32", "env": dict(BLAS_ENV)}
        for i in range(n)
    ]


def tol_res(eps, shape, dx, fmax, umax):
    d = len(shape)
    return eps * (32.0 * max(shape) ** 2 * fmax + 64.0 * (4.0 * d / dx**2) * umax) + 1e-300


def lam_min(shape, dx):
    return (2.0 - 2.0 * np.cos(np.pi / max(shape))) / dx**2


def _shape(rng, d, hi, k, idx):
    if k == 0 and idx % 4 < 2:  # 2 x n slab (2 x 2 x n in 3-D: two thin axes)
        s = [2] * (d - 1) + [int(rng.integers(3, hi + 1))]
        rng.shuffle(s)
        return tuple(s), "slab"
    if k == 0 and idx % 4 == 2:
        s = [int(rng.integers(3, hi + 1)) for _ in range(d)]
        s[int(rng.integers(d))] = 2
        return tuple(s), "slab"
    if k == 1 and idx % 8 == 3:
        return (2,) * d, "min"
    if k == 1 and idx % 8 == 7:
        return (int(rng.integers(3, hi + 1)),) * d, "square"
    if k == 3:  # one long axis (49..64 cells) with thin other axes: cheap, and reaches the many-small-eigenvalue regime in every tier
        s = [int(rng.integers(2, 7)) for _ in range(d)]
        s[int(rng.integers(d))] = int(rng.integers(49, 65))
        return tuple(s), "long-axis"
    if k == 4:
        # EVERY axis at least 32 cells and not all equal (33..44 per axis; 2-D up to 60): a size-dependent fast path that needs all
        # directions to be large only exists here, and an ny/nx mix-up in it is invisible on square grids
        top = 61 if d == 2 else 45
        while True:
            s = tuple(int(x) for x in rng.integers(32, top, size=d))
            if len(set(s)) > 1:
                return s, "all-axes>=32"
    if k == 2:  # at the upper end of the size range
        s = tuple(int(x) for x in rng.integers(max(2, hi - 6), hi + 1, size=d))
        return s, "large"
    return (util.shape2d(rng, 2, hi) if d == 2 else util.shape3d(rng, 2, hi)), "random"


def _rhs(rng, shape, kind, real_t):
    d = len(shape)
    info = {}
    if kind == "impulse":
        f = np.zeros(shape, real_t)
        a = tuple(int(rng.integers(0, n)) if rng.random() < 0.5 else int(rng.choice([0, n - 1])) for n in shape)
        f[a] = real_t(rng.choice([1.0, -3.0, 250.0]))
        info["at"] = a
    elif kind == "const":
        f = np.full(shape, real_t(rng.choice([1.0, -2.5, 1e3, 0.37])), real_t)
    elif kind == "zero":
        f = np.zeros(shape, real_t)
    elif kind == "cos":
        while True:
            k = [int(rng.integers(0, n)) if rng.random() < 0.7 else 0 for n in shape]
            if any(k):
                break
        g = np.float64(rng.choice([1.0, -3.0, 0.01]))
        for a, (n, kk) in enumerate(zip(shape, k)):
            sh = [1] * d
            sh[a] = n
            g = g * np.cos(np.pi * kk * (np.arange(n) + 0.5) / n).reshape(sh)
        f = np.ascontiguousarray(np.broadcast_to(g, shape).astype(real_t))
        info["k"] = k
    else:
        f = util.field(rng, shape, kind, real_t)
        if kind == "noise" and rng.random() < 0.5:
            f += real_t(rng.choice([5.0, -40.0]))  # non-zero mean: the null-space component matters
    return f, info


def run_shard(sh, rec):
    import sopht.numeric.eulerian_grid_ops as spne

    tier, seed, d = sh["tier"], sh["seed"], sh["dim"]
    real_t = util.DT[sh["dtype"]]
    eps = util.eps(real_t)
    rng = util.rng_for(seed, ID, sh["idx"])
    hi = 24 if tier == "quick" else 64
    nobj = 8 if tier == "quick" else 20
    raises = f"fastdiag{d}d-solve-raises"
    prev_shape = None
    for k in range(nobj):
        shape, scls = _shape(rng, d, hi, k, sh["idx"])
        if prev_shape is not None and k % 3 == 2:
            # sibling object: same shape/precision as the previous object of this process but (below) an independently drawn
            # spacing - anything memoised across solver objects under an incomplete key is hit here
            shape, scls = prev_shape
            rec.count("sibling_objects_same_shape_other_dx")
        prev_shape = (shape, scls)
        if rng.random() < 0.3:
            dx = 1.0 / shape[-1]
            dxcls = "1/n"
        else:
            e = rng.uniform(-3, 1)
            dx = 10.0**e
            dxcls = "small" if e < -1 else "large" if e > 0 else "mid"
        dx = float(real_t(dx))
        meta = {"dim": d, "dtype": sh["dtype"], "shape": shape, "dx": dx}
        if k % 4 == 1:
            # predecessor of the OTHER precision in the same process: same shape, numerically equal spacing (a dyadic dx has the
            # same value and hash as float32 and float64 scalar): tables memoised across solver objects under a key that loses
            # the precision would be handed to this shard's solver
            other_t = np.float32 if real_t is np.float64 else np.float64
            dx = float(2.0 ** -int(rng.integers(1, 6)))
            meta["dx"] = dx
            try:
                if d == 2:
                    sp_ = spne.FastDiagPoissonSolver2D(grid_size_y=shape[0], grid_size_x=shape[1], dx=other_t(dx), real_t=other_t)
                else:
                    sp_ = spne.FastDiagPoissonSolver3D(grid_size_z=shape[0], grid_size_y=shape[1], grid_size_x=shape[2], dx=other_t(dx), real_t=other_t)
                fo = util.field(rng, shape, "noise", other_t)
                sp_.solve(solution_field=np.zeros_like(fo), rhs_field=fo)
                rec.count("other_precision_predecessors_same_shape_and_dx")
            except Exception as e:
                rec.note(f"other-precision predecessor failed: {type(e).__name__}: {e}")
        try:
            if d == 2:
                s = spne.FastDiagPoissonSolver2D(grid_size_y=shape[0], grid_size_x=shape[1], dx=dx, real_t=real_t)
            else:
                s = spne.FastDiagPoissonSolver3D(grid_size_z=shape[0], grid_size_y=shape[1], grid_size_x=shape[2], dx=dx, real_t=real_t)
        except Exception as e:
            rec.violation(f"fastdiag{d}d-init-raises", f"{type(e).__name__}: {e} {meta}", {"meta": meta})
            rec.case(None)
            continue
        if scls == "slab":
            rec.count("slab_objects")
        if np.iscomplexobj(getattr(s, "spectral_field_buffer", None)):
            # la.eig returns complex arrays under NumPy >= 2: the 3-D class then works in complex arithmetic and
            # only yields a real field through a silent complex->real cast (ComplexWarning).  Not a violation of
            # the property (the returned field is real and is checked below); recorded for the evidence.
            rec.count("objects_working_in_complex_arithmetic")
        szcls = "s" if max(shape) <= 8 else "m" if max(shape) <= 24 else "l"
        base = (d, sh["dtype"], szcls, scls == "slab", dxcls)
        lmin = lam_min(shape, dx)
        N = int(np.prod(shape))

        def solve(f, what="solve"):
            out = util.sentinel_like(rng, f.shape, real_t)
            if d == 3 and rng.random() < 0.3:
                # 3-D solver: the caller's output is the interior of a ghost-padded array (a non-contiguous view); the result
                # must land in the caller's array, not in a temporary (the 2-D solver documents a C-contiguous `out=` and is
                # not driven this way)
                parent = util.sentinel_like(rng, tuple(n + 2 for n in f.shape), real_t).copy()
                out = parent[tuple(slice(1, -1) for _ in f.shape)]
                rec.count("solves_into_noncontiguous_output_view")
            f0 = f.copy()
            try:
                if what == "solve":
                    s.solve(solution_field=out, rhs_field=f)
                else:
                    s.vector_field_solve(solution_vector_field=out, rhs_vector_field=f)
            except Exception as e:
                rec.violation(raises, f"{what}: {type(e).__name__}: {e} {meta}", {"meta": meta, "f": f0})
                return None
            rec.check(util.bits_equal(f, f0), "rhs-modified", f"{what} modified its right-hand side {meta}", {"meta": meta, "f": f0})
            ok = out.dtype == np.dtype(real_t) and np.isrealobj(out)
            rec.check(ok, "output-dtype", f"solution dtype {out.dtype} {meta}", {"meta": meta})
            if not np.all(np.isfinite(out)):
                rec.violation("output-not-finite", f"{int((~np.isfinite(out)).sum())} of {out.size} cells NaN/inf after {what} {meta}", {"meta": meta, "f": f0})
                return None
            return out

        if scls == "all-axes>=32":
            rec.count("objects_with_every_axis_at_least_32_cells_not_square")
        for kind in KINDS:
            f, info = _rhs(rng, shape, kind, real_t)
            if kind != "zero" and rng.random() < 0.4:
                # the solver is linear: right-hand sides of very small / very large magnitude (dimensional units) are ordinary inputs
                e10 = int(rng.choice([-13, -12, -9, -8, 6, 9]))
                f = (f * real_t(10.0 ** e10)).astype(real_t)
                info["scaled_by"] = f"1e{e10}"
                rec.count("right_hand_sides_of_extreme_magnitude")
            u = solve(f)
            if u is None:
                rec.case(None)
                continue
            f64, u64 = f.astype(np.float64), u.astype(np.float64)
            fmax, umax = util.maxabs(f64), util.maxabs(u64)
            if kind == "zero":
                rec.case(None)
                rec.check(umax == 0.0, "zero-rhs-nonzero-solution", f"|u|max={umax} for f == 0 {meta}", {"meta": meta})
                continue
            case = {**meta, "rhs": kind, **info}
            # 1. the defining discrete equation, by APPLYING the operator
            T = tol_res(eps, shape, dx, fmax, umax)
            res = ops.neg_laplacian_neumann(u64, dx) - (f64 - f64.mean())
            r = util.err_over_tol(res, 0.0 * res, T)
            rec.stat("residual", r); rec.stat(f"residual_{kind}_{sh['dtype']}_{d}d", r)
            rec.stat(f"tol_res_over_fmax_{sh['dtype']}", T / fmax)
            rec.count(f"residual_checks_{d}d"); rec.count("residual_cells", N)
            rec.case((*base, kind, "residual"), sample={**case, "err_over_tol": r})
            if r > 1:
                bad = np.unravel_index(int(np.argmax(np.abs(res))), shape)
                rec.violation("A_N u != f - mean f", f"max residual/tol={r:.3g} at {bad} rhs={kind} {info} {meta}", {"meta": case, "f": f, "u": u})
            # 2. zero mean
            tm = eps * 32.0 * max(shape) ** 2 * umax + 1e-300
            r = abs(float(u64.mean())) / tm
            rec.stat("mean_u", r); rec.stat(f"mean_u_{sh['dtype']}_{d}d", r)
            if r > 1:
                rec.violation("mean u != 0", f"|mean u|/tol={r:.3g} (mean {u64.mean():.3g}, |u|max {umax:.3g}) rhs={kind} {meta}", {"meta": case, "f": f, "u": u})
            # 3. second opinion on u itself; closed forms for the null space and single modes
            Tu_f = eps * 32.0 * max(shape) ** 2 * fmax / lmin + 1e-300
            if kind == "const":
                r = umax / Tu_f
                rec.stat("const_rhs_u", r); rec.stat(f"const_rhs_u_{sh['dtype']}_{d}d", r)
                rec.count("const_rhs_checked")
                if r > 1:
                    rec.violation("null-space rhs gives u != 0", f"|u|max/tol={r:.3g} for f == {float(f.flat[0])} {meta}", {"meta": case, "u": u})
                continue
            uref = ops.neumann_solve(f64, dx)
            Tu = tol_res(eps, shape, dx, fmax, max(umax, util.maxabs(uref))) / lmin
            r = util.err_over_tol(u64, uref, Tu)
            rec.stat("second_opinion", r); rec.stat(f"second_opinion_{sh['dtype']}_{d}d", r)
            rec.count("second_opinion_checks")
            if r > 1:
                rec.violation("u != independent DCT solve", f"max err/tol={r:.3g} rhs={kind} {info} {meta}", {"meta": case, "f": f, "u": u})
            if kind == "cos":
                lam = sum(2.0 - 2.0 * np.cos(np.pi * kk / n) for kk, n in zip(info["k"], shape)) / dx**2
                r = util.err_over_tol(u64, f64 / lam, Tu)
                rec.stat("cosine_mode", r)
                rec.count("cosine_modes_checked")
                rec.case((*base, "cos", "mode", sum(1 for kk in info["k"] if kk == 0)))
                if r > 1:
                    rec.violation("cosine mode != f/lambda_k", f"max err/tol={r:.3g} k={info['k']} {meta}", {"meta": case, "f": f, "u": u})

        # 4. vector solve == three scalar solves of the same object, bitwise
        if d == 3:
            fv = util.field(rng, (3, *shape), "noise", real_t)
            fv[1] += real_t(3.0)
            uv = solve(fv, "vector_field_solve")
            if uv is None:
                rec.case(None)
                continue
            # a vector right-hand side with an exactly-zero component (and a constant one): every component of the caller's
            # output must still be written (it is pre-filled with NaN sentinels by solve())
            fz = util.field(rng, (3, *shape), "noise", real_t)
            zc = int(rng.integers(3))
            fz[zc] = 0
            fz[(zc + 1) % 3] = real_t(2.5)
            uz = solve(fz, "vector_field_solve")
            rec.count("vector_solves_with_zero_component")
            if uz is not None:
                scale_z = eps * 64 * max(shape) ** 2 * (float(np.max(np.abs(uz))) + 1e-30)
                # only the ZERO component is asserted here (it must come back as zeros, not as leftovers): the constant component is a
                # pure null-space right-hand side whose admissible leak (~0.4 n^2 eps |f|/lambda_min) is the business of the
                # "const" rhs monitor above with its measured floor - an ad-hoc bound here alarmed on the unchanged tree (thorough tier)
                if float(np.max(np.abs(uz[zc]))) > scale_z:
                    rec.violation("vector-solve-zero-component!=0", f"component {zc} (zero rhs) max|u|={float(np.max(np.abs(uz[zc]))):.3g} {meta}", {"meta": meta})
            ucs = [solve(fv[c]) for c in range(3)]
            if any(x is None for x in ucs):
                continue
            ok = all(util.bits_equal(ucs[c], uv[c]) for c in range(3))
            rec.count("vector_solves_bitwise")
            rec.case((*base, "vector"))
            if not ok:
                worst = max(util.err_over_tol(uv[c], ucs[c], eps * util.maxabs(ucs[c]) + 1e-300) for c in range(3))
                rec.violation("vector != 3 scalar solves", f"components differ bitwise (max diff {worst:.3g} eps|u|) {meta}", {"meta": meta, "f": fv})
