"""C12 — discrete vector-calculus identities hold exactly between the LIBRARY kernels (DESIGN §4 C12).

Identities (evaluated on outputs of the library kernels composed as the library composes them):
  I1  3-D   div_h(curl_h F) == 0                                   cells >= 2 from every face
  I2a 2-D   u = outplane_curl(psi):  centred NumPy divergence of u == 0     cells >= 2 from every face
  I2b 2-D   inplane_curl(outplane_curl(psi, p), q) == -(q p)(psi(+2x)+psi(-2x)+psi(+2y)+psi(-2y)-4 psi)   cells >= 2
  I3  2/3-D forcing_update(w, F, p) == w + curl_kernel(F, p)        (library's own curl / in-plane curl)  cells >= 1
  I4  2/3-D penalised_update(w, up, u, p) == forcing_update(w, up - u, p)                                cells >= 1
  I5  3-D   simulator.get_vorticity_divergence_l2_norm() == 0.0 after the simulator's own forcing-update kernel
            (called with the prefactor of _navier_stokes_with_forcing_time_step) acted on compactly supported
            forcing (margin 2), repeated rounds accumulate; a non-solenoidal control field guards against a
            vacuous monitor (control failing -> inconclusive, never a violation).

Exact legs: integer-valued fields in +-2^10, prefactors in {+-1, +-1/2, 2^-k}, inv_dx = 2^k: every floating-point
operation is exact in float64 and float32, so -Ofast reassociation/FMA cannot matter and the monitor demands
BITWISE equality (values compared with ==, so -0.0 == +0.0; NaN never equal).
  impulse leg  every unit impulse of a 9x10x11 grid x every vector component (I1, I3, I4 with the impulse in the
               forcing / penalised velocity / velocity slot) and of a 9x11 grid (psi, and both components of F, up, u)
               -- each impulse is run separately; by linearity (sampled by the random leg) this spans all fields on
               that grid.  Both reset_ghost_zone settings of curl/divergence/out-of-plane curl.
  random leg   ~100 (quick) / ~1000 (thorough) random integer fields on random shapes (3-D 4..14, 2-D 4..40).
Noise leg: Gaussian fields, non-dyadic prefactors, |lhs - rhs| <= 16 eps_t * (sum of |terms| bound).

Workload diversity (added after the seeded-change campaign): the impulse legs run on a second grid each with the opposite
orientation (8x6x5: x shortest; 10x7: grid_size_y > grid_size_x) through the SAME generated kernel objects; every third
scalar kernel argument is a python float instead of real_t; the simulator leg builds a sibling of its first simulator
(same shape, precision and solver, other x_range) later in the same process.

Deliberate breaks tried (tools/mut.sh --sed '<expr>' <file> C12, quick tier, seed 0; files under
sopht/numeric/eulerian_grid_ops/stencil_ops_{2d,3d}/): mutation -> VIOLATION mechanisms (impulse AND random legs)
  M1  curl_3d.py  curl_y "field_x[1,0,0] - field_x[-1,0,0]" -> "+" (sign)        -> div(curl)!=0, forcing!=w+p*curl
  M2  curl_3d.py  curl_x field_z[0,1,0] -> field_z[1,0,0] (axis swap)             -> div(curl)!=0, forcing!=w+p*curl
  M23 curl_3d.py  curl_z "prefactor *" dropped                                    -> div(curl)!=0, forcing!=w+p*curl
  M3  outplane_field_curl_2d.py  (field[0,-1]-field[0,1]) -> (field[0,1]-field[0,-1]) -> div(curl psi)!=0, curl(curl psi)!=-lap_2h psi
  M4  inplane_field_curl_2d.py   field_x[1,0] -> field_x[0,1] (axis swap)         -> curl(curl psi)!=-lap_2h psi, forcing!=w+p*curl
  M7  update_vorticity_from_velocity_forcing_2d.py  forcing "* prefactor" dropped -> forcing!=w+p*curl, penalised!=forcing(up-u)
  M17 update_vorticity_from_velocity_forcing_3d.py  forcing z "- f_x[0,1,0]" -> "+" -> forcing!=w+p*curl, penalised!=forcing(up-u), sim-divergence-norm!=0
  M22 update_vorticity_from_velocity_forcing_3d.py  y-comp "w = w + p*(..)" -> "w = p*(..)" (forcing and penalised alike) -> forcing!=w+p*curl, sim-divergence-norm!=0
  M8  update_vorticity_from_velocity_forcing_3d.py  penalised "- velocity_field_z[0,1,0]" -> "+" -> penalised!=forcing(up-u)
  M9  update_vorticity_from_velocity_forcing_2d.py  penalised "- velocity_field_y[0,1]" -> "+"   -> penalised!=forcing(up-u)
  M18 divergence_3d.py  field_y[0,1,0] -> field_y[1,0,0] (axis swap)              -> div(curl)!=0, sim-divergence-norm!=0
  M19 divergence_3d.py  "- field_z[-1,0,0]" -> "+"                                -> div(curl)!=0, sim-divergence-norm!=0
12/12 identity-affecting breaks caught, all bitwise on the integer legs.  Controls that must stay silent, and do:
  M14 divergence_3d.py 0.5 -> 1.0 (div curl is still 0)  -> HELD ;  M5 diffusion centre weight 4 -> 3 -> HELD
  (ENO3 / filter / stretching-flux / Laplacian breaks touch no identity of C12; C05 reports them).
Unchanged tree: exit 0 for VERIF_SEED 0..5 (quick, 22-28 s on 8 workers) and 0,1 (thorough, ~45 s); noise-leg max
err/tol 0.03 (headroom 30x).
"""
import numpy as np

from .. import sims, util

ID = "C12"
LEVEL = "exploration"
TECHNIQUE = "runtime monitoring: exact-arithmetic executions (integer fields, power-of-two prefactors) of the library kernels composed as the library composes them; identities demanded bitwise on the full impulse basis of one grid"
TITLE = "Discrete vector-calculus identities hold exactly between the library's kernels"
RULE = (
    "exhaustive: every unit impulse (each run separately) of a 9x10x11 grid in each of the 3 components of the "
    "forcing / penalised velocity / velocity slot and of a 9x11 grid (psi and 2 components per vector slot), both "
    "reset_ghost_zone settings, both precisions; random: ~100 (quick) / ~1000 (thorough) integer fields in +-2^10 on "
    "random shapes with prefactors from {+-1,+-1/2,2^-2..2^-6} and inv_dx=2^k, compared BITWISE; noise: Gaussian "
    "fields with non-dyadic prefactors at 16*eps*sum|terms|; simulator leg: 3-D simulators (both Poisson solver "
    "types) whose vorticity comes from their own forcing-update kernel on compact integer forcing.  distinct = "
    "(identity, dim, dtype, leg, options, impulse slot/component or shape class); a case is non-trivial when the "
    "field is non-zero and the compared region is non-empty."
)
ASSUMPTIONS = [
    "integer data in +-2^10 with power-of-two prefactors keep every intermediate below 2^22 ulps: exact in both precisions",
    "the 2-D divergence (not provided by the library) is the centred difference evaluated with NumPy",
    "linearity (basis of impulses => all fields on that grid) is itself only sampled (random leg), not proven",
    "the simulator's forcing update is invoked through its kernel attribute with the prefactor dt/(2 dx rho) of "
    "_navier_stokes_with_forcing_time_step; a full time step is not exact (FFT, diffusion) and is not used",
    "noise leg tolerance 16*eps_t*(sum of |terms| bound); measured headroom >= 10x",
]
REQUIRE = {
    "impulses_3d": 2 * 3 * 990,
    "impulses_2d": 2 * 3 * 99,
    "random_integer_fields": {"quick": 100, "thorough": 1000},
    "noise_fields": {"quick": 16, "thorough": 100},
    "cells_compared_bitwise": 1000000,
    "sim_divergence_norm_exact_zero": 12,
    "sim_control_nonzero_divergence_seen": 2,
    "impulses_3d_on_grid_with_x_shortest": 2 * 3 * 240,
    "impulses_2d_on_tall_grid": 2 * 3 * 70,
    "sim_sibling_same_shape_other_dx": 2,
    "scalar_args_python_float": 1000,
    "scalar_args_real_t": 1000,
}
F64 = np.float64
K_NOISE = 16.0
G3 = (9, 10, 11)
G2 = (9, 11)
# second impulse grids with the opposite orientation: x (last axis) is the SHORTEST extent / grid_size_y > grid_size_x
G3B = (8, 6, 5)
G2B = (10, 7)
PREF = (1.0, -1.0, 0.5, -0.5, 0.25, 0.125, 2.0**-4, 2.0**-5, 2.0**-6)


def shards(tier, seed):
    out = []
    for dt in ("float64", "float32"):
        for c in range(3):
            out.append({"name": f"imp3d-{dt}-{'xyz'[c]}", "kind": "imp3d", "dtype": dt, "comp": c})
        out.append({"name": f"imp2d-{dt}", "kind": "imp2d", "dtype": dt})
        out.append({"name": f"sim3d-{dt}", "kind": "sim3d", "dtype": dt})
    nparts = 1 if tier == "quick" else 3
    for dt in ("float64", "float32"):
        for d in (2, 3):
            for p in range(nparts):
                out.append(
                    {"name": f"rand{d}d-{dt}-p{p}", "kind": "rand", "dim": d, "dtype": dt, "part": p,
                     "nint": 26 if tier == "quick" else 85, "nnoise": 5 if tier == "quick" else 10}
                )
    return out


# ------------------------------------------------------------------------------------------------
class Mon:
    """comparison monitors: bitwise (values ==) or noise floor"""

    def __init__(self, rec, dtype, d):
        self.rec, self.dtype, self.d = rec, dtype, d
        self.eps = util.eps(util.DT[dtype])

    def region(self, g):
        return (Ellipsis,) + (slice(g, -g),) * self.d

    def same(self, mech, cls, lhs, rhs, g, meta, noise_bound=None):
        """lhs, rhs arrays (rhs may be 0.0); compared on cells >= g from every face"""
        rec = self.rec
        I = self.region(g)
        L = np.asarray(lhs, F64)[I]
        R = np.broadcast_to(np.asarray(rhs, F64), np.asarray(lhs).shape)[I] if np.ndim(rhs) else np.full(L.shape, float(rhs))
        if L.size == 0:
            rec.case(None)
            return True
        if noise_bound is None:
            rec.count("cells_compared_bitwise", L.size)
            bad = ~(L == R)
            r = None
        else:
            rec.count("cells_compared_noise", L.size)
            tol = K_NOISE * self.eps * noise_bound + 1e-300
            err = np.abs(L - R)
            bad = ~(err <= tol)
            r = float(np.max(err) / tol) if np.all(np.isfinite(err)) else float("inf")
            rec.stat(f"noise_{mech}_{self.dtype}", r)
        rec.case(cls)
        if bad.any():
            cell = tuple(int(c) for c in np.argwhere(bad)[0])
            rec.violation(
                mech,
                f"{cls}: {int(bad.sum())}/{L.size} compared cells violate the identity; first (region index) {cell}: "
                f"lhs={L[cell]!r} rhs={R[cell]!r} {'bitwise' if r is None else f'err/tol={r:.3g}'} {meta}",
                {"meta": meta, "cls": cls, "lhs": np.asarray(lhs), "rhs": np.asarray(rhs)},
            )
            return False
        return True


_NSCALAR = [0]


def _sc(rec, real_t, x):
    """scalar kernel argument, alternately as real_t (what the simulators pass) and as a plain python float"""
    _NSCALAR[0] += 1
    if _NSCALAR[0] % 3 == 0:
        rec.count("scalar_args_python_float")
        return float(x)
    rec.count("scalar_args_real_t")
    return real_t(x)


def _gen(rec, name, fn, **kw):
    try:
        return fn(**kw)
    except Exception as e:
        rec.violation(f"{name}-generator-raises", f"{type(e).__name__}: {e}", {})
        raise


class K3:
    def __init__(self, rec, real_t, nt=2):
        import sopht.numeric.eulerian_grid_ops as spne

        kw = dict(real_t=real_t, num_threads=nt)
        self.curl = {r: _gen(rec, "curl_3d", spne.gen_curl_pyst_kernel_3d, reset_ghost_zone=r, **kw) for r in (True, False)}
        self.div = {r: _gen(rec, "divergence_3d", spne.gen_divergence_pyst_kernel_3d, reset_ghost_zone=r, **kw) for r in (True, False)}
        self.forcing = _gen(rec, "forcing_3d", spne.gen_update_vorticity_from_velocity_forcing_pyst_kernel_3d, **kw)
        self.pen = _gen(rec, "penalised_3d", spne.gen_update_vorticity_from_penalised_velocity_pyst_kernel_3d, **kw)


class K2:
    def __init__(self, rec, real_t, nt=2):
        import sopht.numeric.eulerian_grid_ops as spne

        kw = dict(real_t=real_t, num_threads=nt)
        self.outplane = {r: _gen(rec, "outplane_2d", spne.gen_outplane_field_curl_pyst_kernel_2d, reset_ghost_zone=r, **kw) for r in (True, False)}
        self.inplane = _gen(rec, "inplane_2d", spne.gen_inplane_field_curl_pyst_kernel_2d, **kw)
        self.forcing = _gen(rec, "forcing_2d", spne.gen_update_vorticity_from_velocity_forcing_pyst_kernel_2d, **kw)
        self.pen = _gen(rec, "penalised_2d", spne.gen_update_vorticity_from_penalised_velocity_pyst_kernel_2d, **kw)


def _try(rec, mech, meta, fn, **kw):
    try:
        fn(**kw)
        return True
    except Exception as e:
        rec.violation(mech, f"{type(e).__name__}: {e} {meta}", {"meta": meta})
        return False


# ---- identities, 3-D -------------------------------------------------------------------------------
def id_divcurl3(mon, K, rng, real_t, F, p, inv_dx, resets, leg, tag, meta):
    rec = mon.rec
    shape = F.shape[1:]
    for rc, rd in resets:
        c = util.sentinel_like(rng, F.shape, real_t)
        dv = util.sentinel_like(rng, shape, real_t)
        if not _try(rec, "curl_3d-raises", meta, K.curl[rc], curl=c, field=F, prefactor=_sc(rec, real_t, p)):
            continue
        if not _try(rec, "divergence_3d-raises", meta, K.div[rd], divergence=dv, field=c, inv_dx=_sc(rec, real_t, inv_dx)):
            continue
        nb = None if leg != "noise" else 0.5 * abs(inv_dx) * abs(p) * 24 * util.maxabs(F)
        mon.same("div(curl)!=0", ("I1", 3, mon.dtype, leg, f"reset={rc},{rd}", tag), dv, 0.0, 2, meta, nb)
        rec.count("I1_div_curl_evaluations")


def id_forcing(mon, K, rng, real_t, w0, F, p, leg, tag, meta):
    """I3: forcing update == w + p * (library curl of F); d = 2 uses the in-plane curl kernel"""
    rec, d = mon.rec, mon.d
    w = w0.copy()
    c = util.sentinel_like(rng, w0.shape, real_t)
    if not _try(rec, "forcing-raises", meta, K.forcing, vorticity_field=w, velocity_forcing_field=F, prefactor=_sc(rec, real_t, p)):
        return
    curl = K.curl[True] if d == 3 else K.inplane
    if not _try(rec, "curl-raises", meta, curl, curl=c, field=F, prefactor=_sc(rec, real_t, p)):
        return
    nb = None if leg != "noise" else util.maxabs(w0) + abs(p) * 4 * util.maxabs(F)
    mon.same("forcing!=w+p*curl", ("I3", d, mon.dtype, leg, tag), w, w0.astype(F64) + c.astype(F64), 1, meta, nb)
    rec.count("I3_forcing_evaluations")


def id_penalised(mon, K, rng, real_t, w0, UP, U, p, leg, tag, meta):
    """I4: penalised-velocity update == forcing update applied to (up - u)"""
    rec, d = mon.rec, mon.d
    w = w0.copy()
    w2 = w0.copy()
    if not _try(rec, "penalised-raises", meta, K.pen, vorticity_field=w, penalised_velocity_field=UP, velocity_field=U, prefactor=_sc(rec, real_t, p)):
        return
    diff = np.ascontiguousarray((UP.astype(F64) - U.astype(F64)).astype(real_t))
    if not _try(rec, "forcing-raises", meta, K.forcing, vorticity_field=w2, velocity_forcing_field=diff, prefactor=_sc(rec, real_t, p)):
        return
    nb = None if leg != "noise" else util.maxabs(w0) + abs(p) * 8 * (util.maxabs(UP) + util.maxabs(U))
    mon.same("penalised!=forcing(up-u)", ("I4", d, mon.dtype, leg, tag), w, w2, 1, meta, nb)
    rec.count("I4_penalised_evaluations")


# ---- identities, 2-D -------------------------------------------------------------------------------
def id_psi2(mon, K, rng, real_t, psi, p, q, resets, leg, tag, meta, hist=None):
    rec = mon.rec
    P = psi.astype(F64)
    for ir, r in enumerate(resets):
        u = util.sentinel_like(rng, (2, *psi.shape), real_t)
        w = util.sentinel_like(rng, psi.shape, real_t)
        if hist is not None:
            # velocity history filled snapshot by snapshot: the output is the TEMPORARY view hist[j] (freed after the call)
            j = hist[1] * len(resets) + ir
            ok = _try(rec, "outplane_2d-raises", meta, K.outplane[r], curl=hist[0][j], field=psi, prefactor=_sc(rec, real_t, p))
            u = hist[0][j]
            rec.count("outplane_curl_calls_into_temporary_history_views")
            if not ok:
                continue
        elif not _try(rec, "outplane_2d-raises", meta, K.outplane[r], curl=u, field=psi, prefactor=_sc(rec, real_t, p)):
            continue
        U = u.astype(F64)
        # centred NumPy divergence (differences; the common 1/(2dx) is a power of two and omitted)
        div = np.full(psi.shape, np.nan)
        div[1:-1, 1:-1] = (U[0][1:-1, 2:] - U[0][1:-1, :-2]) + (U[1][2:, 1:-1] - U[1][:-2, 1:-1])
        nb = None if leg != "noise" else abs(p) * 16 * util.maxabs(P)
        mon.same("div(curl psi)!=0", ("I2a", 2, mon.dtype, leg, f"reset={r}", tag), div, 0.0, 2, meta, nb)
        if not _try(rec, "inplane_2d-raises", meta, K.inplane, curl=w, field=u, prefactor=_sc(rec, real_t, q)):
            continue
        wide = np.full(psi.shape, np.nan)
        wide[2:-2, 2:-2] = -(float(real_t(q)) * float(real_t(p))) * (
            P[2:-2, 4:] + P[2:-2, :-4] + P[4:, 2:-2] + P[:-4, 2:-2] - 4 * P[2:-2, 2:-2]
        )
        nb = None if leg != "noise" else abs(p * q) * 24 * util.maxabs(P)
        mon.same("curl(curl psi)!=-lap_2h psi", ("I2b", 2, mon.dtype, leg, f"reset={r}", tag), w, wide, 2, meta, nb)
        rec.count("I2_psi_evaluations")


# ------------------------------------------------------------------------------------------------
def ints(rng, shape, real_t):
    return np.ascontiguousarray(rng.integers(-1024, 1025, size=shape).astype(real_t))


def run_imp3d(sh, rec):
    real_t = util.DT[sh["dtype"]]
    rng = util.rng_for(sh["seed"], ID, "imp3d", sh["dtype"], sh["comp"])
    K = K3(rec, real_t)
    mon = Mon(rec, sh["dtype"], 3)
    comp = sh["comp"]
    for G3 in (globals()["G3"], G3B):
        _imp3d_grid(sh, rec, rng, K, mon, comp, real_t, G3)


def _imp3d_grid(sh, rec, rng, K, mon, comp, real_t, G3):
    w0 = ints(rng, (3, *G3), real_t)
    zero = np.zeros((3, *G3), real_t)
    n = 0
    for a in np.ndindex(*G3):
        F = np.zeros((3, *G3), real_t)
        F[(comp, *a)] = 1.0
        p = PREF[n % len(PREF)]
        inv_dx = float(2 ** (n % 5))
        n += 1
        meta = {"dtype": sh["dtype"], "grid": G3, "impulse": [comp, *a], "p": p, "inv_dx": inv_dx}
        tag = f"impulse-{'xyz'[comp]}"
        id_divcurl3(mon, K, rng, real_t, F, p, inv_dx, ((True, True), (False, False)), "impulse", tag, meta)
        id_forcing(mon, K, rng, real_t, w0, F, p, "impulse", tag, meta)
        id_penalised(mon, K, rng, real_t, w0, F, zero, p, "impulse", tag + "-in-upen", meta)
        id_penalised(mon, K, rng, real_t, w0, zero, F, p, "impulse", tag + "-in-u", meta)
        rec.count("impulses_3d")
        if G3[-1] < G3[0]:
            rec.count("impulses_3d_on_grid_with_x_shortest")
    rec.note(f"exhaustive impulse basis: {n} cells of {G3} x component {'xyz'[comp]} ({sh['dtype']}), each impulse run separately")


def run_imp2d(sh, rec):
    real_t = util.DT[sh["dtype"]]
    rng = util.rng_for(sh["seed"], ID, "imp2d", sh["dtype"])
    K = K2(rec, real_t)
    mon = Mon(rec, sh["dtype"], 2)
    for G2 in (globals()["G2"], G2B):
        _imp2d_grid(sh, rec, rng, K, mon, real_t, G2)


def _imp2d_grid(sh, rec, rng, K, mon, real_t, G2):
    w0 = ints(rng, G2, real_t)
    zero = np.zeros((2, *G2), real_t)
    n = 0
    for a in np.ndindex(*G2):
        p = PREF[n % len(PREF)]
        q = PREF[(n // 2) % len(PREF)]
        n += 1
        psi = np.zeros(G2, real_t)
        psi[a] = 1.0
        meta = {"dtype": sh["dtype"], "grid": G2, "impulse": list(a), "p": p, "q": q}
        id_psi2(mon, K, rng, real_t, psi, p, q, (True, False), "impulse", "impulse-psi", meta)
        rec.count("impulses_2d")
        for comp in range(2):
            F = np.zeros((2, *G2), real_t)
            F[(comp, *a)] = 1.0
            tag = f"impulse-{'xy'[comp]}"
            meta = {"dtype": sh["dtype"], "grid": G2, "impulse": [comp, *a], "p": p}
            id_forcing(mon, K, rng, real_t, w0, F, p, "impulse", tag, meta)
            id_penalised(mon, K, rng, real_t, w0, F, zero, p, "impulse", tag + "-in-upen", meta)
            id_penalised(mon, K, rng, real_t, w0, zero, F, p, "impulse", tag + "-in-u", meta)
            rec.count("impulses_2d")
        if G2[0] > G2[1]:
            rec.count("impulses_2d_on_tall_grid", 3)
    rec.note(f"exhaustive impulse basis: {n} cells of {G2} x (psi, F_x, F_y) ({sh['dtype']}), each impulse run separately")


def run_rand(sh, rec):
    real_t = util.DT[sh["dtype"]]
    d = sh["dim"]
    rng = util.rng_for(sh["seed"], ID, "rand", d, sh["dtype"], sh["part"])
    # half of the random shards build their kernels for a thread team LARGER than most grids have rows (16 threads, strips of 3..12
    # rows among the shapes): a sweep re-arranged for "more threads than rows" only runs there
    nt = 16 if (sh["part"] + (sh["dtype"] == "float32")) % 2 == 1 else 2
    if nt == 16:
        rec.count("shards_with_16_thread_kernels")
    K = K3(rec, real_t, nt) if d == 3 else K2(rec, real_t, nt)
    mon = Mon(rec, sh["dtype"], d)
    for i in range(sh["nint"] + sh["nnoise"]):
        leg = "integer" if i < sh["nint"] else "noise"
        shape = util.shape3d(rng, 4, 14) if d == 3 else util.shape2d(rng, 4, 40)
        if i % 9 == 0:
            shape = tuple(int(x) for x in rng.integers(5, 7, size=d))  # minimal composed interior
        if i % 9 == 4:
            # one long axis (34..70 cells), thin other axes: slab / blocking seams inside wrappers (at 32, 64, ...) only exist there
            ls = [int(x) for x in rng.integers(5, 8, size=d)]
            ls[int(rng.integers(d))] = int(rng.integers(34, 71))
            shape = tuple(ls)
            rec.count("fields_on_long_axis_grids")
        small = "min" if min(shape) < 5 else ("small" if min(shape) < 8 else "big")
        if leg == "integer":
            p, q = float(rng.choice(PREF)), float(rng.choice(PREF))
            inv_dx = float(2.0 ** int(rng.integers(0, 7)))
            mk0 = lambda lead: ints(rng, (*lead, *shape), real_t)  # noqa: E731
        else:
            p, q = (float(rng.uniform(0.2, 3) * rng.choice([-1, 1])) for _ in range(2))
            inv_dx = float(rng.uniform(1, 60))
            sc = float(10.0 ** rng.uniform(-2, 2))
            mk0 = lambda lead: np.ascontiguousarray((rng.standard_normal((*lead, *shape)) * sc).astype(real_t))  # noqa: E731
        if i % 3 == 2:
            # the fields arrive as NON-contiguous views (halo interior, every-second-element, column-major): same values, other strides
            def mk(lead, mk0=mk0):
                rec.count("noncontiguous_input_fields")
                return util.noncontiguous_copy(rng, mk0(lead))
        else:
            mk = mk0
        meta = {"dtype": sh["dtype"], "shape": shape, "p": p, "q": q, "inv_dx": inv_dx, "leg": leg, "views": i % 3 == 2}
        tag = f"shape-{small}"
        if d == 3:
            F, UP, U, w0 = mk((3,)), mk((3,)), mk((3,)), mk((3,))
            resets = [(True, True), (False, False), (bool(rng.integers(2)), bool(rng.integers(2)))]
            id_divcurl3(mon, K, rng, real_t, F, p, inv_dx, resets, leg, tag, meta)
        else:
            F, UP, U, w0 = mk((2,)), mk((2,)), mk((2,)), mk(())
            id_psi2(mon, K, rng, real_t, mk(()), p, q, (True, False), leg, tag, meta)
            if i % 4 == 1:
                # the same kernel objects filling a velocity history: outputs are temporary views hist[j] of one owning array
                harr = util.sentinel_like(rng, (6, 2, *shape), real_t).copy()
                for js in range(3):
                    id_psi2(mon, K, rng, real_t, mk0(()), p, q, (True, False), leg, tag + "-history", dict(meta, snapshot=js), hist=(harr, js))
        id_forcing(mon, K, rng, real_t, w0, F, p, leg, tag, meta)
        id_penalised(mon, K, rng, real_t, w0, UP, U, p, leg, tag, meta)
        rec.count("random_integer_fields" if leg == "integer" else "noise_fields")


SIM_POOL = [
    # shape, x_range, solver, exact?
    ((9, 10, 8), 1.0, "fast_diagonalisation", True),
    ((8, 9, 16), 2.0, "fast_diagonalisation", True),
    ((10, 8, 8), 0.5, "greens_function_convolution", True),
    ((9, 10, 11), 1.0, "fast_diagonalisation", False),
    # sibling of the first entry: same shape, precision and solver, other x_range (dx = 1/32), built later in the same process
    ((9, 10, 8), 0.25, "fast_diagonalisation", True),
]


def run_sim3d(sh, rec):
    real_t = util.DT[sh["dtype"]]
    eps = util.eps(real_t)
    rng = util.rng_for(sh["seed"], ID, "sim3d", sh["dtype"])
    rounds = 3 if sh["tier"] == "quick" else 6  # |w| stays < 2^14 with 2^-3 resolution: exact in float32 too
    for shape, xr, solver, exact in SIM_POOL:
        sim = sims.build({"kind": "ns3d", "shape": shape, "x_range": xr, "dtype": sh["dtype"], "threads": 2,
                          "forcing": True, "solver": solver, "nu": 1e-2, "rho": 1.0})
        dx = float(sim.dx)
        meta = {"dtype": sh["dtype"], "shape": shape, "x_range": xr, "solver": solver, "dx": dx}
        if (shape, xr) == SIM_POOL[-1][:2]:
            rec.count("sim_sibling_same_shape_other_dx")
        upd = sim._update_vorticity_from_velocity_forcing  # the kernel object _navier_stokes_with_forcing_time_step calls
        if sim.eul_grid_forcing_field.shape != (3, *shape):
            raise AssertionError("unexpected forcing field shape")
        # vacuity control: a non-solenoidal field must be seen by the monitor
        sim.vorticity_field[...] = 0
        sim.vorticity_field[0][tuple(s // 2 for s in shape)] = 1.0
        try:
            ctrl = float(sim.get_vorticity_divergence_l2_norm())
        except Exception as e:
            rec.violation("sim-divergence-norm-raises", f"{type(e).__name__}: {e} {meta}", {"meta": meta})
            continue
        if ctrl > 0:
            rec.count("sim_control_nonzero_divergence_seen")
        else:
            rec.inconclusive_(f"divergence monitor returned {ctrl} for a non-solenoidal control field {meta}")
        sim.vorticity_field[...] = 0
        bound = 0.0
        for r in range(rounds):
            if exact:
                Fc = np.zeros((3, *shape), real_t)
                Fc[(slice(None),) + (slice(2, -2),) * 3] = rng.integers(-64, 65, size=(3, *[n - 4 for n in shape]))
                dt = float(2.0 ** -int(rng.integers(0, 6)))
            else:
                Fc = util.compact(rng, shape, 2, "noise", real_t, lead=(3,))
                dt = float(rng.uniform(0.01, 0.5))
            sim.eul_grid_forcing_field[...] = Fc
            pref = sim.real_t(dt / (2 * sim.dx * sim.flow_density))
            try:
                upd(vorticity_field=sim.vorticity_field, velocity_forcing_field=sim.eul_grid_forcing_field, prefactor=pref)
                val = float(sim.get_vorticity_divergence_l2_norm())
            except Exception as e:
                rec.violation("sim-divergence-norm-raises", f"{type(e).__name__}: {e} {meta}", {"meta": meta})
                break
            nz = bool(np.any(sim.vorticity_field != 0))
            cls = ("I5", 3, sh["dtype"], "exact" if exact else "noise", solver, f"round{min(r, 2)}") if nz else None
            rec.case(cls, sample={**meta, "round": r, "dt": dt, "norm": val, "max|w|": util.maxabs(sim.vorticity_field)})
            if not nz:
                continue
            bound += 0.5 / dx * abs(float(pref)) * 24 * util.maxabs(Fc)
            if exact:
                rec.count("sim_divergence_norm_exact_zero")
                if not (val == 0.0):
                    rec.violation(
                        "sim-divergence-norm!=0",
                        f"get_vorticity_divergence_l2_norm()={val!r} after {r + 1} forcing updates from compact integer forcing "
                        f"(prefactor {float(pref)}) {meta}",
                        {"meta": meta, "vorticity": sim.vorticity_field.copy(), "forcing": Fc},
                    )
            else:
                tol = K_NOISE * eps * bound * np.sqrt(float(np.prod(shape))) * dx**1.5
                rec.count("sim_divergence_norm_noise")
                rec.stat(f"noise_sim_norm_{sh['dtype']}", val / tol)
                if not (val <= tol):
                    rec.violation("sim-divergence-norm!=0", f"norm={val!r} > noise floor {tol!r} {meta}", {"meta": meta})


def run_shard(sh, rec):
    kind = sh["kind"]
    if kind == "imp3d":
        run_imp3d(sh, rec)
    elif kind == "imp2d":
        run_imp2d(sh, rec)
    elif kind == "rand":
        run_rand(sh, rec)
    elif kind == "sim3d":
        run_sim3d(sh, rec)
    else:
        raise ValueError(kind)
