"""C13 — every grid kernel computes its documented formula on its documented region only (DESIGN §4 C13).

Monitors: (i) closed form on the documented region at the noise floor, (ii) every other output cell
bit-identical (value-identical for the time-step kernels), (iii) inputs bit-identical, (iv) parents of
non-contiguous views untouched, (v) ASan+UBSan build of the generated kernels on exactly-sized arrays.
The catalogue of variants, closed forms and regions is rv/ref/kernels.py.
"""
import os
import subprocess

import numpy as np

from .. import audit, util
from ..ref import kernels as KS

ID = "C13"
LEVEL = "exploration"
TITLE = "Every grid kernel computes its documented formula on its documented region only"
TECHNIQUE = "runtime monitoring: closed-form reference + bitwise region audit on sentinel-filled arrays, plus ASan/UBSan build of the generated kernels"
RULE = (
    "every public generator x option variant of the catalogue (rv/ref/kernels.py: element-wise algebra incl. complex product and 4-D vector "
    "variants, boundary setters widths 1-3, stencils with/without ghost-zone reset, flux and time-step kernels, penalisation, characteristic "
    "function, boundary damping widths 0-3, filters) x both precisions x array layouts {exactly-sized contiguous, interior slice of a "
    "sentinel-filled parent, every-second-element strided view} x shapes {minimal admissible, random non-cubic}; outputs pre-filled with "
    "NaN-payload sentinels.  distinct = (variant, dtype, layout, minimal/random shape); a case is non-trivial when the region mask is non-empty "
    "or the kernel is a documented no-op (width 0).  ASan leg: a rotating third (quick) / all (thorough) variants with kernels compiled "
    "-O1 -fsanitize=address,undefined, exactly-sized arrays."
)
ASSUMPTIONS = [
    "closed forms in rv/ref/kernels.py + rv/ref/ops.py are the documented formulas (independently written, validated on the unchanged tree)",
    "tolerance 32 x max(8 eps |ref|, spread of the closed form under (1+-eps) input perturbation); -Ofast reassociation stays below it",
    "out-of-region READS inside a parent array are invisible to the audit; only the exactly-sized ASan leg reveals them",
    "ASan reports count only when a frame of the JIT module (module_<hash> / internal::kernel) is on the stack",
]
REQUIRE = {"repeat_calls_same_array_objects": 50, "kernel_calls_audited": 100, "cells_outside_region_checked": 1000, "cells_in_region_compared": 5000, "asan_calls_clean": 10}
SHARD_TIMEOUT = {"quick": 900, "thorough": 2400}

LAYOUTS = ("contig", "embedded", "strided", "mixed")


def _preload():
    out = []
    for lib in ("libasan.so", "libstdc++.so"):
        p = subprocess.run(["gcc", f"-print-file-name={lib}"], capture_output=True, text=True).stdout.strip()
        out.append(os.path.realpath(p))
    return " ".join(out)


def shards(tier, seed):
    names = [v.name for v in KS.VARIANTS]
    n = 14 if tier == "quick" else 28
    out = []
    # contiguous chunks: option variants of one generator (widths, reset on/off, scalar/vector, filter type/order) run in ONE
    # process, forwards and then backwards, so anything a generator memoises under an incomplete key is hit in both orders
    for i, ch in enumerate(util.chunks(names, n)):
        out.append({"name": f"audit{i}", "variants": ch, "mode": "audit"})
    # sanitizer leg
    if tier == "quick":
        sub = [nm for j, nm in enumerate(names) if (j + seed) % 3 == 0]
        k = 4
    else:
        sub = names
        k = 12
    pre = _preload()
    for i in range(k):
        out.append({
            "name": f"asan{i}", "variants": sub[i::k], "mode": "asan", "jit_mode": "asan", "preload": pre,
            "env": {"ASAN_OPTIONS": "detect_leaks=0:halt_on_error=1:abort_on_error=1:redzone=256", "UBSAN_OPTIONS": "halt_on_error=1:print_stacktrace=1"},
        })
    return out


def _shapes(v, rng, tier, mode):
    if "damp" in v.tags:
        # boundary-damping kernels bake width, spacing and extent into the generated code (one compile per shape): draw their shapes from a
        # stream that does not depend on VERIF_SEED so that the JIT cache stays warm; field contents still vary with the seed
        rng = util.rng_for(0, "C13-damp-shapes", v.name, mode)
    d = v.dim
    lo = max(v.min_side, 1)
    out = [("minimal", tuple([lo] * d))]
    nrand = 1 if tier == "quick" else 3
    if mode == "asan":
        nrand = 1
    if mode == "audit":
        # one long axis (34..70 cells) with thin other axes: slab/blocking thresholds inside wrappers (seams at 32, 64, ...)
        s = [int(x) for x in rng.integers(lo + 1, lo + 4, size=d)]
        s[int(rng.integers(d))] = int(rng.integers(34, 71))
        out.append(("long-axis", tuple(s)))
    for _ in range(nrand):
        hi = (lo + 9) if d == 2 else (lo + 6)
        s = util.shape2d(rng, lo + 1, hi) if d == 2 else util.shape3d(rng, lo + 1, hi)
        out.append(("random", s))
        if mode == "audit" and tuple(s[::-1]) != tuple(s):
            # same generated kernel object, same number of cells, axes reversed: per-object caches keyed by size instead of shape
            out.append(("reversed", tuple(s[::-1])))
    return out


def run_shard(sh, rec):
    tier, seed, mode = sh["tier"], sh["seed"], sh["mode"]
    dtypes = ["float64", "float32"]
    if mode == "asan" and tier == "quick":
        dtypes = ["float64"]
    order = list(sh["variants"])
    if mode == "audit":
        order = order + [("again", nm) for nm in reversed(order[:-1])]
    for item in order:
        again = isinstance(item, (tuple, list))
        vname = item[1] if again else item
        v = KS.BY_NAME[vname]
        for dts in (dtypes[:1] if again else dtypes):
            real_t = util.DT[dts]
            rng = util.rng_for(seed, "C13", vname, dts, mode)
            nts = [2]
            if mode == "audit" and (tier == "thorough" or (hash(vname) + seed) % 4 == 0):
                nts = [2, False, 3]
            elif mode == "audit" and (hash(vname) + seed) % 4 == 1:
                # a thread team LARGER than the grid has rows (16 threads, grids of 3..12 rows): wrappers that re-arrange the sweep for
                # "more threads than rows" only do so here
                nts = [2, 16]
            if tier == "thorough" and mode == "audit":
                nts = nts + [16]
            if again:
                # second pass in reverse order: generators are called again in this process (serial build: wrappers' internal
                # boundary kernels are serial), one minimal + one random shape, contiguous layout
                nts = [False]
                rec.count("second_pass_generator_calls_reverse_order")
            for nt in nts:
                K = None
                if not v.needs_grid:
                    try:
                        K = v.build(real_t, nt)
                    except Exception as e:
                        rec.violation(f"{vname}-generator-raises", f"{type(e).__name__}: {e}", {"variant": vname})
                        continue
                layouts = LAYOUTS if (mode == "audit" and nt == 2 and not again) else (("contig", "mixed") if mode == "asan" else ("contig",))
                for sk, shape in _shapes(v, rng, tier, mode):
                    for layout in (layouts if sk in ("minimal", "random") else ("contig",)):
                        A = audit.Arrays(rng, real_t, layout)
                        meta = {"variant": vname, "dtype": dts, "shape": shape, "layout": layout, "threads": nt, "mode": mode}
                        print("RUN", meta, flush=True)
                        ctx = None
                        try:
                            if v.needs_grid:
                                Kc, ctx = v.build_for(shape, real_t, nt, A, rng)
                                case = v.make(Kc, A, shape, real_t, rng, ctx)
                            else:
                                case = v.make(K, A, shape, real_t, rng)
                        except Exception as e:
                            mech = f"{vname}-generator-raises"
                            rec.violation(mech, f"{type(e).__name__}: {e} {meta}", {"meta": meta})
                            continue
                        done = audit.audit(vname, case, A, rec, rng, real_t, meta)
                        rec.count("kernel_calls_audited")
                        if done and mode == "audit" and layout == "contig" and sk in ("minimal", "random"):
                            # second and third call of the same generated kernel with the SAME array objects, refilled in place
                            # (inputs new values, outputs and scratch new garbage): per-object caches / one-time resets show here
                            for rep in (2, 3):
                                for k, role in case.roles.items():
                                    a = case.kw[k]
                                    if role == "out":
                                        a[...] = A._sentinels(a.shape, a.dtype) if a.dtype.kind == "c" else util.sentinel_like(rng, a.shape, a.dtype)
                                    elif role == "scratch":
                                        a[...] = (rng.standard_normal(a.shape) * 50).astype(a.dtype)
                                    elif k in ("char_field", "level_set_field"):
                                        # structured inputs get NEW admissible values in the SAME array object (moving body: indicator in
                                        # [0,1] with exact 0/1, level set with exact +-width entries): anything remembered per array object
                                        # (a blending weight cached while `char_field is` the retained array) is stale now
                                        a[...] = A._values(a.shape, "unit" if k == "char_field" else "levelset").astype(a.dtype)
                                        rec.count("structured_inputs_refreshed_in_place")
                                    elif a.dtype.kind != "c":
                                        a[...] = rng.standard_normal(a.shape).astype(a.dtype)
                                    else:
                                        a[...] = (rng.standard_normal(a.shape) + 1j * rng.standard_normal(a.shape)).astype(a.dtype)
                                if "buffers" in (ctx or {}):
                                    for b in ctx["buffers"]:
                                        b[...] = (rng.standard_normal(b.shape) * 50).astype(b.dtype)
                                if "midstep" in (ctx or {}):
                                    ctx["midstep"][...] = (rng.standard_normal(ctx["midstep"].shape) * 50).astype(real_t)
                                audit.audit(vname, case, A, rec, rng, real_t, dict(meta, call=rep))
                                rec.count("repeat_calls_same_array_objects")
                            # a time history filled snapshot by snapshot: the output argument is a TEMPORARY view hist[j] of one owning
                            # array, created for the call and freed afterwards (CPython then recycles its id for the next view) - state a
                            # wrapper keeps per output object (cached component views keyed by id()) points at the wrong memory
                            onames = [k for k, role in case.roles.items() if role == "out" and case.kw[k].dtype.kind != "c"]
                            if onames and sk == "random":
                                import copy as _copy

                                # ... and so is every other array argument (snapshot j of its own stack): inputs differ from call to call
                                stacks = {}
                                for k, role in case.roles.items():
                                    a = case.kw[k]
                                    if not isinstance(a, np.ndarray) or a.dtype.kind == "c":
                                        continue
                                    if role == "out":
                                        stacks[k] = util.sentinel_like(rng, (3,) + a.shape, a.dtype).copy()
                                    else:
                                        stacks[k] = np.stack([a] * 3)
                                        if role in ("in", "inout") and k not in ("char_field", "level_set_field"):
                                            stacks[k][...] = rng.standard_normal(stacks[k].shape).astype(a.dtype)
                                        elif k in ("char_field", "level_set_field"):
                                            for j in range(3):
                                                stacks[k][j] = A._values(a.shape, "unit" if k == "char_field" else "levelset").astype(a.dtype)
                                for j in range(3):
                                    c2 = _copy.copy(case)
                                    c2.kw = {k: (stacks[k][j] if k in stacks else v) for k, v in case.kw.items()}
                                    for ak, tgt in case.alias.items():
                                        c2.kw[ak] = c2.kw[tgt]
                                    audit.audit(vname, c2, A, rec, rng, real_t, dict(meta, call=f"history[{j}]"))
                                    del c2
                                    rec.count("calls_with_temporary_output_views")
                            # two views of ONE pool buffer that share their first element and their shape but not their strides
                            # (pool[:n] then pool[::2]): whatever a wrapper remembers per (address, shape) belongs to the other view
                            if sk == "random" and layout == "contig":
                                import copy as _copy

                                pools = {k: util.sentinel_like(rng, tuple(2 * n for n in a_.shape), a_.dtype).copy() for k, a_ in case.kw.items()
                                         if isinstance(a_, np.ndarray) and a_.dtype.kind != "c" and a_.ndim >= 2 and k not in case.alias}
                                for j in range(2):
                                    c2 = _copy.copy(case)
                                    c2.kw = dict(case.kw)
                                    for k, pool in pools.items():
                                        a, role = case.kw[k], case.roles.get(k)
                                        vw = pool[tuple(slice(0, n) for n in a.shape)] if j == 0 else pool[tuple(slice(0, 2 * n, 2) for n in a.shape)]
                                        if role == "out":
                                            vw[...] = util.sentinel_like(rng, a.shape, a.dtype)
                                        elif role == "scratch":
                                            vw[...] = (rng.standard_normal(a.shape) * 50).astype(a.dtype)
                                        elif k in ("char_field", "level_set_field"):
                                            vw[...] = A._values(a.shape, "unit" if k == "char_field" else "levelset").astype(a.dtype)
                                        else:
                                            vw[...] = rng.standard_normal(a.shape).astype(a.dtype)
                                        c2.kw[k] = vw
                                    for ak, tgt in case.alias.items():
                                        c2.kw[ak] = c2.kw[tgt]
                                    audit.audit(vname, c2, A, rec, rng, real_t, dict(meta, call=f"pool-view[{j}]"))
                                    del c2
                                    rec.count("calls_on_views_sharing_address_and_shape_not_strides")
                        if mode == "asan" and done:
                            rec.count("asan_calls_clean")
                        nontrivial = True
                        rec.case((vname, dts, layout, sk, mode) if nontrivial else None,
                                 sample=meta if rng.random() < 0.05 else None)
    if mode != "asan":
        rec.count("asan_calls_clean", 0)


def classify_death(shard, rc, log):
    """called by the driver when a worker died without a result (ASan/UBSan abort)"""
    last = [ln for ln in log.splitlines() if ln.startswith("RUN ")]
    where = last[-1][4:] if last else "?"
    san = ("AddressSanitizer" in log) or ("runtime error:" in log) or ("UndefinedBehaviorSanitizer" in log)
    in_jit = ("internal::kernel" in log) or ("module_" in log)
    if san and in_jit:
        kind = "heap-buffer-overflow" if "heap-buffer-overflow" in log else ("ubsan" if "runtime error:" in log else "asan")
        vname = where.split("'variant': '")[1].split("'")[0] if "'variant': '" in where else "?"
        return {"violations": [{"mech": f"{vname}:sanitizer-{kind}", "msg": f"sanitizer report from the JIT module while running {where}: " + _first_report(log)}]}
    return {"inconclusive": [f"worker died rc={rc} while running {where}: {log[-600:]}"]}


def _first_report(log):
    for ln in log.splitlines():
        if "ERROR: AddressSanitizer" in ln or "runtime error:" in ln:
            return ln.strip()[:300]
    return ""
