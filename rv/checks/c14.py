"""C14 — the flow step has no preferred direction: axis permutation / mirror equivariance (DESIGN §4 C14).

Two REAL simulators: one on the grid, one on the g-transformed grid with g-transformed state (vorticity as
pseudo-scalar / pseudo-vector); one step each; g(step(S)) must equal step(g S) up to the noise floor, which is
measured by re-running the untransformed step on inputs perturbed by (1 +- eps).  No reference formulas are
involved, so this is independent of C01's transcription.
"""
import itertools

import numpy as np

from .. import sims, util

ID = "C14"
LEVEL = "exploration"
TITLE = "The flow step has no preferred direction (axis permutation/mirror equivariance)"
TECHNIQUE = "runtime monitoring: metamorphic differential between two real simulators related by a grid symmetry, noise floor measured on the real code"
RULE = (
    "signed axis permutations g (2-D: transpose, mirror-x, mirror-y; 3-D: cyclic permutation, x<->y transposition, one mirror per axis) x "
    "simulator configurations (forcing, free stream, boundary-zone width, filter type/order, Poisson solver, precision; passive transport "
    "scalar/vector) on non-square/non-cubic dyadic grids (dx a power of two, so both grids have bit-identical spacing); vorticity/forcing/"
    "transported field compactly supported (margin = width + filter order + 6), velocity generic; cases with an exactly zero face-velocity "
    "sum are resampled and counted.  distinct = (simulator, configuration, symmetry); non-trivial = the step changed the primary field "
    "by more than the tolerance."
)
ASSUMPTIONS = [
    "noise floor = 32 x max(8 eps |y|, deviation of the real untransformed step under (1+-eps) input perturbations, 3 re-runs)",
    "FFT plans differ between the two grid shapes, so nothing is compared bitwise",
]
REQUIRE = {"pairs_2d": 12, "pairs_3d": 8, "pairs_passive": 2, "steps_observed_with_zero_component_at_poisson_solve": 4}
SHARD_TIMEOUT = {"quick": 1500, "thorough": 3000}

# a symmetry = (perm, signs) acting on coordinates (x, y[, z]):  x'_i = signs[i] * x_perm[i]
SYM2 = {"transpose": ((1, 0), (1, 1)), "mirror_x": ((0, 1), (-1, 1)), "mirror_y": ((0, 1), (1, -1))}
SYM3 = {
    "cyclic": ((1, 2, 0), (1, 1, 1)), "swap_xy": ((1, 0, 2), (1, 1, 1)),
    "mirror_x": ((0, 1, 2), (-1, 1, 1)), "mirror_y": ((0, 1, 2), (1, -1, 1)), "mirror_z": ((0, 1, 2), (1, 1, -1)),
}


def _det(perm, signs):
    p = list(perm)
    par = 1
    for i in range(len(p)):
        for j in range(i + 1, len(p)):
            if p[i] > p[j]:
                par = -par
    return par * int(np.prod(signs))


def t_scalar(a, g):
    """new(x') = old(x), x' = g x.  Array axis of coordinate c is d-1-c."""
    perm, signs = g
    d = len(perm)
    axes = [0] * d
    for i in range(d):  # new coordinate i lives on new array axis d-1-i and comes from old coordinate perm[i]
        axes[d - 1 - i] = d - 1 - perm[i]
    out = np.transpose(a, axes)
    for i in range(d):
        if signs[i] < 0:
            out = np.flip(out, axis=d - 1 - i)
    return np.ascontiguousarray(out)


def t_vector(v, g, pseudo=False):
    perm, signs = g
    d = len(perm)
    out = np.stack([signs[i] * t_scalar(v[perm[i]], g) for i in range(d)])
    return out * (_det(perm, signs) if pseudo else 1)


def t_shape(shape, g):
    perm, _ = g
    d = len(perm)
    new = [0] * d
    for i in range(d):
        new[d - 1 - i] = shape[d - 1 - perm[i]]
    return tuple(new)


def t_const(U, g):
    perm, signs = g
    return np.array([signs[i] * U[perm[i]] for i in range(len(perm))], dtype=np.float64)


def shards(tier, seed):
    rng = util.rng_for(seed, "C14", "cfg")
    cases = []
    ax2 = {"forcing": [False, True], "free_stream": [False, True], "width": [0, 2, 3, 4], "dtype": ["float64", "float32"]}
    c2 = util.pairwise_cover(ax2, rng)
    filters = [None, (1, "multiplicative"), (2, "multiplicative"), (1, "convolution"), (2, "convolution")]
    ax3 = {"forcing": [False, True], "free_stream": [False, True], "width": [0, 2], "dtype": ["float64", "float32"], "filter": list(range(len(filters))),
           "solver": ["greens_function_convolution", "fast_diagonalisation"]}
    c3 = util.pairwise_cover(ax3, rng)
    s2, s3 = list(SYM2), list(SYM3)
    if tier == "quick":
        for i, c in enumerate(c2):
            cases.append(dict(c, kind="ns2d", sym=s2[(i + seed) % 3]))
            cases.append(dict(c, kind="ns2d", sym=s2[(i + seed + 1) % 3]))
        for i, c in enumerate(c3[:12]):
            cases.append(dict(c, kind="ns3d", sym=s3[(i + seed) % 5], filter=filters[c["filter"]]))
        for i, (ft, d) in enumerate((("scalar", 2), ("scalar", 3), ("vector", 3))):
            cases.append({"kind": "passive", "field_type": ft, "dim": d, "dtype": "float64" if i % 2 == 0 else "float32", "sym": (s2 if d == 2 else s3)[(i + seed) % (3 if d == 2 else 5)]})
    else:
        for c, s in itertools.product(c2, s2):
            cases.append(dict(c, kind="ns2d", sym=s))
        for c, s in itertools.product(c3, s3):
            cases.append(dict(c, kind="ns3d", sym=s, filter=filters[c["filter"]]))
        for (ft, d), dt in itertools.product((("scalar", 2), ("scalar", 3), ("vector", 3)), ("float64", "float32")):
            for s in (s2 if d == 2 else s3):
                cases.append({"kind": "passive", "field_type": ft, "dim": d, "dtype": dt, "sym": s})
    # planar vorticity that stays planar up to the Poisson solve (component `planar` identically zero), under the two symmetries that
    # move the zero component to another slot
    k = 0
    for zc, s in itertools.product((0, 1, 2), ("cyclic", "swap_xy")):
        for solver, dt_, forcing in itertools.product(ax3["solver"], ax3["dtype"], (False, True)):
            k += 1
            if tier == "quick" and (k + seed) % 8 != zc + 3 * (s == "cyclic"):
                continue  # quick: one of the 8 option combinations per (zero component, symmetry)
            cases.append({"kind": "ns3d", "sym": s, "planar": zc, "solver": solver, "dtype": dt_, "forcing": forcing, "free_stream": bool(k % 2),
                          "width": 2 * ((k // 2) % 2), "filter": filters[k % 3]})
    for i, c in enumerate(cases):
        c["cid"] = i
    n = 16 if tier == "quick" else 32
    return [{"name": f"g{i}", "cases": cases[i::n]} for i in range(n) if cases[i::n]]


def _set_state(sim, st):
    sims.primary(sim)[...] = st["w"]
    sim.velocity_field[...] = st["u"]
    if st.get("f") is not None:
        sim.eul_grid_forcing_field[...] = st["f"]


def _step(sim, st, dt, kind, query_dt=False):
    _set_state(sim, st)
    if query_dt:
        # what every driver loop does before stepping; it may only touch scratch memory
        sim.compute_stable_timestep()
    kw = {} if kind == "passive" else {"free_stream_velocity": np.array(st["U"], dtype=np.float64)}
    sim.time_step(dt=dt, **kw)
    return np.array(sims.primary(sim), np.float64), np.array(sim.velocity_field, np.float64)


def run_shard(sh, rec):
    seed = sh["seed"]
    for c in sh["cases"]:
        rng = util.rng_for(seed, "C14", c["cid"], c["kind"], c["sym"])
        kind = c["kind"]
        d = c.get("dim", 2 if kind == "ns2d" else 3)
        g = (SYM2 if d == 2 else SYM3)[c["sym"]]
        real_t = util.DT[c["dtype"]]
        eps = util.eps(real_t)
        order = c["filter"][0] if c.get("filter") else 0
        width = c.get("width", 0 if kind == "passive" else 2)
        m = width + order + 6
        lo = 2 * m + 4
        if d == 2:
            shape = (lo + 2 * int(rng.integers(0, 4)), lo + 2 * int(rng.integers(4, 8)))
            if rng.random() < 0.5:
                shape = shape[::-1]
        else:
            ex = [0, 2, 4]
            rng.shuffle(ex)
            shape = tuple(lo + e for e in ex)
        if c["sym"].startswith("mirror") and c["cid"] % 2 == 0:
            # the MIRRORED axis gets a prime length (17..31 cells; doubled length not an FFT-friendly size): anything that treats the two
            # ends of such an axis differently (padding, folding about the wrong extent) is odd under exactly this mirror
            ax = d - 1 - "xyz".index(c["sym"][-1])
            primes = [p_ for p_ in (17, 19, 23, 29, 31) if p_ >= lo]
            if primes:
                ls = list(shape)
                ls[ax] = int(primes[int(rng.integers(len(primes)))])
                shape = tuple(ls)
                rec.count("pairs_mirrored_along_an_axis_of_prime_length")
        if c["cid"] % 4 == 2:
            # one long axis (> 32 cells): seams of slab-/block-wise processing lie along ONE axis and move with the relabelling
            ls = list(shape)
            ls[int(rng.integers(d))] = 34 + 2 * int(rng.integers(0, 4))
            shape = tuple(ls)
            rec.count("pairs_with_one_long_axis")
        dx = 1.0 / 32
        nu = float(10 ** rng.uniform(-3, -1))
        dt = float(10 ** rng.uniform(-4, -2))
        rho = float(rng.uniform(0.5, 3))
        base = dict(kind=kind, nu=nu, dtype=c["dtype"], threads=2, forcing=c.get("forcing", False), free_stream=c.get("free_stream", False),
                    width=width, rho=rho, filter=c.get("filter"), solver=c.get("solver", "greens_function_convolution"), field_type=c.get("field_type", "scalar"))
        shape_b = t_shape(shape, g)
        label = {k: base[k] for k in ("kind", "dtype", "forcing", "free_stream", "width", "filter", "solver", "field_type")} | {"shape": shape, "sym": c["sym"]}
        try:
            sa = sims.build(dict(base, shape=shape, x_range=shape[-1] * dx))
            sb = sims.build(dict(base, shape=shape_b, x_range=shape_b[-1] * dx))
        except Exception as e:
            rec.violation("constructor-raises", f"{type(e).__name__}: {e} {label}", {"label": label})
            rec.case(None)
            continue
        if float(sa.dx) != float(sb.dx):
            rec.inconclusive_(f"grid spacings differ {sa.dx} {sb.dx}")
            continue
        vec_primary = (kind == "ns3d") or (kind == "passive" and base["field_type"] == "vector")
        lead = (3,) if vec_primary else ()
        # state: compact primary + forcing, generic velocity without exactly-zero face sums
        for attempt in range(5):
            u = util.field(rng, (d,) + shape, "noise", real_t)
            zero_sum = any(np.any(np.take(u[cc], range(0, shape[d - 1 - cc] - 1), axis=d - 1 - cc) + np.take(u[cc], range(1, shape[d - 1 - cc]), axis=d - 1 - cc) == 0) for cc in range(d))
            if not zero_sum:
                break
            rec.count("resampled_zero_face_sum")
        w = util.compact(rng, shape, m, "noise", real_t, lead=lead)
        f = util.compact(rng, shape, m, "noise", real_t, lead=(d,)) if base["forcing"] else None
        if vec_primary and (c["cid"] % 3 == 0 or c.get("planar") is not None):
            # planar primary field: one component identically zero (and no forcing into it): under a permutation of the axes the zero
            # component moves to another slot
            zc = int(rng.integers(3)) if c.get("planar") is None else int(c["planar"])
            w[zc] = 0
            rec.count("cases_with_one_zero_vector_component")
            if c.get("planar") is not None:
                # ... and it STAYS identically zero up to the Poisson solve: the step adds dt curl(u x w), whose zc component for a uniform
                # u is u_zc (div w - d_zc w_zc) - (u . grad) w_zc, exactly zero when u_zc = 0 as well; forcing only along the zero
                # component (its curl has no such component)
                for cc in range(d):
                    u[cc] = real_t(rng.uniform(0.5, 2.0) * rng.choice([-1.0, 1.0])) if cc != zc else 0
                if f is not None:
                    for cc in range(d):
                        if cc != zc:
                            f[cc] = 0
        U = rng.standard_normal(d)
        if c["cid"] % 2 == 1:
            # axis-aligned free stream (one or two components exactly zero): its image under a transposition / cyclic permutation is
            # aligned with ANOTHER axis, so anything that treats a zero component specially must do so for every axis alike
            for i_ in rng.permutation(d)[: int(rng.integers(1, d))]:
                U[int(i_)] = 0.0
            rec.count("cases_with_axis_aligned_free_stream")
        st = {"w": w, "u": u, "f": f, "U": U}
        pseudo_w = kind != "passive"
        if vec_primary:
            wb = t_vector(w, g, pseudo=pseudo_w)
        else:
            wb = t_scalar(w, g) * (_det(*g) if pseudo_w else 1)
        stb = {"w": wb.astype(real_t), "u": t_vector(u, g).astype(real_t), "f": t_vector(f, g).astype(real_t) if f is not None else None, "U": t_const(U, g)}
        try:
            # warm-up step on both objects (related by g as well) so that the compared step is each object's SECOND step:
            # state left behind in solver/scratch buffers by an earlier step must not break the symmetry either
            w_ = util.compact(rng, shape, m, "spikes", real_t, lead=lead)
            u_ = util.field(rng, (d,) + shape, "smooth", real_t)
            f_ = util.compact(rng, shape, m, "noise", real_t, lead=(d,)) if base["forcing"] else None
            st_ = {"w": w_, "u": u_, "f": f_, "U": U}
            wb_ = t_vector(w_, g, pseudo=pseudo_w) if vec_primary else t_scalar(w_, g) * (_det(*g) if pseudo_w else 1)
            stb_ = {"w": wb_.astype(real_t), "u": t_vector(u_, g).astype(real_t), "f": t_vector(f_, g).astype(real_t) if f_ is not None else None, "U": t_const(U, g)}
            qd = c["cid"] % 2 == 1  # every second pair queries the recommended step before each time_step
            if qd:
                rec.count("pairs_with_stable_timestep_query_before_each_step")
            _step(sa, st_, dt, kind, qd)
            _step(sb, stb_, dt, kind, qd)
            rec.count("warmup_steps", 2)
            wa, ua = _step(sa, st, dt, kind, qd)
            wb2, ub2 = _step(sb, stb, dt, kind, qd)
            # noise floor from the real code
            sw, su = 0.0, 0.0
            for _ in range(3):
                stp = {"w": (w * (1 + rng.uniform(-eps, eps, size=w.shape))).astype(real_t), "u": (u * (1 + rng.uniform(-eps, eps, size=u.shape))).astype(real_t),
                       "f": (f * (1 + rng.uniform(-eps, eps, size=f.shape))).astype(real_t) if f is not None else None, "U": U}
                wp, up = _step(sa, stp, dt, kind, qd)
                sw = max(sw, util.maxabs(wp - wa))
                su = max(su, util.maxabs(up - ua))
        except Exception as e:
            rec.violation("time_step-raises", f"{type(e).__name__}: {e} {label}", {"label": label})
            rec.case(None)
            continue
        if c.get("planar") is not None:
            # observed, not assumed: the component was still identically zero when the step handed the vorticity to the Poisson solve
            # (the vorticity is not modified after that)
            if not wa[int(c["planar"])].any():
                rec.count("steps_observed_with_zero_component_at_poisson_solve")
            else:
                rec.count("planar_cases_whose_zero_component_did_not_survive")
        # transform A's result and compare with B's
        if vec_primary:
            gwa = t_vector(wa, g, pseudo=pseudo_w)
        else:
            gwa = t_scalar(wa, g) * (_det(*g) if pseudo_w else 1)
        gua = t_vector(ua, g)
        tw = 32 * max(8 * eps * util.maxabs(wa), sw) + 1e-300
        tu = 32 * max(8 * eps * util.maxabs(ua), su) + 1e-300
        rw = util.err_over_tol(wb2, gwa, tw)
        ru = util.err_over_tol(ub2, gua, tu)
        rec.stat(f"{kind}_primary", rw)
        rec.stat(f"{kind}_velocity", ru)
        rec.count({"ns2d": "pairs_2d", "ns3d": "pairs_3d", "passive": "pairs_passive"}[kind])
        changed = util.maxabs(wa - w.astype(np.float64)) > tw
        rec.case((kind, c["sym"], c["dtype"], base["forcing"], base["free_stream"], width, str(base["filter"]), base["solver"][:5], base["field_type"]) if changed else None,
                 sample=label | {"dt": dt, "nu": nu, "err_over_tol": [rw, ru]})
        wit = {"label": label, "st": st, "dt": dt, "nu": nu, "rho": rho}
        if rw > 1:
            rec.violation(f"{kind}-primary-not-equivariant:{c['sym']}", f"g(step(S)) != step(g S): err/tol={rw:.3g} {label}", wit)
        if ru > 1 and kind != "passive":
            rec.violation(f"{kind}-velocity-not-equivariant:{c['sym']}", f"err/tol={ru:.3g} {label}", wit)
