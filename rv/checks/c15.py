"""C15 — results do not depend on thread count or iteration order (DESIGN §4 C15).

Monitors
  M1  (kernel creation)  every written field is only accessed at the write's own offsets
  M2  (kernel call)      no written array overlaps another bound array except as the identical view read at
                          the write offsets (np.shares_memory = exact test on the bound memory)
      M1 & M2 hold => no two iterations of that call touch a common byte with a write, for EVERY partition of
      the iteration space among threads and every order: decided deterministically per executed call.
  D   thread-count differential: each catalogue kernel under OpenMP thread counts {1,2,3,5,16} -> bitwise equal
  S   shadow execution: during simulator steps / solver calls every generated-kernel call is re-executed by its
      num_threads(1) twin on copies of the same inputs -> outputs bitwise equal (FFT stages are third party)
  N   numba spreading/interpolation dispatchers compiled without parallel=True; 4096 markers stacked in one
      cell spread 20x under numba thread counts {1,16} -> identical bytes, equal to index-order accumulation
"""
import numpy as np

from .. import audit, kernelspy, sims, util
from ..ref import kernels as KS
from . import c01

ID = "C15"
LEVEL = "exploration"
TITLE = "Results do not depend on thread count or iteration order"
TECHNIQUE = "runtime monitoring: dependence/alias invariant at hooks on every kernel creation and call (deterministic for all schedules) + bitwise thread-count differential and shadow execution"
RULE = (
    "workloads: every kernel variant of the catalogue (rv/ref/kernels.py) under OpenMP thread counts {1,3,16} (quick) / {1,2,3,5,16} "
    "(thorough) on identical inputs; one time step of a pairwise-covering set of simulator configurations (2-D/3-D Navier-Stokes with "
    "all option axes, passive transport) with shadow execution of every kernel call; unbounded Poisson solver calls; virtual-boundary "
    "interaction calls; stacked-marker spreading.  Monitors M1/M2 run on every kernel created and every kernel call of all of these.  "
    "distinct = (variant|configuration, dtype, thread set); non-trivial = the kernel call wrote at least one cell / the monitor saw at "
    "least one call."
)
ASSUMPTIONS = [
    "M1 and M2 are a sufficient condition for schedule independence of a call, evaluated on the actually bound memory",
    "OpenMP builds with different num_threads are compared bitwise with each other; the serial (num_threads=False) build is excluded (-Ofast)",
    "FFTW's own threading is third party: covered only through results at the noise floor elsewhere (C03)",
]
REQUIRE = {
    "kernels_seen": 50, "kernel_calls_checked": 300, "legal_aliasings_observed": 5, "thread_differentials": 40,
    "shadow_calls": 100, "numba_dispatchers_checked": 8, "stacked_spread_repeats": 20, "interaction_evaluations": 12,
}
SHARD_TIMEOUT = {"quick": 1200, "thorough": 3000}


def shards(tier, seed):
    names = [v.name for v in KS.VARIANTS]
    out = []
    n = 10 if tier == "quick" else 20
    for i in range(n):
        out.append({"name": f"diff{i}", "mode": "diff", "variants": names[i::n]})
    cfgs = [c for c in c01.configs("quick", seed) if c["rep"] == 0]
    if tier == "quick":
        # a third of the pairwise configurations, rotating with the seed; all of them in thorough
        cfgs = [c for j, c in enumerate(cfgs) if (j + seed) % 3 == 0]
    m = 5 if tier == "quick" else 12
    for i in range(m):
        out.append({"name": f"sim{i}", "mode": "sim", "cfgs": cfgs[i::m]})
    out.append({"name": "solvers", "mode": "solvers"})
    out.append({"name": "numba", "mode": "numba"})
    out.append({"name": "interaction2d", "mode": "interaction", "dim": 2})
    out.append({"name": "interaction3d", "mode": "interaction", "dim": 3})
    if tier == "thorough":
        # the repository's own ~740 tests as an extra workload for M1/M2 and the runtime contracts
        out.append({"name": "repotests", "mode": "repotests", "timeout": 3300})
    return out


def _flush_spy(rec):
    s = kernelspy.summary()
    rec.count("kernels_seen", s["kernels_seen"])
    rec.count("kernel_calls_checked", s["kernel_calls_checked"])
    rec.count("legal_aliasings_observed", sum(s["legal_aliasings"].values()))
    for k, v in s["legal_aliasings"].items():
        rec.count("legal:" + k, v)
    for v in kernelspy.VIOLATIONS:
        if v["monitor"] == "M1":
            rec.violation(f"M1:{v['gen']}:{v['field']}", f"kernel writes '{v['field']}' and also accesses it at other offsets: writes={v['writes']} accesses={v['reads_of_written_field']}", v)
        else:
            rec.violation(f"M2:{v['gen']}:{v['written']}~{v['other']}",
                          f"call binds overlapping memory to written field '{v['written']}' and field '{v['other']}' (same_view={v['same_view']}, "
                          f"read offsets {v['other_read_offsets']} vs write offsets {v['write_offsets']}) at {v['stack'][-2:]}", v)
    rec.count("shadow_calls", kernelspy.SHADOW["calls"])
    for m in kernelspy.SHADOW["mismatches"]:
        rec.violation(f"shadow:{m['gen']}:{m['field']}", f"kernel output differs bitwise between {m['threads']} threads and 1 thread on identical inputs: {m}", m)


def _run_diff(sh, rec):
    tier, seed = sh["tier"], sh["seed"]
    threads = (1, 3, 16) if tier == "quick" else (1, 2, 3, 5, 16)
    for j, vname in enumerate(sh["variants"]):
        v = KS.BY_NAME[vname]
        dts = ["float64", "float32"] if tier == "thorough" else (["float64"] if (j + seed) % 2 == 0 else ["float32"])
        for d in dts:
            real_t = util.DT[d]
            rng0 = util.rng_for(seed, "C15", vname, d)
            lo = max(v.min_side, 1)
            shape = tuple(int(x) for x in (rng0.integers(lo + 2, lo + 9, size=v.dim)))
            base_seed = int(rng0.integers(1 << 30))
            # both orientations of the grid (rows < columns and rows > columns): with 16 threads and 3..11 rows the team is larger than
            # the outer loop in one of them; a sweep re-arranged for that case exists in one orientation only
            for shape in ([shape, shape[::-1]] if shape != shape[::-1] else [shape]):
                outs = {}
                for nt in threads:
                    rng = np.random.default_rng(base_seed)  # identical inputs for every thread count
                    A = audit.Arrays(rng, real_t, "contig")
                    try:
                        if v.needs_grid:
                            K, ctx = v.build_for(shape, real_t, nt, A, rng)
                            case = v.make(K, A, shape, real_t, rng, ctx)
                        else:
                            K = v.build(real_t, nt)
                            case = v.make(K, A, shape, real_t, rng)
                        # outputs: replace NaN sentinels by finite garbage so that value comparison is meaningful
                        for k, role in case.roles.items():
                            if role == "out":
                                a = case.kw[k]
                                a[...] = (np.random.default_rng(base_seed + 1).standard_normal(a.shape)).astype(a.dtype) if a.dtype.kind != "c" else 0
                        case.fn(**case.kw)
                    except Exception as e:
                        if "penalise_field_boundary" in vname and vname.endswith("_w1") and isinstance(e, ValueError):
                            rec.violation("boundary-damping-width1-raises", f"{vname}: {e}", {"variant": vname})
                        else:
                            rec.violation(f"{vname}-raises", f"{type(e).__name__}: {e} threads={nt}", {"variant": vname})
                        outs = None
                        break
                    outs[nt] = {k: np.array(case.kw[k], copy=True) for k, role in case.roles.items() if role in ("out", "inout")}
                if not outs:
                    rec.case(None)
                    continue
                ref = outs[threads[0]]
                same = True
                for nt in threads[1:]:
                    for k in ref:
                        if not util.bits_equal(ref[k], outs[nt][k]):
                            same = False
                            rec.violation(f"thread-count-dependent:{vname}", f"output '{k}' differs bitwise between {threads[0]} and {nt} threads, dtype={d} shape={shape}",
                                          {"variant": vname, "threads": (threads[0], nt), "shape": shape})
                rec.count("thread_differentials")
                rec.case((vname, d, "threads" + "/".join(map(str, threads))), sample={"variant": vname, "dtype": d, "shape": shape, "threads": threads, "bitwise_equal": same})


def _run_sim(sh, rec):
    seed = sh["seed"]
    kernelspy.SHADOW["on"] = True
    for c in sh["cfgs"]:
        rng = util.rng_for(seed, "C15sim", c["kind"], c["cid"])
        kind = c["kind"]
        d = c.get("dim", 2 if kind == "ns2d" else 3)
        shape = (c01.POOL2 if d == 2 else c01.POOL3)[int(rng.integers(6))]
        real_t = util.DT[c["dtype"]]
        cfg = dict(kind=kind, shape=shape, x_range=1.0, nu=float(10 ** rng.uniform(-3, -1)), dtype=c["dtype"], threads=3, forcing=c.get("forcing", False),
                   free_stream=c.get("free_stream", False), width=c.get("width", 2), rho=1.3, filter=c.get("filter"),
                   solver=c.get("solver", "greens_function_convolution"), field_type=c.get("field_type", "scalar"))
        before_calls = sum(kernelspy.CALLS.values())
        try:
            sim = sims.build(cfg)
            for name in ("vorticity_field", "primary_field", "velocity_field", "eul_grid_forcing_field"):
                if hasattr(sim, name):
                    a = getattr(sim, name)
                    a[...] = rng.standard_normal(a.shape).astype(real_t)
            kw = {} if kind == "passive" else {"free_stream_velocity": rng.standard_normal(d)}
            for _ in range(2):
                sim.time_step(dt=1e-3, **kw)
            sim.compute_stable_timestep()
            if kind == "ns3d":
                sim.get_vorticity_divergence_l2_norm()
        except Exception as e:
            if cfg["width"] == 1 and isinstance(e, ValueError):
                rec.violation("boundary-damping-width1-raises", f"{type(e).__name__}: {e} {cfg}", {"cfg": cfg})
            else:
                rec.violation("time_step-raises", f"{type(e).__name__}: {e} {cfg}", {"cfg": cfg})
            rec.case(None)
            continue
        n = sum(kernelspy.CALLS.values()) - before_calls
        rec.count("sim_steps", 2)
        rec.case((kind, c["dtype"], cfg["forcing"], cfg["free_stream"], cfg["width"], str(cfg["filter"]), cfg["solver"][:5], cfg["field_type"]) if n else None,
                 sample={k: cfg[k] for k in ("kind", "shape", "dtype", "forcing", "free_stream", "width", "filter", "solver", "field_type")} | {"kernel_calls": n})


def _run_solvers(sh, rec):
    import sopht.numeric.eulerian_grid_ops as spne

    kernelspy.SHADOW["on"] = True
    rng = util.rng_for(sh["seed"], "C15solvers")
    for d in (2, 3):
        for dt in ("float64", "float32"):
            real_t = util.DT[dt]
            shape = util.shape2d(rng, 5, 20) if d == 2 else util.shape3d(rng, 4, 10)
            s = (spne.UnboundedPoissonSolverPYFFTW2D(shape[0], shape[1], x_range=1.0, num_threads=3, real_t=real_t) if d == 2
                 else spne.UnboundedPoissonSolverPYFFTW3D(shape[0], shape[1], shape[2], x_range=1.0, num_threads=3, real_t=real_t))
            f = util.field(rng, shape, "noise", real_t)
            u = np.zeros_like(f)
            s.solve(solution_field=u, rhs_field=f)
            if d == 3:
                fv = util.field(rng, (3, *shape), "noise", real_t)
                s.vector_field_solve(solution_vector_field=np.zeros_like(fv), rhs_vector_field=fv)
            rec.case(("unbounded-solver", d, dt), sample={"solver": f"UnboundedPoissonSolverPYFFTW{d}D", "shape": shape, "dtype": dt})


def _run_numba(sh, rec):
    import numba
    import sopht.numeric.immersed_boundary_ops as spi

    rng = util.rng_for(sh["seed"], "C15numba")
    for d in (2, 3):
        for kern in ("cosine", "peskin"):
            for ncomp in (1, d):
                real_t = np.float64
                N = 4096
                n = 24
                dx = real_t(1.0 / n)
                C = spi.EulerianLagrangianGridCommunicator2D if d == 2 else spi.EulerianLagrangianGridCommunicator3D
                c = C(dx=dx, eul_grid_coord_shift=real_t(dx / 2), num_lag_nodes=N, interp_kernel_width=2, real_t=real_t, n_components=ncomp, interp_kernel_type=kern)
                for nm in ("local_eulerian_grid_support_of_lagrangian_grid_kernel", "eulerian_to_lagrangian_grid_interpolation_kernel",
                           "lagrangian_to_eulerian_grid_interpolation_kernel", "interpolation_weights_kernel"):
                    fn = getattr(c, nm)
                    to = getattr(fn, "targetoptions", None)
                    rec.count("numba_dispatchers_checked")
                    if to is None:
                        rec.note(f"{nm} is not a numba dispatcher ({type(fn).__name__})")
                        continue
                    if to.get("parallel"):
                        rec.violation(f"numba-parallel:{nm}", f"{nm} ({d}-D, {kern}) is compiled with parallel={to.get('parallel')}: marker order is not fixed", {"kernel": nm})
                for pattern in ("stacked", "revisit"):
                    _spread_pattern(rec, rng, numba, c, d, N, n, ncomp, kern, real_t, pattern)


def _spread_pattern(rec, rng, numba, c, d, N, n, ncomp, kern, real_t, pattern):
    """spreading must be a marker-by-marker accumulation in index order: bitwise repeatable over repeats and numba thread
    counts, and equal to the index-order sum (per visited cell, from the kernel's own weights and indices) to the floor"""
    P = np.empty((d, N))
    if pattern == "stacked":
        P[...] = rng.uniform(0.3, 0.7, size=(d, 1))  # all markers on one interior position
    else:
        # markers REVISIT cells: positions cycle through three points in different cells (A, B, C, A, B, C, ...): no two consecutive
        # markers share a cell, yet every cell receives N/3 contributions
        pts = np.array([[0.31, 0.52, 0.68]] * d) + rng.uniform(-0.01, 0.01, size=(d, 3))
        P[...] = pts[:, np.arange(N) % 3]
    sup = np.zeros((d,) + (4,) * d + (N,), real_t)
    idx = np.zeros((d, N), dtype=int)
    w = np.zeros((4,) * d + (N,), real_t)
    c.local_eulerian_grid_support_of_lagrangian_grid_kernel(sup, idx, P)
    c.interpolation_weights_kernel(w, sup)
    Fm = rng.standard_normal((ncomp, N)) if ncomp > 1 else rng.standard_normal(N)
    results = []
    for nthreads in (1, min(16, numba.config.NUMBA_NUM_THREADS)):
        numba.set_num_threads(nthreads)
        for rep in range(6):
            g = np.zeros(((ncomp,) if ncomp > 1 else ()) + (n,) * d, real_t)
            c.lagrangian_to_eulerian_grid_interpolation_kernel(g, Fm, w, idx)
            results.append(g)
            rec.count("stacked_spread_repeats")
    same = all(util.bits_equal(results[0], r) for r in results[1:])
    if not same:
        rec.violation("spreading-run-dependent", f"{pattern}-marker spreading gives different bytes across repeats/thread counts ({d}-D {kern} ncomp={ncomp})", {"d": d})
    ref = np.zeros_like(results[0], dtype=np.float64)
    Fm2 = Fm.reshape(ncomp, N) if ncomp > 1 else Fm.reshape(1, N)
    groups = {}
    for mk in range(N):
        groups.setdefault(tuple(int(x) for x in idx[:, mk]), []).append(mk)
    absmax = 0.0
    for key, members in groups.items():
        sl = tuple(slice(key[d - 1 - a] - 1, key[d - 1 - a] + 3) for a in range(d))
        acc = np.einsum("cm,...m->c...", Fm2[:, members], w[..., members].astype(np.float64))
        absmax = max(absmax, float(np.einsum("cm,...m->c...", np.abs(Fm2[:, members]), np.abs(w[..., members]).astype(np.float64)).max()))
        if ncomp > 1:
            ref[(slice(None),) + sl] += acc
        else:
            ref[sl] += acc[0]
    tol = 4 * N * util.eps(real_t) * absmax
    r = util.err_over_tol(results[0], ref, tol)
    rec.stat("spread_vs_index_order_accumulation", r)
    rec.count("cells_groups_revisited" if pattern == "revisit" else "cells_groups_stacked", len(groups))
    if r > 1:
        rec.violation("spreading!=index-order-accumulation", f"err/tol={r:.3g} pattern={pattern} ({d}-D {kern} ncomp={ncomp})", {"d": d, "pattern": pattern})
    rec.case(("spread", pattern, d, kern, ncomp), sample={"dim": d, "kernel": kern, "components": ncomp, "markers": N, "pattern": pattern, "bitwise_repeatable": same})


def _run_repotests(sh, rec):
    import glob
    import json
    import os
    import subprocess

    from .. import env

    with util.TempDir() as tmp:
        out = os.path.join(tmp, "out")
        e = env.child_env({"RV_PYTEST_OUT": out})
        cmd = [env.PYTHON, "-m", "pytest", os.path.join(env.REPO, "tests"), "-p", "rv.pytest_monitor", "-q", "-p", "no:cacheprovider", "--rootdir", env.REPO,
               "--timeout=900", "-n", "10", "--deselect", "tests/test_utils/test_restart.py", "--ignore", os.path.join(env.REPO, "tests/test_utils/test_restart.py")]
        r = subprocess.run(cmd, cwd=tmp, env=e, capture_output=True, text=True, timeout=3200)
        tail = r.stdout.strip().splitlines()[-1] if r.stdout.strip() else ""
        rec.note(f"repo tests under monitors: {tail}")
        ks = calls = 0
        evals = {}
        for f in glob.glob(os.path.join(out, "*.json")):
            with open(f) as fh:
                d = json.load(fh)
            ks += d["kernels_seen"]
            calls += d["kernel_calls_checked"]
            for k, v in d["legal_aliasings"].items():
                rec.count("legal:" + k, v)
                rec.count("legal_aliasings_observed", v)
            for v in d.get("alias_violation_list", []):
                key = f"{v['monitor']}:{v['gen']}:" + (v.get("field") or f"{v.get('written')}~{v.get('other')}")
                rec.violation(key, f"observed while the repository's own tests ran: {v}", v)
            for k, n in d["contracts"]["evaluations"].items():
                evals[k] = evals.get(k, 0) + n
            for v in d["contracts"]["violations"]:
                rec.violation("contract:" + v["contract"], f"while the repository's own tests ran: {v['detail']}", v)
        rec.count("kernels_seen", ks)
        rec.count("kernel_calls_checked", calls)
        rec.count("repo_test_kernel_calls", calls)
        for k, n in evals.items():
            rec.count("contract:" + k, n)
        if calls == 0:
            rec.inconclusive_(f"repository tests produced no monitored kernel call: {tail} {r.stderr[-300:]}")
        rec.case(("repo-test-suite",), sample={"pytest": tail, "kernel_calls": calls, "contract_evaluations": evals})


def _run_interaction(sh, rec):
    """real virtual-boundary interaction objects (configurations of C10) under M1/M2 + shadow execution; their numba
    dispatchers must be serial; repeated evaluation of the same state gives identical bytes"""
    from .. import bodies

    kernelspy.SHADOW["on"] = True
    d = sh["dim"]
    rng = util.rng_for(sh["seed"], "C15ix", d)
    N = bodies.IX_POOL[d]["N"] if not isinstance(bodies.IX_POOL[d]["N"], tuple) else bodies.IX_POOL[d]["N"][0]
    kinds = bodies.ix_kinds(d, N)
    for j, kind in enumerate(kinds):
        for reset in (False, True):
            real_t = np.float64 if (j + reset) % 2 == 0 else np.float32
            try:
                case = bodies.make_interaction_case(rng, kind, N, reset=reset, real_t=real_t)
            except Exception as e:
                rec.note(f"interaction case {kind} not built: {type(e).__name__}: {e}")
                continue
            it = case.it
            comm = it.eul_lag_grid_communicator
            for nm in ("local_eulerian_grid_support_of_lagrangian_grid_kernel", "eulerian_to_lagrangian_grid_interpolation_kernel",
                       "lagrangian_to_eulerian_grid_interpolation_kernel", "interpolation_weights_kernel"):
                to = getattr(getattr(comm, nm), "targetoptions", None)
                rec.count("numba_dispatchers_checked")
                if to is not None and to.get("parallel"):
                    rec.violation(f"numba-parallel:{nm}", f"{nm} of a {kind} interaction is compiled with parallel=True", {"kind": kind})
            outs = []
            for rep in range(3):
                case.eul_force[...] = 0
                it()
                it.compute_flow_forces_and_torques()
                outs.append((np.array(case.eul_force, copy=True), np.array(it.lag_grid_forcing_field, copy=True), np.array(it.body_flow_forces, copy=True)))
                rec.count("interaction_evaluations")
            same = all(util.bits_equal(a, b) for o in outs[1:] for a, b in zip(outs[0], o))
            if not same:
                rec.violation("interaction-run-dependent", f"three evaluations of the same state give different bytes ({kind}, reset={reset}, {real_t.__name__})", {"kind": kind})
            it.time_step(dt=1e-3)
            rec.case(("interaction", kind, reset, real_t.__name__), sample={"kind": kind, "markers": N, "reset": reset, "dtype": real_t.__name__, "bitwise_repeatable": same})


def run_shard(sh, rec):
    if sh["mode"] == "interaction":
        kernelspy.install()
        _run_interaction(sh, rec)
        return _flush_spy(rec)
    if sh["mode"] == "repotests":
        return _run_repotests(sh, rec)
    kernelspy.install()
    mode = sh["mode"]
    if mode == "diff":
        _run_diff(sh, rec)
    elif mode == "sim":
        _run_sim(sh, rec)
    elif mode == "solvers":
        _run_solvers(sh, rec)
    else:
        _run_numba(sh, rec)
    _flush_spy(rec)
