"""C16 — the recommended time step is stable; an explicit diffusion step is monotone (DESIGN §4 C16).

Part A (time step).  ``compute_stable_timestep(dt_prefac)`` of the three simulator classes (and the
shared function ``compute_advection_diffusion_stable_timestep`` called directly) is observed under
generated velocity fields (zero, uniform incl. negative, one huge spike, noise), viscosities over ten
decades (nu > 0), CFL 1e-3..1, spacings 1/512..4, prefactors in (0,1].  From the RETURNED value, in
float64 and with the velocity array actually stored in the simulator:
    dt finite and > 0                                              dt-not-finite-positive
    |dt(p) - p dt(1)| <= 8 eps_t p dt(1)                           dt-not-linear-in-prefactor
    dt max_x(sum_a |u_a|) / dx <= CFL (1 + 8 eps_t)                cfl-limit-exceeded
    nu dt / dx^2 <= 0.9/(2d) (1 + 8 eps_t)                         diffusion-limit-exceeded
(8 eps_t is an a-priori bound, not a statistical floor: the worst-case rounding of the documented formula
evaluated in the simulator's precision is 3 eps_t for the CFL limit and 3.5 eps_t for the diffusion limit;
measured <= 1.5 eps_t resp. 2 eps_t).  The regime of every case (advection- or diffusion-limited, from an
independent float64 evaluation of the two limits) is counted; REQUIRE makes the run inconclusive if
the diffusion-limited regime with nu/dx^2 >= 1 was not reached.

Part B (maximum principle).  For alpha = nu dt/dx^2 <= 0.9/(2d) (the limit itself, random values
below it, tiny), one step of the REAL diffusion time-step kernel (2-D, 3-D scalar, 3-D vector; flux
buffer pre-loaded with garbage) and one ``time_step`` of the passive-transport simulator with zero
velocity (dt from ``compute_stable_timestep``; if that dt breaks the diffusion limit the premise of
the property fails, the excess is reported under diffusion-limit-exceeded and the step is taken with
the largest admissible dt instead) must satisfy per interior cell
    min(self, 2d neighbours) - 8 eps_t max|f| <= new <= max(self, 2d neighbours) + 8 eps_t max|f|
(diffusion-new-extremum) and leave the boundary ring unchanged by value (diffusion-ring-changed;
-0.0 == +0.0).  The slack is 8 eps_t instead of the 4 eps_t of DESIGN §4: the a-priori rounding bound of
f + alpha (sum - 2d f) in working precision is ~6 eps_t max|f| in 3-D and 0.62 eps_t max|f| was measured
on flat fields (seed 1 thorough), which would leave only 6x headroom with 4 eps_t.  Fields: noise,
spikes, checkerboard, flat (constant + few-ulp ripple: stresses the slack), constant.

Workload diversity (added after the seeded-change campaign): every third simulator of a shard is a SIBLING of the previous
one (same grid shape and precision, other dx / nu / CFL) and the previous object is queried again afterwards;
``compute_stable_timestep`` is called with keyword, positional and default argument; the bare function gets dx as python
float and (real_t = float32) a float64 velocity array; the diffusion kernels get alpha alternately as python float and real_t.

ONE simulator object is then driven through a history of public-attribute changes (kinematic_viscosity raised and lowered
by 1-4 decades, cfl changed, velocity replaced incl. zero) with a query after each change, judged against the CURRENT
attribute values, followed (passive simulators) by a diffusion step with the dt recommended for zero velocity (a limit
cached at the first query is stale there).  The kernel-level maximum-principle leg hands the SAME scratch flux array object
(refilled with garbage, ring included) to all calls per shape with that layout (a ring reset done only on first sight of an array).

Self-test of the added dimensions: passive_transport_flow_simulators.py:133 kinematic_viscosity=self.kinematic_viscosity ->
self.__dict__.setdefault("_nu0", self.kinematic_viscosity) (viscosity frozen at the first query) -> VIOLATION
diffusion-limit-exceeded, witnesses on the 'same-object-history' queries after 'nu-up'.

diffusion_flux_2d.py:70 ghost-ring reset of the flux performed only the first time an array object (id) is seen (sed) -> VIOLATION
diffusion-ring-changed (kernel leg, 2nd and later calls on the reused scratch object).

Workload dimensions added later, kernel-level legs only (``mp`` = diffusion time-step kernels, ``fn`` = the bare time-step function;
the simulator leg drives whole simulators and is out of scope).  No existing assertion or tolerance was changed; every new execution is
judged by the same monitors, never bitwise against an execution with another layout:
  (a) array layout -- mp: every third call runs on a NON-contiguous view of the field (pad / step / fortran, util.noncontiguous_copy) and
      a second persistent scratch object per shape that is itself a non-contiguous view (so 'same scratch object, refilled' holds for both
      layouts; results read back with np.ascontiguousarray); fn: every third call gets velocity and magnitude buffer as non-contiguous views.
  (b) histories of TEMPORARY views -- mp: per kernel object and shape K = 4 calls in a tight loop with field = F[k], diffusion_flux = S[k]
      (spikes at the limit, noise below, checkerboard with step 0, noise tiny), judged afterwards; fn: every 25th draw K = 4 calls with
      velocity_field = V[k], velocity_magnitude_field = B[k], each returned dt judged against ITS velocity snapshot.
  (c) exactly-zero multiplier -- mp: nu_dt_by_dx2 = 0 (python float and real_t) with NaN sentinels in the scratch buffer: besides the
      maximum principle and the ring the WHOLE field must be unchanged by value (mechanism diffusion-zero-step-changes-field; convex
      averaging with weight 1 on the cell itself).  fn: nu = 0 was already among the draws; CFL = 0 / prefactor 0 are outside the
      quantifier (dt must be positive), so nothing was added there.
  (d) other-precision predecessors -- mp: the same time-step generators for the OTHER precision (identical options), each result called
      once, before the kernels under observation are generated; fn: one call with real_t = other precision first.
  Self-test (tools/mut.sh, quick, seed 0; "before" = this module at the preceding commit, run from a git worktree):
  diffusion_flux_2d.py:70   ghost-ring reset on np.ascontiguousarray(diffusion_flux) (a copy iff the scratch array is not contiguous)   now diffusion-ring-changed ('noncontiguous_views': True only); before HELD (contiguous arrays only)
  passive_transport_flow_simulators.py:152  velocity_magnitude_field.reshape(-1)[...] = ....reshape(-1)                              now dt-not-finite-positive (fn leg, view calls); before HELD (same reason)
  diffusion_timestep_3d.py  vector wrapper takes the x component from a module-level dict keyed by id(vector_field)                 before HELD; now diffusion-timestep-raises / diffusion-new-extremum (stale component view)
  diffusion_timestep_2d.py  flux kernel skipped when nu_dt_by_dx2 == 0 (the stale scratch buffer is still added)                   before HELD; now diffusion-timestep-not-finite at alpha = 0
  diffusion_timestep_2d.py  prefactor=max(nu_dt_by_dx2, 1e-6)                                                                      now diffusion-zero-step-changes-field only (still a convex averaging)
  diffusion_timestep_2d.py  generator memoised per (num_threads, fixed_grid_size) without real_t (patch)                            before HELD; now diffusion-timestep-raises (kernel of the other precision served)
  No false alarm occurred while adding (a)-(d).

Known genuine defect on the pinned tree (F2): the diffusion limit is ``0.9 dx^2/(2d)/nu + tol`` with
tol = 10 eps, so nu dt/dx^2 = 0.225 + 10 eps nu/dx^2 when the step is diffusion-limited, e.g.
float32, dx = 1/256, nu = 0.5: 0.264 > 0.25 -> mechanism ``diffusion-limit-exceeded``.  Silent with
/verif/fixes/F2.diff applied.

Self-test (tools/mut.sh, quick tier, seed 0; patches = F2.diff + one change so that F2 does not mask):
  F2.diff alone                                                         -> HELD (pinned tree: only diffusion-limit-exceeded, 36 witnesses)
  cfl ignored (dx / (amax + tol))                                       -> cfl-limit-exceeded
  abs dropped (np.sum(velocity) instead of np.sum(np.fabs(velocity)))   -> cfl-limit-exceeded, dt-not-finite-positive
  only the x component (np.fabs(velocity)[0])                           -> cfl-limit-exceeded
  np.amax -> np.mean                                                    -> cfl-limit-exceeded
  min(...) -> max(...)                                                  -> cfl-limit-exceeded, diffusion-limit-exceeded
  0.9 -> 1.1                                                            -> diffusion-limit-exceeded
  grid_dim -> 1 in the diffusion limit                                  -> diffusion-limit-exceeded
  prefactor applied twice (Navier-Stokes 3-D class / passive class)     -> dt-not-linear-in-prefactor
  passive simulator steps with nu dt/dx instead of nu dt/dx^2           -> diffusion-new-extremum (objects with dx > 1.3)
  2-D diffusion stencil: centre weight -3 instead of -4                 -> diffusion-new-extremum
  3-D diffusion flux: boundary reset of the flux dropped                -> diffusion-ring-changed
  Unchanged tree + F2.diff: HELD for seeds 0..5 quick, 0..1 thorough.
"""
import numpy as np

from .. import sims, util
from ..ref import ops

ID = "C16"
LEVEL = "exploration"
TECHNIQUE = "runtime monitoring: inequality monitors on the dt returned by the real simulators (both limits, linearity, live attribute changes) + local maximum-principle invariant on real diffusion steps"
TITLE = "The recommended time step is stable and keeps diffusion monotone"
RULE = (
    "simulator objects of all three classes (passive 2-D, passive 3-D scalar/vector, Navier-Stokes 2-D/3-D) "
    "over random non-square/non-cubic shapes, dx log-uniform 1/512..4 (through x_range), nu log-uniform over "
    "1e-8..1e2, CFL log-uniform 1e-3..1 (and 1), both precisions; per object velocity fields zero / uniform "
    "(signed) / one huge spike / noise / mixed-sign noise with amplitudes 1e-3..1e6, prefactors {1, 0.5, random "
    "in (0,1]}; the same through the bare function with ~thousands of parameter draws; diffusion steps of the "
    "real kernels (alpha in {limit, random below, tiny, exactly 0}; every third call on non-contiguous views; tight-loop histories on "
    "temporary views; other-precision predecessor first) and of the passive simulator at alpha in {limit, random below, tiny} on noise / spikes / "
    "checkerboard / flat / constant fields.  Non-trivial: velocity not identically zero for the CFL limit, "
    "diffusion-limited regime for the diffusion limit, non-constant field for the maximum principle; "
    "distinct = (class, dim, dtype, velocity kind, regime, nu/dx^2 decade) resp. (path, dim, variant, dtype, "
    "field kind, alpha class)."
)
ASSUMPTIONS = [
    "the inequalities are evaluated in float64 from the returned dt, the simulator's own dx attribute and the stored velocity array",
    "8 eps_t relative slack on both limits and on linearity (a-priori bound: worst-case rounding of the documented formula is 3.5 eps_t)",
    "maximum-principle slack 8 eps_t max|f| (a-priori rounding bound ~6 eps_t max|f| in 3-D; measured excess on flat fields <= 0.1 of the slack)",
    "nu = 0 is included (6 % of the draws): no diffusion limit, the other clauses apply",
]
REQUIRE = {
    "dt_calls": 400,
    "regime_diffusion_limited": 100,
    "regime_advection_limited": 100,
    "diffusion_limited_nu_by_dx2_ge_1": 40,
    "classes_ns2d": 1, "classes_ns3d": 1, "classes_passive2d": 1, "classes_passive3d": 1,
    "velocity_zero": 20, "velocity_spike": 20,
    "maxprinciple_kernel_steps": 60,
    "maxprinciple_simulator_steps": 12,
    "maxprinciple_cells": 20000,
    "maxprinciple_at_limit": 12,
    "ring_cells_compared": 4000,
    "live_attribute_changes": 200,
    "maxprinciple_simulator_steps_after_attribute_change": 60,
    "maxprinciple_navier_stokes_steps_after_attribute_change": 20,
    "maxprinciple_kernel_steps_on_reused_scratch_object": 60,
    "sims_sibling_same_shape_other_parameters": 8,
    "sims_rechecked_after_sibling": 8,
    "sims_first_axis_longer_than_x": 8,
    "dt_calls_default_argument": 20, "dt_calls_positional": 50, "dt_calls_keyword": 50,
    "fn_calls_dx_python_float": 200,
    "fn_calls_float64_velocity_float32_real_t": 100,
    "maxprinciple_alpha_python_float": 30, "maxprinciple_alpha_real_t": 30,
    "maxprinciple_steps_first_axis_longer_than_x": 20,
    # workload dimensions (a)-(d) of the kernel-level legs
    "maxprinciple_kernel_steps_on_noncontiguous_views": 40,
    "maxprinciple_kernel_steps_on_temporary_views": 32,
    "kernel_steps_with_exactly_zero_step_size": 40,
    "fn_calls_with_noncontiguous_array_arguments": 100,
    "fn_calls_with_temporary_view_arguments": 60,
    "fn_calls_on_grids_above_65536_cells": 8,
    "dt_queries_inviscid_at_rest_on_coarse_grid": 4,
    "other_precision_predecessors": 8,
}
SIM_KINDS = ("passive2d", "passive3d", "ns2d", "ns3d")
VEL_KINDS = ("zero", "uniform", "uniform_neg", "spike", "spike_last", "noise", "noise_abs", "tiny")
FIELD_KINDS = ("noise", "spikes", "checker", "flat", "const")


def shards(tier, seed):
    rep = 1 if tier == "quick" else 3
    out = []
    for r in range(rep):
        for kind in SIM_KINDS:
            for dt in ("float32", "float64"):
                out.append({"name": f"dt-{kind}-{dt}-{r}", "part": "sim", "kind": kind, "dtype": dt, "idx": r})
        for i in range(4):
            out.append({"name": f"fn-{i}-{r}", "part": "fn", "dtype": ("float32", "float64")[i % 2], "idx": 4 * r + i})
        for dim in (2, 3):
            for dt in ("float32", "float64"):
                out.append({"name": f"mp-{dim}d-{dt}-{r}", "part": "mp", "dim": dim, "dtype": dt, "idx": r})
    return out


# ------------------------------------------------------------------------------------------------
# generators
# ------------------------------------------------------------------------------------------------
def _loguniform(rng, lo, hi):
    return float(10.0 ** rng.uniform(np.log10(lo), np.log10(hi)))


def _velocity(rng, kind, d, shape, real_t):
    v = np.zeros((d, *shape), real_t)
    amp = _loguniform(rng, 1e-3, 1e3)
    if kind == "uniform":
        v[...] = amp
    elif kind == "uniform_neg":
        for c in range(d):
            v[c] = -amp * float(rng.uniform(0.2, 1.0))
    elif kind == "spike":
        cell = tuple(int(rng.integers(0, n)) if rng.random() < 0.6 else int(rng.choice([0, n - 1])) for n in shape)
        comps = range(d) if rng.random() < 0.5 else [int(rng.integers(d))]
        for c in comps:
            v[(c, *cell)] = float(rng.choice([-1.0, 1.0])) * 1e6 * float(rng.uniform(0.1, 1.0))
        if rng.random() < 0.5:
            v += (1e-3 * rng.standard_normal(v.shape)).astype(real_t)
    elif kind == "spike_last":
        # the fastest cells are the very last (or very first) cells in memory order: chunked / blocked reductions that drop a
        # remainder (cell count not a multiple of the thread or block count) miss exactly these
        flat = v.reshape(d, -1)
        k = int(rng.integers(1, 4))
        sl = slice(-k, None) if rng.random() < 0.7 else slice(0, k)
        for c in (range(d) if rng.random() < 0.5 else [int(rng.integers(d))]):
            flat[c, sl] = float(rng.choice([-1.0, 1.0])) * amp * 1e3 * float(rng.uniform(0.1, 1.0))
        v += (1e-3 * amp * rng.standard_normal(v.shape)).astype(real_t)
    elif kind == "noise":
        v[...] = amp * rng.standard_normal(v.shape)
    elif kind == "noise_abs":
        v[...] = -amp * np.abs(rng.standard_normal(v.shape))
    elif kind == "tiny":
        v[...] = 1e-9 * rng.standard_normal(v.shape)
    return v


def _draw_params(rng, d, real_t):
    """nu, dx target, cfl with both regimes reachable"""
    nu = _loguniform(rng, 1e-8, 1e2)
    dx = _loguniform(rng, 1.0 / 512, 4.0)
    r = rng.random()
    if r < 0.35:  # aim at the diffusion-limited corner: large nu / dx^2
        nu = _loguniform(rng, 1e-3, 1e2)
        dx = _loguniform(rng, 1.0 / 512, 0.05)
    cfl = 1.0 if rng.random() < 0.15 else _loguniform(rng, 1e-3, 1.0)
    if rng.random() < 0.06:
        nu = 0.0  # inviscid ("any viscosity"): no diffusion limit, the step must still be finite, positive and within the CFL limit
        if rng.random() < 0.5:
            # ... on a coarse grid in large units (dx = 4..256, e.g. metres): with the fluid at rest as well, neither limit binds and the
            # guards of both quotients alone decide whether the returned step is finite
            dx = _loguniform(rng, 4.0, 256.0)
            cfl = 1.0 if rng.random() < 0.5 else _loguniform(rng, 0.05, 1.0)
    return nu, dx, cfl


def _mp_field(rng, shape, kind, real_t):
    if kind == "flat":
        c = float(rng.choice([1.0, -3.3, 1e3, 0.1]))
        a = c * (1.0 + util.eps(real_t) * rng.integers(-3, 4, size=shape))
        return np.ascontiguousarray(a.astype(real_t))
    if kind == "const":
        return np.full(shape, real_t(rng.choice([1.0, -3.3, 0.1, 1e3 / 3])), real_t)
    return util.field(rng, shape, kind, real_t)


# ------------------------------------------------------------------------------------------------
# monitors
# ------------------------------------------------------------------------------------------------
def _check_dt(rec, get_dt, vel, d, dx, nu, cfl, real_t, rng, cls, meta):
    """get_dt(p) -> returned value of the real code"""
    eps = util.eps(real_t)
    sl = 1.0 + 8.0 * eps
    umax = float(np.max(np.sum(np.abs(vel.astype(np.float64)), axis=0)))
    lim_d = 0.9 / (2 * d)
    # independent float64 evaluation of the two documented limits (regime classification only)
    adv = cfl * dx / umax if umax > 0 else np.inf
    dif = lim_d * dx * dx / nu if nu > 0 else np.inf
    regime = "diffusion" if dif < adv else "advection"
    dec = int(np.floor(np.log10(nu / dx**2))) if nu > 0 else "inviscid"
    if nu == 0:
        rec.count("dt_queries_with_zero_viscosity")
        if umax == 0 and cfl * dx > 4:
            rec.count("dt_queries_inviscid_at_rest_on_coarse_grid")
    ps = [1.0, 0.5, float(rng.uniform(1e-3, 1.0)), 0.3]
    dts = {}
    for p in ps:
        try:
            dts[p] = get_dt(p)
        except Exception as e:
            rec.violation("compute_stable_timestep-raises", f"{type(e).__name__}: {e} {meta}", {"meta": meta, "vel": vel})
            rec.case(None)
            return
    rec.count("dt_calls", len(ps))
    rec.count(f"regime_{regime}_limited")
    if regime == "diffusion" and nu / dx**2 >= 1:
        rec.count("diffusion_limited_nu_by_dx2_ge_1")
    rec.count(f"velocity_{meta['velocity']}")
    nontrivial = umax > 0 or regime == "diffusion"
    rec.case((*cls, meta["velocity"], regime, dec) if nontrivial else None,
             sample={**meta, "regime": regime, "dt": float(dts[1.0]), "nu_by_dx2": nu / dx**2})
    w = {"meta": meta, "vel": vel}
    dt1 = float(dts[1.0])
    for p, dtp in dts.items():
        dtp = float(dtp)
        if not (np.isfinite(dtp) and dtp > 0):
            rec.violation("dt-not-finite-positive", f"dt={dtp} prefac={p} {meta}", w)
            return
        a = dtp * umax / dx / cfl
        rec.stat("cfl_excess_over_8eps", (a - 1.0) / (8 * eps))
        if a > sl:
            rec.violation("cfl-limit-exceeded", f"dt*max(sum|u|)/dx = {a:.9g} * CFL (CFL={cfl}, dt={dtp}, prefac={p}) {meta}", w)
        b = nu * dtp / dx**2 / lim_d
        rec.stat("diffusion_excess_over_8eps", (b - 1.0) / (8 * eps))
        if b > sl:
            rec.violation("diffusion-limit-exceeded", f"nu*dt/dx^2 = {nu * dtp / dx**2:.9g} > 0.9/(2*{d}) = {lim_d:.6g} (excess {(b - 1) / eps:.3g} eps, prefac={p}, regime {regime}) {meta}", w)
        if p != 1.0:
            r = abs(dtp - p * dt1) / (8 * eps * p * dt1)
            rec.stat("prefactor_linearity", r)
            if r > 1:
                rec.violation("dt-not-linear-in-prefactor", f"dt({p})={dtp} != {p}*dt(1)={p * dt1} {meta}", w)


def _check_maxprinciple(rec, old, new, eps, mech_prefix, msg, witness):
    """old/new: scalar fields (any dim); returns interior cells checked"""
    d = old.ndim
    o = old.astype(np.float64)
    nw = new.astype(np.float64)
    I = ops.interior(d)
    lo = o[I].copy()
    hi = o[I].copy()
    for ax in range(d):
        for k in (-1, 1):
            s = ops.shift(o, ax, k, 1)
            lo = np.minimum(lo, s)
            hi = np.maximum(hi, s)
    fmax = util.maxabs(o)
    slack = 8.0 * eps * fmax + 1e-300
    if not np.all(np.isfinite(nw)):
        rec.violation(mech_prefix + "-not-finite", msg, witness)
        return 0
    exc = np.maximum(nw[I] - hi, lo - nw[I])
    r = float(np.max(exc) / slack) if exc.size else 0.0
    rec.stat("maxprinciple_excess_over_slack", r)
    if r > 1:
        bad = np.unravel_index(int(np.argmax(exc)), exc.shape)
        rec.violation("diffusion-new-extremum", f"{msg}: interior cell {tuple(int(b) + 1 for b in bad)} new={nw[I][bad]!r} outside [{lo[bad]!r}, {hi[bad]!r}] by {r:.3g} x slack", witness)
    ring = np.ones(o.shape, bool)
    ring[I] = False
    same = nw[ring] == o[ring]
    rec.count("ring_cells_compared", int(ring.sum()))
    if not np.all(same):
        rec.violation("diffusion-ring-changed", f"{msg}: {int((~same).sum())} of {int(ring.sum())} boundary-ring cells changed", witness)
    return int(exc.size)


# ------------------------------------------------------------------------------------------------
# shards
# ------------------------------------------------------------------------------------------------
def _run_sim(sh, rec):
    tier, seed, kind = sh["tier"], sh["seed"], sh["kind"]
    real_t = util.DT[sh["dtype"]]
    eps = util.eps(real_t)
    rng = util.rng_for(seed, ID, "sim", kind, sh["dtype"], sh["idx"])
    d = 2 if kind.endswith("2d") else 3
    nobj = (10 if d == 2 else 8) if tier == "quick" else (16 if d == 2 else 12)
    prev = None
    ncall = [0]

    def call_dt(sim_, p):
        """the three documented call styles: keyword, positional, default argument"""
        ncall[0] += 1
        if p == 1.0 and ncall[0] % 2:
            rec.count("dt_calls_default_argument")
            return sim_.compute_stable_timestep()
        if ncall[0] % 3 == 0:
            rec.count("dt_calls_positional")
            return sim_.compute_stable_timestep(p)
        rec.count("dt_calls_keyword")
        return sim_.compute_stable_timestep(dt_prefac=p)

    for k in range(nobj):
        shape = util.shape2d(rng, 6, 28) if d == 2 else util.shape3d(rng, 6, 14)
        sibling = k % 3 == 2 and prev is not None
        if sibling:
            # sibling object: SAME grid shape and precision as the previous simulator of this process, other dx / nu / CFL
            shape = prev[1]["shape"]
            rec.count("sims_sibling_same_shape_other_parameters")
        if shape[0] > shape[-1]:
            rec.count("sims_first_axis_longer_than_x")
        nu, dx_t, cfl = _draw_params(rng, d, real_t)
        if kind.startswith("passive") and k % 4 == 1:
            dx_t = float(rng.uniform(1.3, 4.0))  # dx > 1: a step that scales like nu dt/dx instead of nu dt/dx^2 overshoots
        xr = dx_t * shape[-1]
        cfg = {"kind": "passive" if kind.startswith("passive") else kind, "shape": shape, "x_range": xr, "nu": nu, "cfl": cfl,
               "dtype": sh["dtype"], "threads": (2, 3, 4, 1)[k % 4]}
        if kind == "passive3d":
            cfg["field_type"] = "vector" if k % 2 else "scalar"
        sim = sims.build(cfg)
        rec.count(f"classes_{kind}")
        dx = float(sim.dx)
        meta0 = {"class": type(sim).__name__, "dim": d, "dtype": sh["dtype"], "shape": shape, "x_range": xr, "dx": dx, "nu": nu, "cfl": cfl}
        for vk in VEL_KINDS:
            vel = _velocity(rng, vk, d, shape, real_t)
            sim.velocity_field[...] = vel
            meta = {**meta0, "velocity": vk}
            _check_dt(rec, lambda p: call_dt(sim, p), sim.velocity_field, d, dx, nu, cfl, real_t, rng, (kind, d, sh["dtype"]), meta)
        # live attributes on ONE object: viscosity raised / lowered, CFL changed, velocity changed between queries; every
        # returned dt must satisfy both limits for the CURRENT attribute values (time_step reads the live attributes), and
        # (passive simulators) a diffusion step with the dt recommended for zero velocity must keep the maximum principle
        nu_cur, cfl_cur = nu, cfl
        lim = 0.9 / (2 * d)
        for hs in range(6 if tier == "quick" else 10):
            what = ("nu-up", "velocity", "nu-down", "cfl", "nu-up+zero", "cfl+nu-down")[hs % 6]
            if "nu-up" in what:
                nu_cur = min(nu_cur * _loguniform(rng, 10.0, 1e4), 1e3)
                sim.kinematic_viscosity = nu_cur
            if "nu-down" in what:
                nu_cur = max(nu_cur / _loguniform(rng, 10.0, 1e4), 1e-9)
                sim.kinematic_viscosity = nu_cur
            if "cfl" in what:
                cfl_cur = 1.0 if rng.random() < 0.2 else _loguniform(rng, 1e-3, 1.0)
                sim.cfl = cfl_cur
            if what == "velocity" or "zero" in what:
                vk = "zero" if "zero" in what else VEL_KINDS[int(rng.integers(len(VEL_KINDS)))]
                newv = _velocity(rng, vk, d, shape, real_t)
                if hs % 2 == 1 and kind.startswith("passive"):
                    # the public attribute is REPLACED by another array (e.g. a velocity array shared with another simulator) instead of
                    # being filled in place: time_step reads the attribute at call time, so must the recommended dt
                    sim.velocity_field = np.ascontiguousarray(newv)
                    rec.count("live_velocity_attribute_rebound")
                else:
                    sim.velocity_field[...] = newv
            else:
                vk = "unchanged"
            rec.count("live_attribute_changes")
            meta = {**meta0, "nu": nu_cur, "cfl": cfl_cur, "velocity": vk, "changed": what, "history_step": hs, "object": "same-object-history"}
            _check_dt(rec, lambda p: call_dt(sim, p), sim.velocity_field, d, dx, nu_cur, cfl_cur, real_t, rng, (kind, d, sh["dtype"], "live", what), meta)
            is_ns = not kind.startswith("passive")
            mrg = 5  # Navier-Stokes simulators damp the vorticity in a boundary zone (width 2): the probe field vanishes within 5 cells of it
            if is_ns and min(shape) < 2 * mrg + 1:
                continue
            sim.velocity_field[...] = 0
            try:
                dt = float(call_dt(sim, 1.0))
            except Exception as e:
                rec.violation("compute_stable_timestep-raises", f"{type(e).__name__}: {e} {meta}", {"meta": meta})
                continue
            alpha = nu_cur * dt / dx**2
            if not (np.isfinite(dt) and dt > 0):
                rec.violation("dt-not-finite-positive", f"dt={dt} {meta}", {"meta": meta})
                continue
            if alpha > lim * (1 + 8 * eps):
                rec.violation("diffusion-limit-exceeded", f"nu*dt/dx^2 = {alpha:.9g} > 0.9/(2*{d}) = {lim:.6g} with zero velocity after changing {what} on the same object {meta}", {"meta": meta})
                dt = lim * dx**2 / nu_cur * (1 - 4 * eps)
                alpha = nu_cur * dt / dx**2
            fk = FIELD_KINDS[hs % 4]
            prim = sims.primary(sim)
            if is_ns:
                # fluid at rest, vorticity spikes deep in the interior: advection / stretching contribute exactly nothing, so the step
                # the simulator takes with ITS OWN recommended dt is the explicit diffusion step (boundary damping only sees zeros)
                fk = "interior-spikes"
                f0 = np.zeros(prim.shape, real_t)
                I = (Ellipsis,) + tuple(slice(mrg, n - mrg) for n in shape)
                core = f0[I]
                hit = rng.random(core.shape) < 0.15
                core[hit] = (rng.choice([1.0, -1.0, 0.5, 3.0], size=int(hit.sum())) * float(10 ** rng.uniform(-2, 2))).astype(real_t)
                f0[I] = core
                rec.count("maxprinciple_navier_stokes_steps_after_attribute_change")
            else:
                f0 = _mp_field(rng, prim.shape, fk, real_t)
            prim[...] = f0
            sims.poison(rng, {"b": sim.buffer_scalar_field})
            try:
                sim.time_step(dt)
            except Exception as e:
                rec.violation("time_step-raises", f"{type(e).__name__}: {e} {meta}", {"meta": meta, "f": f0})
                continue
            new = sims.primary(sim)
            comps = [(f0, new)] if new.ndim == d else [(f0[c], new[c]) for c in range(d)]
            ncell = 0
            for o, nwf in comps:
                ncell += _check_maxprinciple(rec, o, nwf, eps, "simulator-diffusion", f"{kind} simulator step alpha={alpha:.6g} field={fk} after changing {what} {meta}", {"meta": meta, "f": f0, "dt": dt})
            rec.count("maxprinciple_simulator_steps_after_attribute_change")
            rec.count("maxprinciple_cells", ncell)
            if alpha >= 0.99 * lim:
                rec.count("maxprinciple_at_limit")
            rec.case(("simulator-live", d, cfg.get("field_type", "scalar"), sh["dtype"], fk, what))
        nu, cfl = nu_cur, cfl_cur
        meta0 = {**meta0, "nu": nu, "cfl": cfl}
        if sibling:
            # ... and the FIRST object again after its sibling was built and used
            psim, pmeta, pdx, pnu, pcfl = prev
            psim.velocity_field[...] = _velocity(rng, "noise", d, pmeta["shape"], real_t)
            _check_dt(rec, lambda p: call_dt(psim, p), psim.velocity_field, d, pdx, pnu, pcfl, real_t, rng, (kind, d, sh["dtype"], "after-sibling"),
                      {**pmeta, "velocity": "noise", "object": "first-after-sibling"})
            rec.count("sims_rechecked_after_sibling")
        prev = (sim, meta0, dx, nu, cfl)
        # maximum principle through the simulator: zero velocity, dt as recommended by the simulator
        lim = 0.9 / (2 * d)
        for fk in (FIELD_KINDS if kind.startswith("passive") else ()):
            sim.velocity_field[...] = 0
            p = 1.0 if rng.random() < 0.6 else float(rng.uniform(0.05, 1.0))
            dt = float(sim.compute_stable_timestep(dt_prefac=p))
            alpha = nu * dt / dx**2
            meta = {**meta0, "velocity": "zero", "field": fk, "prefac": p, "path": "simulator", "field_type": cfg.get("field_type", "scalar")}
            if not (np.isfinite(dt) and dt > 0):
                rec.violation("dt-not-finite-positive", f"dt={dt} {meta}", {"meta": meta})
                continue
            if alpha > lim * (1 + 8 * eps):
                # premise of the maximum principle fails; that IS the limit violation (same mechanism as part A)
                rec.violation("diffusion-limit-exceeded", f"nu*dt/dx^2 = {alpha:.9g} > 0.9/(2*{d}) = {lim:.6g} with zero velocity {meta}", {"meta": meta})
                rec.count("simulator_dt_clamped_to_limit")
                dt = lim * dx**2 / nu * (1 - 4 * eps)
                alpha = nu * dt / dx**2
            f0 = _mp_field(rng, sim.primary_field.shape, fk, real_t)
            sim.primary_field[...] = f0
            sims.poison(rng, {"b": sim.buffer_scalar_field})
            try:
                sim.time_step(dt)
            except Exception as e:
                rec.violation("time_step-raises", f"{type(e).__name__}: {e} {meta}", {"meta": meta, "f": f0})
                continue
            new = sim.primary_field
            comps = [(f0, new)] if new.ndim == d else [(f0[c], new[c]) for c in range(d)]
            ncell = 0
            for o, nwf in comps:
                ncell += _check_maxprinciple(rec, o, nwf, eps, "simulator-diffusion", f"passive simulator step alpha={alpha:.6g} field={fk} {meta}", {"meta": meta, "f": f0, "dt": dt})
            rec.count("maxprinciple_simulator_steps")
            rec.count("maxprinciple_cells", ncell)
            if alpha >= 0.99 * lim:
                rec.count("maxprinciple_at_limit")
            rec.case(("simulator", d, meta["field_type"], sh["dtype"], fk, "limit" if alpha >= 0.99 * lim else "below") if fk != "const" else None)


def _other(real_t):
    return np.float32 if np.dtype(real_t) == np.float64 else np.float64


def _run_fn(sh, rec):
    from sopht.simulator.flow.passive_transport_flow_simulators import compute_advection_diffusion_stable_timestep as fn

    tier, seed = sh["tier"], sh["seed"]
    real_t = util.DT[sh["dtype"]]
    rng = util.rng_for(seed, ID, "fn", sh["idx"])
    n = 300 if tier == "quick" else 1200
    # predecessor of the OTHER precision: the same function called once with real_t = other precision (arrays, spacing of that type) and
    # otherwise the argument values of the first real call pattern, before anything of this shard runs
    other_t = _other(real_t)
    try:
        vo = (rng.standard_normal((2, 6, 7)) * 3).astype(other_t)
        dto = fn(velocity_field=vo, velocity_magnitude_field=np.zeros((6, 7), other_t), grid_dim=2, dx=other_t(0.125), cfl=0.5, kinematic_viscosity=0.01, real_t=other_t)
        if not (np.isfinite(dto) and dto > 0):
            raise ValueError(f"dt = {dto}")
        rec.count("other_precision_predecessors")
    except Exception as e:
        rec.note(f"other-precision predecessor failed: {type(e).__name__}: {e}")
    for it in range(n):
        d = int(rng.integers(2, 4))
        shape = util.shape2d(rng, 3, 20, False) if d == 2 else util.shape3d(rng, 3, 10, False)
        nu, dx_t, cfl = _draw_params(rng, d, real_t)
        dx = real_t(dx_t)
        vk = VEL_KINDS[int(rng.integers(len(VEL_KINDS)))]
        if it % 100 == 11:
            # forced conjunction: inviscid, fluid at rest, coarse grid in large units (see _draw_params)
            nu, dx_t, cfl, vk = 0.0, _loguniform(rng, 8.0, 256.0), 1.0, "zero"
            dx = real_t(dx_t)
        if it % 40 == 7:
            # production-size grid (> 65536 cells) whose slowest axis is an odd / prime-ish length: reductions done slab by slab or
            # block by block only have a remainder to drop on grids like this; the fastest cells are the last (or first) in memory
            shape = (int(rng.integers(257, 340)), 256) if d == 2 else (int(rng.integers(41, 54)), 40, 41)
            vk = ("spike_last", "spike_last", "noise")[int(rng.integers(3))]
            rec.count("fn_calls_on_grids_above_65536_cells")
        vel = _velocity(rng, vk, d, shape, real_t)
        buf = util.sentinel_like(rng, shape, real_t)
        meta = {"class": "function", "dim": d, "dtype": sh["dtype"], "shape": shape, "dx": float(dx), "nu": nu, "cfl": cfl, "velocity": vk}

        # mixed argument types: dx as python float instead of real_t; a float64 velocity array (same values) handed to the
        # real_t = float32 function (the magnitude buffer stays real_t, as in the simulators)
        mode = it % 4
        dx_arg = float(dx) if mode in (1, 3) else dx
        vel_arg = vel.astype(np.float64) if (mode in (2, 3) and real_t is np.float32) else vel
        if dx_arg is not dx:
            rec.count("fn_calls_dx_python_float")
        if vel_arg is not vel:
            rec.count("fn_calls_float64_velocity_float32_real_t")
        if it % 3 == 2:
            # array layout: velocity and magnitude buffer are NON-contiguous views holding the same values (halo interior of a padded
            # allocation / every second cell / column-major); the returned dt must not depend on the strides
            vel_arg = util.noncontiguous_copy(rng, vel_arg)
            buf = util.noncontiguous_copy(rng, buf)
            rec.count("fn_calls_with_noncontiguous_array_arguments")
        v0 = vel_arg.copy()

        def get(p, vel=vel_arg, buf=buf, d=d, dx=dx_arg, cfl=cfl, nu=nu):
            return fn(velocity_field=vel, velocity_magnitude_field=buf, grid_dim=d, dx=dx, cfl=cfl, kinematic_viscosity=nu, real_t=real_t) * p

        _check_dt(rec, get, vel_arg, d, float(dx), nu, cfl, real_t, rng, ("function", d, sh["dtype"]), meta)
        rec.check(util.bits_equal(vel_arg, v0), "velocity-modified", f"the time-step function modified the velocity field {meta}", {"meta": meta})
        if it % 25 == 7:
            # history of TEMPORARY views: K velocity snapshots of one grid live in one owning array (and K magnitude buffers in another);
            # K calls in a tight loop with velocity_field = V[k], velocity_magnitude_field = B[k] (fresh view objects of different memory
            # whose id() CPython recycles); every returned dt is judged afterwards against ITS snapshot
            K = 4
            kinds = [VEL_KINDS[int(i)] for i in rng.choice(len(VEL_KINDS), size=K, replace=False)]
            V = np.stack([_velocity(rng, k_, d, shape, real_t) for k_ in kinds])
            B = util.sentinel_like(rng, (K, *shape), real_t).copy()
            try:
                dts = [fn(velocity_field=V[k], velocity_magnitude_field=B[k], grid_dim=d, dx=dx_arg, cfl=cfl, kinematic_viscosity=nu, real_t=real_t) for k in range(K)]
            except Exception as e:
                rec.violation("compute_stable_timestep-raises", f"history of temporary views: {type(e).__name__}: {e} {meta}", {"meta": meta})
                continue
            for k in range(K):
                def get_k(p, k=k, d=d, dx=dx_arg, cfl=cfl, nu=nu):
                    if p == 1.0:
                        return dts[k]  # the value returned inside the tight loop
                    return fn(velocity_field=V[k], velocity_magnitude_field=B[k], grid_dim=d, dx=dx, cfl=cfl, kinematic_viscosity=nu, real_t=real_t) * p

                rec.count("fn_calls_with_temporary_view_arguments")
                _check_dt(rec, get_k, V[k], d, float(dx), nu, cfl, real_t, rng, ("function", d, sh["dtype"], "temporary-view-history"),
                          {**meta, "velocity": kinds[k], "history_call": f"{k + 1} of {K} with temporary views of different memory"})


def _run_mp(sh, rec):
    import sopht.numeric.eulerian_grid_ops as spne

    tier, seed, d = sh["tier"], sh["seed"], sh["dim"]
    real_t = util.DT[sh["dtype"]]
    eps = util.eps(real_t)
    rng = util.rng_for(seed, ID, "mp", d, sh["dtype"], sh["idx"])
    lim = 0.9 / (2 * d)
    # predecessors of the OTHER precision: the same generators with otherwise identical options, each result called once, before the
    # kernels under observation are generated
    other_t = _other(real_t)
    try:
        so = (5, 7) if d == 2 else (4, 5, 6)
        if d == 2:
            ko = spne.gen_diffusion_timestep_euler_forward_pyst_kernel_2d(real_t=other_t, num_threads=2)
            ko(field=rng.standard_normal(so).astype(other_t), diffusion_flux=np.zeros(so, other_t), nu_dt_by_dx2=other_t(0.125))
            rec.count("other_precision_predecessors")
        else:
            for ft in ("scalar", "vector"):
                ko = spne.gen_diffusion_timestep_euler_forward_pyst_kernel_3d(real_t=other_t, num_threads=2, field_type=ft)
                if ft == "scalar":
                    ko(field=rng.standard_normal(so).astype(other_t), diffusion_flux=np.zeros(so, other_t), nu_dt_by_dx2=other_t(0.125))
                else:
                    ko(vector_field=rng.standard_normal((3, *so)).astype(other_t), diffusion_flux=np.zeros(so, other_t), nu_dt_by_dx2=other_t(0.125))
                rec.count("other_precision_predecessors")
    except Exception as e:
        rec.note(f"other-precision predecessor failed: {type(e).__name__}: {e}")
    if d == 2:
        kernels = {"scalar": spne.gen_diffusion_timestep_euler_forward_pyst_kernel_2d(real_t=real_t, num_threads=2)}
    else:
        kernels = {ft: spne.gen_diffusion_timestep_euler_forward_pyst_kernel_3d(real_t=real_t, num_threads=2, field_type=ft) for ft in ("scalar", "vector")}
    nshape = 4 if tier == "quick" else 10
    nmp = [0]

    def alpha_of(ak):
        if ak == "limit":
            alpha = real_t(lim)
            if float(alpha) > lim:  # keep the premise: largest representable value <= 0.9/(2d)
                alpha = np.nextafter(alpha, real_t(0))
        elif ak == "below":
            alpha = real_t(lim * rng.uniform(0.05, 1.0))
        elif ak == "tiny":
            alpha = real_t(lim * 10.0 ** rng.uniform(-8, -3))
        else:
            # EXACTLY zero (inviscid run / dt = 0): the convex averaging has weight 1 on the cell itself, the step must return the field
            # as it was, whatever the scratch flux buffer holds
            alpha = real_t(0.0)
        return alpha

    def judge(variant, kern_shape, fk, ak, alpha, f0, f, meta):
        comps = [(f0, f)] if variant == "scalar" else [(f0[c], f[c]) for c in range(d)]
        ncell = 0
        for o, nw in comps:
            ncell += _check_maxprinciple(rec, o, nw, eps, "diffusion-timestep", f"diffusion kernel {meta}", {"meta": meta, "f": f0})
        rec.count("maxprinciple_kernel_steps")
        rec.count("maxprinciple_cells", ncell)
        if ak == "limit":
            rec.count("maxprinciple_at_limit")
        if ak == "zero":
            rec.count("kernel_steps_with_exactly_zero_step_size")
            same = np.asarray(f, np.float64) == np.asarray(f0, np.float64)  # by value: -0.0 == +0.0
            if not np.all(same):
                rec.violation("diffusion-zero-step-changes-field", f"nu_dt_by_dx2 = 0: {int((~same).sum())} of {same.size} cells changed {meta}", {"meta": meta, "f": f0, "after": np.array(f)})
        changed = not util.bits_equal(f, f0)
        rec.count("kernel_steps_that_changed_the_field", int(changed))
        return ncell

    for variant, kern in kernels.items():
        for k in range(nshape):
            shape = util.shape2d(rng, 3, 40) if d == 2 else util.shape3d(rng, 3, 18)
            if k == 0:
                shape = (3,) * (d - 1) + (int(rng.integers(4, 12)),)
            # ONE scratch flux array OBJECT per shape, refilled with garbage (ring included) before every call: the 2nd, 3rd, ...
            # call on the same array object must reset its ghost ring just like the first.  A second persistent scratch object of the
            # same shape is a NON-contiguous view; it serves the calls whose field is a non-contiguous view, too.
            flux_c = np.empty(shape, real_t)
            flux_v = util.noncontiguous_copy(rng, flux_c)
            ncalls_on = {id(flux_c): 0, id(flux_v): 0}
            ncall_shape = 0
            full = shape if variant == "scalar" else (d, *shape)
            for fk in FIELD_KINDS:
                for ak in ("limit", "below", "tiny", "zero"):
                    alpha = alpha_of(ak)
                    f0 = _mp_field(rng, full, fk, real_t)
                    ncall_shape += 1
                    if ncall_shape % 3 == 2:
                        # array layout: field and scratch buffer are non-contiguous views of the same values
                        f = util.noncontiguous_copy(rng, f0)
                        flux = flux_v
                        rec.count("maxprinciple_kernel_steps_on_noncontiguous_views")
                    else:
                        f = f0.copy()
                        flux = flux_c
                    if ak == "zero":
                        flux[...] = util.sentinel_like(rng, shape, real_t)  # NaNs with distinct payloads
                    else:
                        flux[...] = (1e3 * rng.standard_normal(shape)).astype(real_t)
                    ncalls_on[id(flux)] += 1
                    if ncalls_on[id(flux)] >= 2:
                        rec.count("maxprinciple_kernel_steps_on_reused_scratch_object")
                    meta = {"path": "kernel", "dim": d, "variant": variant, "dtype": sh["dtype"], "shape": shape, "field": fk, "alpha": float(alpha), "noncontiguous_views": flux is flux_v}
                    nmp[0] += 1
                    a_arg = float(alpha) if nmp[0] % 2 else alpha  # same value as python float / as real_t
                    rec.count("maxprinciple_alpha_python_float" if nmp[0] % 2 else "maxprinciple_alpha_real_t")
                    if shape[0] > shape[-1]:
                        rec.count("maxprinciple_steps_first_axis_longer_than_x")
                    try:
                        if variant == "scalar":
                            kern(field=f, diffusion_flux=flux, nu_dt_by_dx2=a_arg)
                        else:
                            kern(vector_field=f, diffusion_flux=flux, nu_dt_by_dx2=a_arg)
                    except Exception as e:
                        rec.violation("diffusion-timestep-raises", f"{type(e).__name__}: {e} {meta}", {"meta": meta, "f": f0})
                        rec.case(None)
                        continue
                    ncell = judge(variant, shape, fk, ak, alpha, f0, np.ascontiguousarray(f), meta)
                    rec.case(("kernel", d, variant, sh["dtype"], fk, ak) if fk != "const" else None, sample={**meta, "cells": ncell})
            # history of TEMPORARY views on this kernel object: K snapshots of the field live in one owning array, K scratch buffers in
            # another; K calls in a tight loop with field = F[k], diffusion_flux = S[k] (fresh view objects of different memory whose id()
            # CPython recycles), each with its own step size (limit, below, zero, tiny); judged afterwards
            K = 4
            hk = [("spikes", "limit"), ("noise", "below"), ("checker", "zero"), ("noise", "tiny")]
            F0 = np.stack([_mp_field(rng, full, fk, real_t) for fk, _ in hk])
            F = F0.copy()
            S = np.stack([(1e3 * rng.standard_normal(shape)).astype(real_t) for _ in range(K)])
            alphas = [alpha_of(ak) for _, ak in hk]
            meta = {"path": "kernel", "dim": d, "variant": variant, "dtype": sh["dtype"], "shape": shape, "history": "temporary views of different memory"}
            try:
                if variant == "scalar":
                    for j in range(K):
                        kern(field=F[j], diffusion_flux=S[j], nu_dt_by_dx2=alphas[j])
                else:
                    for j in range(K):
                        kern(vector_field=F[j], diffusion_flux=S[j], nu_dt_by_dx2=alphas[j])
            except Exception as e:
                rec.violation("diffusion-timestep-raises", f"{type(e).__name__}: {e} {meta}", {"meta": meta})
                continue
            for j, (fk, ak) in enumerate(hk):
                rec.count("maxprinciple_kernel_steps_on_temporary_views")
                mj = {**meta, "field": fk, "alpha": float(alphas[j]), "history_call": f"{j + 1} of {K}"}
                judge(variant, shape, fk, ak, alphas[j], F0[j], F[j], mj)
                rec.case(("kernel", d, variant, sh["dtype"], fk, ak, "temporary-view-history"))


def run_shard(sh, rec):
    {"sim": _run_sim, "fn": _run_fn, "mp": _run_mp}[sh["part"]](sh, rec)
