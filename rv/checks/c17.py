"""C17 — IO round trip, on-disk layout contract and rejection of mismatching files (DESIGN §4 C17).

Oracles (all exact, no tolerances):
  * round trip: save from one IO object, load into a NEW IO object whose arrays are freshly allocated
    (NaN sentinels with distinct payloads, independently chosen memory layout); every field, every
    Lagrangian grid and the returned time stamp are compared through their raw bytes;
  * save leaves every source array (fields, grids, origin/dx/grid_size, all rod arrays) bitwise intact;
  * layout: the file is opened with h5py directly; dataset paths, shapes and *contents* are compared
    with the contract (Eulerian/Scalar/<n> (1,*grid); Eulerian/Vector/<n>_<i> (1,*grid);
    Lagrangian/<g>/Grid (N,dim); Lagrangian/<g>/Vector/<n> (N,dim) marker-major whatever N;
    Lagrangian/<g>/Scalar/<n> (N,); attrs time / origin / dx / grid_size);
  * rejection: load must raise for every materially mismatching variant (a registered dataset deleted
    from the file, an extra registered field/grid, a renamed grid, origin or dx off by >= 1e-3
    relative, grid size changed incl. broadcast-compatible 1 -> n changes).  Sub-tolerance
    perturbations are never generated (np.allclose in the loader is deliberate).

Known genuine defects on the pinned tree (DESIGN §5), reported under fixed mechanism keys:
  F3  "lagrangian-vector-N==dim-stored-as-scalar"
  F4  "grid-without-fields-not-restored", "missing-grid-without-fields-accepted"
  F7  "same-field-name-on-two-grids-collides" (found by this check, OPEN): the same Lagrangian field name
      registered on two grids collides in IO.lagrangian_fields (dict keyed by field name only): the first
      grid's field is never written (the second one's data is stored under the first grid) and never
      restored.  Two forced sub-cases per IO shard (same N/type = silent, different N/type) plus ~3 % of
      the random multi-grid plans share a name; every violation on an array carrying a shared name (and
      any exception in such a plan) is reported under this key only, no rejection variants are run for
      such plans, and all other plans keep Lagrangian field names unique across grids.

Self-test (tools/mut.sh <patch> C17, quick tier, seed 0).  "fixed" = /verif/fixes/F3.diff + F4.diff +
F7-proposed-on-F3F4.diff (the latter keys IO.lagrangian_fields by (grid, field)); every mutation below is
one patch on top of that fixed tree (made from a copy of sopht/utils/io.py, never /repo itself).

  tree / mutation                                              verdict    mechanisms reported
  -----------------------------------------------------------  ---------  ------------------------------------
  pinned tree, seeds 0..5 quick, seed 0 thorough                VIOLATION  only F3 key, the two F4 keys, F7 key
  F3.diff only                                                 VIOLATION  F4 keys + F7 key (no F3 key)
  F4.diff only                                                 VIOLATION  F3 key + F7 key (no F4 key)
  F3+F4, seeds 0..5 quick, 0..1 thorough                       VIOLATION  F7 key only
  fixed (F3+F4+F7 proposed), seeds 0..5 quick, 0..1 thorough   HELD       -
  S01 loader uses array_equal instead of allclose (stricter)   HELD       - (sanity: no sub-tolerance demands)
  M01 save: moveaxis dropped for Lagrangian vectors            VIOLATION  lagrangian-vector-dataset-shape/-content, load-raises, lagrangian-vector-not-restored
  M02 load: Eulerian vector component index swapped            VIOLATION  eulerian-vector-not-restored
  M03 time attribute not saved (0.0 written)                   VIOLATION  attr-time-wrong, time-not-restored
  M04 time not loaded (returns 0.0)                            VIOLATION  time-not-restored
  M05 time saved as float32                                    VIOLATION  attr-time-wrong, time-not-restored
  M06 load: grid transpose dropped                             VIOLATION  load-raises, lagrangian-grid-not-restored (N == dim)
  M07 grid transpose dropped in save AND load                  VIOLATION  lagrangian-grid-dataset-shape/-content (layout monitor only)
  M08 allclose check on dx removed                             VIOLATION  accepted-dx-mismatch
  M09 allclose check on origin removed                         VIOLATION  accepted-origin-mismatch
  M10 allclose check on grid_size removed                      VIOLATION  accepted-grid-size-mismatch (unit axis -> n broadcasts)
  M11 missing Eulerian scalar silently skipped                 VIOLATION  accepted-file-without-eulerian-scalar-dataset, accepted-extra-registered-eulerian-field
  M12 missing Eulerian vector component silently skipped       VIOLATION  accepted-file-without-eulerian-vector-component-dataset, accepted-extra-registered-eulerian-field
  M13 missing Lagrangian vector silently skipped               VIOLATION  accepted-file-without-lagrangian-vector-dataset, accepted-extra-registered-lagrangian-field
  M14 missing grid silently skipped                            VIOLATION  accepted-renamed-grid, accepted-extra-registered-grid, accepted-file-without-lagrangian-grid-dataset (+F4 accept key)
  M15 save: Eulerian scalar .astype(float32)                   VIOLATION  eulerian-scalar-dataset-content, eulerian-scalar-not-restored
  M16 save: Lagrangian scalar .astype(float32)                 VIOLATION  lagrangian-scalar-dataset-content, lagrangian-scalar-not-restored
  M17 save reverses the Eulerian source array in place         VIOLATION  save-modified-source
  M18 save transposes square (N == dim) vector in place        VIOLATION  save-modified-source
  M19 save: leading singleton axis dropped (Eulerian scalar)   VIOLATION  eulerian-scalar-dataset-shape, eulerian-scalar-not-restored
  M20 leading axis dropped for vector comps in save AND load   VIOLATION  eulerian-vector-component-dataset-shape (layout monitor only)
  M21 Lagrangian vector moveaxis dropped in save AND load      VIOLATION  lagrangian-vector-dataset-shape, -content (N == dim)
  M22 Eulerian vector comps stored reversed, save AND load     VIOLATION  eulerian-vector-component-dataset-content
  M23 Lagrangian scalar not loaded                             VIOLATION  lagrangian-scalar-not-restored
  M24 CosseratRodIO.save does not refresh element positions    VIOLATION  rod-grid!=element-midpoints
  M25 load rebinds the Eulerian scalar instead of writing it   VIOLATION  eulerian-scalar-not-restored
  M26 F3 re-introduced on the fixed tree                       VIOLATION  lagrangian-vector-N==dim-stored-as-scalar
  M27 F4 re-introduced on the fixed tree                       VIOLATION  grid-without-fields-not-restored, missing-grid-without-fields-accepted
  M28 origin attribute written as zeros                        VIOLATION  attr-origin-wrong, load-raises

Things seen in SophT that are outside the property and therefore NOT asserted: a file name without the
substring ".h5" is overwritten by the XDMF text (str.replace(".h5", ...) returns the same name); with an
Eulerian grid defined but no Eulerian field registered, load does not compare origin/dx/grid_size;
registering the same grid name twice resets that grid's field list.
"""
import os
import shutil

import numpy as np

from .. import util

NO_INTERFERENCE = True  # loading -Ofast kernels would switch the process to flush-to-zero: denormal contents must survive
ID = "C17"
LEVEL = "exploration"
TITLE = "Saved fields reload bit-exactly and mismatching files are rejected"
RULE = (
    "random registrations: classes IO / CosseratRodIO / EulerianFieldIO, 2-D/3-D, both precisions, 0-6 Eulerian "
    "scalar/vector fields on grids with axes 1..40 (incl. unit axes), 0-4 Lagrangian grids with N in {1,2,3,4,7,64} "
    "(N == dim over-weighted) and 0-4 scalar/vector fields each, names [A-Za-z0-9_]{1,12} incl. a/a_0/a_0_0 families "
    "and case-only differences, default grid names, contents noise / random bit patterns / NaN payloads (quiet and "
    "signalling) / +-inf / denormals / +-0, C/F/strided/offset/reversed views, time stamps incl. -0.0, denormal, huge; "
    "per case one save, h5py layout inspection, load into a fresh IO, optional second save after in-place changes, and "
    "up to 4 (quick) / 6 (thorough) rejection variants.  Forced in every IO shard: N == dim vector (F3), registrations "
    "with grids but no Lagrangian field (F4), unit-axis Eulerian grid.  Non-trivial = at least one array registered; "
    "distinct = (class, dim, dtype, #Eulerian bucket, #grid bucket, N==dim vector, grid-only, sub-check)."
)
ASSUMPTIONS = [
    "h5py/HDF5 read back natively typed datasets byte-for-byte (the layout monitor relies on it to read the file independently of SophT)",
    "NumPy same-dtype copies are byte copies (harness self-checks every placed view bitwise)",
    "rod element positions written by CosseratRodIO are the node mid-points 0.5*(x[i]+x[i+1]) evaluated in float64 (normal-range finite node positions only)",
    "the process is not in FTZ/DAZ mode (canary at shard start and end; no pystencils kernel is loaded)",
]
TECHNIQUE = "runtime monitoring: bitwise differential round trip through a second IO object, independent h5py inspection of the file, exception oracle for mismatching files"
REQUIRE = {
    "files_saved": {"quick": 250, "thorough": 8000},
    "arrays_roundtrip_bitwise": {"quick": 1500, "thorough": 40000},
    "eulerian_scalar_fields": 100,
    "eulerian_vector_fields": 100,
    "lagrangian_grids": 150,
    "lagrangian_scalar_fields": 80,
    "lagrangian_vector_fields": 80,
    "lagrangian_vector_fields_N==dim": 16,
    "lagrangian_vector_N==dim_content_checked_or_F3": 16,
    "grid_only_roundtrips": 8,
    "cases_with_two_or_more_unnamed_grids": 3,
    "grid_only_missing_grid_variants": 8,
    "reject_missing_dataset": 40,
    "reject_extra_field": 40,
    "reject_renamed_grid": 20,
    "reject_origin": 15,
    "reject_dx": 15,
    "reject_grid_size": 15,
    "reject_grid_size_broadcastable": 6,
    "arrays_with_nan_payload": 50,
    "arrays_with_inf": 50,
    "arrays_with_denormal": 50,
    "arrays_with_negzero": 50,
    "noncontiguous_source_views": 100,
    "noncontiguous_target_views": 100,
    "registered_arrays_of_the_other_precision": 50,
    "names_with_digit_suffix": 30,
    "time_nonzero": 200,
    "second_save_after_inplace_change": 20,
    "saves_over_an_existing_file": 20,
    "shared_name_cases": 16,
    "cases_IO": 100,
    "cases_CosseratRodIO": 30,
    "cases_EulerianFieldIO": 30,
    "denormal_canary_ok": 16,
}
SHARD_TIMEOUT = {"quick": 600, "thorough": 1500}

CLASSES = ("IO", "IO", "CosseratRodIO", "EulerianFieldIO")
N_POOL = (1, 2, 3, 4, 7, 64)
KINDS = ("noise", "bits", "nan", "inf", "denormal", "negzero", "mixed")
LAYOUTS = ("contig", "fortran", "strided", "offset", "reversed", "rows2")
ALPH = "abcdefghijklmnopqrstuvwxyzABCDEFGHIJKLMNOPQRSTUVWXYZ0123456789_"
F3_KEY = "lagrangian-vector-N==dim-stored-as-scalar"
F4_RESTORE = "grid-without-fields-not-restored"
F4_ACCEPT = "missing-grid-without-fields-accepted"
DUP_KEY = "same-field-name-on-two-grids-collides"


def shards(tier, seed):
    n = 16 if tier == "quick" else 48
    out = []
    for i in range(n):
        out.append(
            {
                "name": f"s{i}-{CLASSES[(i // 4) % 4]}-{2 + i % 2}d-{'f64' if (i // 2) % 2 == 0 else 'f32'}",
                "idx": i,
                "dim": 2 + i % 2,
                "dtype": "float64" if (i // 2) % 2 == 0 else "float32",
                "cls": CLASSES[(i // 4) % 4],
            }
        )
    return out


# --------------------------------------------------------------------------------------------------
# content, memory layouts, names
# --------------------------------------------------------------------------------------------------
def _fmt(real_t):
    if np.dtype(real_t) == np.float32:
        return np.uint32, 23, np.uint32(0x7F800000), np.uint32(0x80000000)
    return np.uint64, 52, np.uint64(0x7FF0000000000000), np.uint64(0x8000000000000000)


def _content(rng, shape, kind, real_t):
    """array of ``shape`` whose bit patterns are built through integer views (no float arithmetic on
    the special values, so nothing is quieted or flushed)"""
    real_t = np.dtype(real_t).type
    ut, mb, expmask, signbit = _fmt(real_t)
    n = int(np.prod(shape))
    sign = (rng.integers(0, 2, size=n).astype(ut)) << ut(8 * np.dtype(ut).itemsize - 1)
    mant = rng.integers(1, 2**mb, size=n, dtype=np.uint64).astype(ut)
    noise = (rng.standard_normal(n) * 10.0 ** rng.integers(-3, 4)).astype(real_t).view(ut)
    if kind == "noise":
        u = noise
    elif kind == "bits":
        u = rng.integers(0, 2 ** (8 * np.dtype(ut).itemsize), size=n, dtype=np.uint64).astype(ut) if ut is np.uint32 else rng.integers(0, 2**64, size=n, dtype=np.uint64)
    elif kind == "nan":
        u = sign | expmask | mant  # quiet and signalling, random payloads
    elif kind == "inf":
        u = np.where(rng.random(n) < 0.4, sign | expmask, noise)
    elif kind == "denormal":
        u = np.where(rng.random(n) < 0.7, sign | mant, noise)
    elif kind == "negzero":
        r = rng.random(n)
        u = np.where(r < 0.4, signbit, np.where(r < 0.7, ut(0), noise))
    elif kind == "mixed":
        r = rng.integers(0, 6, size=n)
        u = np.choose(r, [noise, sign | expmask | mant, sign | expmask, sign | mant, sign, noise])
    elif kind == "finite":  # normal-range finite values (rod node positions)
        u = (rng.uniform(-2.0, 2.0, size=n) + np.where(rng.random(n) < 0.5, 3.0, -3.0)).astype(real_t).view(ut)
    else:
        raise ValueError(kind)
    return np.ascontiguousarray(np.asarray(u, dtype=ut)).view(real_t).reshape(shape)


def _classify(a):
    """which special classes an array contains (for the monitor counters)"""
    ut, mb, expmask, signbit = _fmt(a.dtype)
    u = np.ascontiguousarray(a).view(ut).reshape(-1)
    mantmask = ut((1 << mb) - 1)
    isexp = (u & expmask) == expmask
    man = u & mantmask
    return {
        "nan_payload": bool(np.any(isexp & (man != 0))),
        "inf": bool(np.any(isexp & (man == 0))),
        "denormal": bool(np.any(((u & expmask) == 0) & (man != 0))),
        "negzero": bool(np.any(u == signbit)),
    }


def _place(rng, data, layout):
    """a view with the requested memory layout holding ``data`` bit for bit (the surrounding base
    array is filled with other sentinels)"""
    shape = data.shape
    dt = data.dtype
    if layout == "contig" or data.ndim == 0:
        v = np.array(data, order="C", copy=True)
    elif layout == "fortran":
        v = np.empty(shape, dtype=dt, order="F")
        v[...] = data
    elif layout == "strided":
        base = util.sentinel_like(rng, shape[:-1] + (2 * shape[-1] + 1,), dt)
        v = base[..., 1::2]
        v[...] = data
    elif layout == "offset":
        base = util.sentinel_like(rng, tuple(s + 2 for s in shape), dt)
        v = base[tuple(slice(1, -1) for _ in shape)]
        v[...] = data
    elif layout == "reversed":
        base = util.sentinel_like(rng, shape, dt)
        v = base[..., ::-1]
        v[...] = data
    elif layout == "rows2":
        base = util.sentinel_like(rng, (2 * shape[0],) + shape[1:], dt)
        v = base[::2]
        v[...] = data
    else:
        raise ValueError(layout)
    if v.shape != shape or not util.bits_equal(v, data):
        raise RuntimeError(f"harness: placing data in layout {layout} changed bits")
    return v


def _rand_name(rng):
    k = int(rng.integers(1, 13))
    return "".join(ALPH[int(i)] for i in rng.integers(0, len(ALPH), size=k))


def _names(rng, k, taken=()):
    """k distinct names from [A-Za-z0-9_]{1,12}: random, x_0 / x_1 / x_0_0 families, case twins"""
    out = []
    taken = set(taken) | {"self"}
    guard = 0
    while len(out) < k:
        guard += 1
        mode = int(rng.integers(0, 8)) if guard < 200 else 7
        if mode in (0, 1) and out:
            nm = out[int(rng.integers(len(out)))] + str(rng.choice(["_0", "_1", "_2", "_0_0", "_00"]))
        elif mode == 2:
            nm = str(rng.choice(["a", "u", "v_1", "x0", "_", "0", "Z"])) + str(rng.choice(["", "_0", "_0_0", "_1"]))
        elif mode == 3 and out:
            nm = out[int(rng.integers(len(out)))].swapcase()
        elif mode == 4:
            nm = _rand_name(rng)[:10] + "_0"
        else:
            nm = _rand_name(rng)
        if 1 <= len(nm) <= 12 and nm not in taken and nm not in out:
            out.append(nm)
    return out


def _has_suffix(nm):
    return len(nm) >= 2 and nm[-2] == "_" and nm[-1].isdigit()


def _loguni(rng, lo, hi):
    return float(np.exp(rng.uniform(np.log(lo), np.log(hi))))


def _gen_time(rng, real_t):
    r = int(rng.integers(0, 12))
    if r == 0:
        return ("py", 0.0)
    if r == 1:
        return ("py", -0.0)
    if r == 2:
        return ("py", 1e-310)
    if r == 3:
        return ("py", -3.7e300)
    if r in (4, 5, 6):
        return ("real", float(real_t(rng.standard_normal() * 10.0 ** rng.integers(-4, 5))))
    return ("py", float(rng.standard_normal() * 10.0 ** rng.integers(-4, 5)))


def _time_obj(t, real_t):
    return float(t[1]) if t[0] == "py" else real_t(t[1])


def _f64bits(x):
    return np.float64(x).tobytes()


# --------------------------------------------------------------------------------------------------
# plans
# --------------------------------------------------------------------------------------------------
def _gen_fields(rng, names, vec_first=False):
    out = []
    for i, nm in enumerate(names):
        typ = "V" if (vec_first and i == 0) else ("S" if (vec_first and i == 1) else str(rng.choice(["S", "V"])))
        out.append({"name": nm, "type": typ, "kind": str(rng.choice(KINDS)), "layout": str(rng.choice(LAYOUTS)),
                    # the registered array has the OTHER precision than the IO object (a float32 simulator checkpointed through a default
                    # float64 IO and vice versa): the registry must still reference the caller's array, datasets keep the array's dtype
                    "other_dtype": bool(rng.random() < 0.25)})
    return out


def _gen_eul(rng, cls, dim, real_t, nfields, unit_axis):
    big = rng.random() < 0.1
    hi = (40 if big else 12) if dim == 2 else (12 if big else 6)
    shape = [int(x) for x in rng.integers(1, hi + 1, size=dim)]
    if unit_axis or rng.random() < 0.2:
        shape[int(rng.integers(0, dim if cls != "EulerianFieldIO" else dim - 1))] = 1
    if cls == "EulerianFieldIO":
        shape[-1] = max(shape[-1], 2)  # dx is read from two neighbouring x nodes
        origin = [float(rng.uniform(0.1, 5.0) * rng.choice([-1, 1])) for _ in range(dim)]
        dx = [_loguni(rng, 0.05, 1.0)] * dim
    else:
        origin = [0.0 if rng.random() < 0.15 else _loguni(rng, 1e-2, 1e2) * float(rng.choice([-1, 1])) for _ in range(dim)]
        dx = [_loguni(rng, 1e-3, 10.0)] * dim if rng.random() < 0.6 else [_loguni(rng, 1e-3, 10.0) for _ in range(dim)]
    return {
        "shape": shape,
        "origin": origin,
        "dx": dx,
        "pdtype": "real" if rng.random() < 0.5 else "f64",
        "gs_dtype": str(rng.choice(["int64", "int32"])),
        "fields": _gen_fields(rng, _names(rng, nfields)),
    }


def _gen_plan(rng, cls, dim, dtype, force=None):
    real_t = util.DT[dtype]
    plan = {"cls": cls, "dim": dim, "dtype": dtype, "eul": None, "lag": [], "time": _gen_time(rng, real_t), "force": force}
    n_eul = int(rng.integers(0, 7))
    if cls == "EulerianFieldIO":
        if force != "empty":
            n_eul = max(n_eul, 1) if rng.random() < 0.9 else n_eul
        plan["eul"] = _gen_eul(rng, cls, dim, real_t, n_eul, force == "unit-axis")
        return plan
    if force == "unit-axis":
        n_eul = max(n_eul, 2)
    if n_eul > 0 or rng.random() < 0.4:
        plan["eul"] = _gen_eul(rng, cls, dim, real_t, n_eul, force == "unit-axis")
    n_grids = int(rng.integers(0, 5))
    dupf = force in ("dupnames-same", "dupnames-diff")
    if force == "N==dim" or dupf:
        n_grids = max(n_grids, 2 if dupf else 1)
    if force == "grid-only":
        n_grids = int(rng.integers(1, 4))
    if force == "unnamed":
        n_grids = int(rng.integers(2, 4))
    if force == "joinnames":
        n_grids = int(rng.integers(2, 4))
    if cls == "CosseratRodIO":
        n_grids = min(n_grids, 3)
        plan["n_elems"] = int(rng.choice([2, 3, 4, 7, 64, dim]))
    gnames = _names(rng, n_grids, taken=("rod", "nodes"))
    taken = {"scalar_3d"}
    for gi in range(n_grids):
        N = dim if (rng.random() < 0.3 or (force == "N==dim" and gi == 0)) else int(rng.choice(N_POOL))
        nf = 0 if force == "grid-only" else int(rng.integers(0, 5))
        vec_first = (force == "N==dim" or dupf) and gi == 0
        if vec_first:
            nf = max(nf, 2)
        if dupf and gi == 1:
            nf = max(nf, 1)
        if force == "joinnames" and gi < 2:
            nf = max(nf, 1)
        fn = _names(rng, nf, taken=taken)
        taken |= set(fn)
        g = {
            "name": None if (rng.random() < 0.15 or force == "unnamed") else gnames[gi],
            "N": N,
            "connect": bool(rng.random() < 0.3),
            "kind": str(rng.choice(KINDS)),
            "layout": str(rng.choice(LAYOUTS)),
            "fields": _gen_fields(rng, fn, vec_first=vec_first),
        }
        plan["lag"].append(g)
    plan["dupnames"] = []
    withf = [gi for gi, g in enumerate(plan["lag"]) if g["fields"]]
    if dupf or (force is None and len(withf) >= 2 and rng.random() < 0.06):
        ga, gb = (0, 1) if dupf else (withf[0], withf[-1])
        fa, fb = plan["lag"][ga]["fields"][0], plan["lag"][gb]["fields"][-1 if not dupf else 0]
        fb["name"] = fa["name"]
        plan["dupnames"] = [fa["name"]]
        same = force == "dupnames-same" or (force is None and rng.random() < 0.5)
        if same:  # same N and same type: the collision is silent (no shape clue on disk)
            plan["lag"][gb]["N"] = plan["lag"][ga]["N"]
            fb["type"] = fa["type"]
        elif dupf and plan["lag"][gb]["N"] == plan["lag"][ga]["N"]:
            plan["lag"][gb]["N"] = [n for n in N_POOL if n != plan["lag"][ga]["N"]][int(rng.integers(5))]
    if force == "joinnames" and len(plan["lag"]) >= 2:
        # names whose naive concatenations coincide: grid "<a>" with field "<b>_<c>" and grid "<a>_<b>" with field "<c>"
        # (also "<a>/<b>"-style joins with other separators would coincide for these): registries keyed by a joined string collide
        a_, b_, c_ = _names(rng, 3, taken=taken | {"rod", "nodes"})
        g0, g1 = plan["lag"][0], plan["lag"][1]
        g0["name"], g1["name"] = a_, f"{a_}_{b_}"
        g0["fields"][0]["name"] = f"{b_}_{c_}"
        g1["fields"][0]["name"] = c_
        g1["fields"][0]["type"] = g0["fields"][0]["type"]
        g1["N"] = g0["N"]
    if cls == "CosseratRodIO" and (rng.random() < 0.6 or force == "N==dim"):
        # a second grid made of views into the rod's own node arrays
        rows = str(rng.choice(["head", "tail", "skip"] if dim == 2 else ["head", "rev"]))
        nf = _names(rng, 3, taken=taken)
        flds = [
            {"name": nf[0], "type": "V", "kind": str(rng.choice(KINDS)), "layout": ["rod", "velocity_collection", rows]},
            {"name": nf[1], "type": "S", "kind": str(rng.choice(KINDS)), "layout": ["rod", "mass", None]},
            {"name": nf[2], "type": "V", "kind": str(rng.choice(KINDS)), "layout": ["rod", "acceleration_collection", rows]},
        ][: int(rng.integers(1, 4))]
        plan["lag"].append({"name": "nodes", "N": plan["n_elems"] + 1, "connect": bool(rng.random() < 0.5), "kind": "finite",
                            "layout": ["rod", "position_collection", rows], "fields": flds})
    return plan


def _brief(plan):
    return {
        "cls": plan["cls"], "dim": plan["dim"], "dtype": plan["dtype"], "time": plan["time"],
        "eul": None if plan["eul"] is None else {"shape": plan["eul"]["shape"], "fields": [(f["name"], f["type"]) for f in plan["eul"]["fields"]]},
        "lag": [{"name": g["name"], "N": g["N"], "fields": [(f["name"], f["type"]) for f in g["fields"]]} for g in plan["lag"]],
        "n_elems": plan.get("n_elems"), "shared_names": plan.get("dupnames"),
    }


# --------------------------------------------------------------------------------------------------
# building the real IO objects from a plan
# --------------------------------------------------------------------------------------------------
def _rows(a, sel, dim):
    if sel is None:
        return a
    return {"head": a[:dim], "tail": a[3 - dim:], "skip": a[::2], "rev": a[::-1][:dim]}[sel]


def _make_rod(n, rng):
    import elastica as ea

    return ea.CosseratRod.straight_rod(
        n, np.array([0.3, 0.4, 0.2]), np.array([0.0, 0.0, 1.0]), np.array([0.0, 1.0, 0.0]), 1.0,
        np.linspace(0.06, 0.015, n), density=800.0, youngs_modulus=1e4, shear_modulus=1e4 / 1.5,
    )


def _posfield(shape, origin_zyx, dx, real_t):
    """cell coordinates, component 0 = x (fastest axis) ... component dim-1 = slowest axis"""
    dim = len(shape)
    pos = np.empty((dim, *shape), dtype=real_t)
    for ax in range(dim):  # array axis ax (0 = slowest) carries coordinate component dim-1-ax
        c = (real_t(origin_zyx[ax]) + real_t(dx) * np.arange(shape[ax], dtype=real_t)).astype(real_t)
        sl = [None] * dim
        sl[ax] = slice(None)
        pos[dim - 1 - ax] = c[tuple(sl)]
    return pos


class _Built:
    pass


def _build(plan, rng, fill, spu):
    """register everything in ``plan`` with a new IO object; arrays hold generated content (fill=True,
    the saver) or NaN sentinels in independently chosen layouts (fill=False, a fresh loader)"""
    B = _Built()
    dim = plan["dim"]
    real_t = util.DT[plan["dtype"]]
    B.arrays = {}  # key -> registered array (view)
    B.meta = {}  # key -> dict(type, path info)
    B.extra_sources = {}
    B.noncontig = 0
    rod = None

    def mk(shape, kind, layout, dt=real_t):
        if isinstance(layout, (list, tuple)):  # view into a rod array
            v = _rows(getattr(rod, layout[1]), layout[2], dim)
            if v.shape != tuple(shape):
                raise RuntimeError(f"harness: rod view {layout} has shape {v.shape}, wanted {shape}")
            v[...] = _content(rng, shape, kind, v.dtype) if fill else util.sentinel_like(rng, shape, v.dtype)
        else:
            data = _content(rng, shape, kind, dt) if fill else util.sentinel_like(rng, shape, dt)
            v = _place(rng, data, layout if fill else str(rng.choice(LAYOUTS)))
        if not v.flags.c_contiguous:
            B.noncontig += 1
        return v

    other_t = np.float32 if real_t is np.float64 else np.float64

    def fdt(f):
        if f.get("other_dtype"):
            B.other_dtype_fields = getattr(B, "other_dtype_fields", 0) + 1
            return other_t
        return real_t

    cls = plan["cls"]
    eul = plan["eul"]
    if cls == "EulerianFieldIO":
        shape = tuple(eul["shape"])
        pos = _posfield(shape, eul["origin"], eul["dx"][0], real_t)
        B.pos = pos
        B.extra_sources["position_field"] = pos
        fields = {}
        for f in eul["fields"]:
            fields[f["name"]] = mk(shape if f["type"] == "S" else (dim, *shape), f["kind"], f["layout"])
            B.arrays[("E", f["name"])] = fields[f["name"]]
            B.meta[("E", f["name"])] = f["type"]
        B.io = spu.EulerianFieldIO(position_field=pos, eulerian_fields_dict=fields)
        flat = pos[0].reshape(-1)
        B.exp_origin = np.array([pos[dim - 1 - ax].min() for ax in range(dim)])
        B.exp_dx = np.array([flat[1] - flat[0]] * dim)
        B.exp_gs = np.array(shape)
        B.gnames = []
        return B

    if cls == "CosseratRodIO":
        rod = _make_rod(plan["n_elems"], rng)
        n = plan["n_elems"]
        rod.position_collection[...] = _content(rng, (3, n + 1), "finite", np.float64)
        for attr in ("velocity_collection", "acceleration_collection", "mass"):
            a = getattr(rod, attr)
            a[...] = util.sentinel_like(rng, a.shape, a.dtype)
        rod.radius[...] = _content(rng, (n,), plan.get("radius_kind", "mixed"), np.float64) if fill else util.sentinel_like(rng, (n,), np.float64)
        B.rod = rod
        B.io = spu.CosseratRodIO(cosserat_rod=rod, dim=dim, real_dtype=real_t)
        if not fill:
            B.io.rod_element_position[...] = util.sentinel_like(rng, (dim, n), np.float64)
        B.arrays[("G", "rod")] = B.io.rod_element_position
        B.meta[("G", "rod")] = "G"
        B.arrays[("L", "rod", "scalar_3d")] = rod.radius
        B.meta[("L", "rod", "scalar_3d")] = "S"
        for attr in ("position_collection", "velocity_collection", "acceleration_collection", "mass", "director_collection", "lengths"):
            B.extra_sources[attr] = getattr(rod, attr)
    else:
        B.io = spu.IO(dim=dim, real_dtype=real_t)

    if eul is not None:
        shape = tuple(eul["shape"])
        pd = real_t if eul["pdtype"] == "real" else np.float64
        B.origin = np.array(eul["origin"], dtype=pd)
        B.dx = np.array(eul["dx"], dtype=pd)
        B.gs = np.array(shape, dtype=eul["gs_dtype"])
        B.exp_origin, B.exp_dx, B.exp_gs = B.origin.copy(), B.dx.copy(), B.gs.copy()
        B.extra_sources.update({"origin": B.origin, "dx": B.dx, "grid_size": B.gs})
        B.io.define_eulerian_grid(origin=B.origin, dx=B.dx, grid_size=B.gs)
        fields = {}
        for f in eul["fields"]:
            fields[f["name"]] = mk(shape if f["type"] == "S" else (dim, *shape), f["kind"], f["layout"], fdt(f))
            B.arrays[("E", f["name"])] = fields[f["name"]]
            B.meta[("E", f["name"])] = f["type"]
        # one call per field or one call for all: both are the documented usage
        if fields and rng.random() < 0.5:
            for k, v in fields.items():
                B.io.add_as_eulerian_fields_for_io(**{k: v})
        else:
            B.io.add_as_eulerian_fields_for_io(**fields)

    B.gnames = ["rod"] if cls == "CosseratRodIO" else []
    B.registry_collisions = []
    for gi, g in enumerate(plan["lag"]):
        N = g["N"]
        grid = mk((dim, N), g["kind"], g["layout"])
        fields = {}
        for f in g["fields"]:
            fields[f["name"]] = mk((N,) if f["type"] == "S" else (dim, N), f["kind"], f["layout"], fdt(f))
        kw = {}
        if g["name"] is not None:
            kw["lagrangian_grid_name"] = g["name"]
        if g["connect"]:
            kw["lagrangian_grid_connect"] = True
        n_before = len(B.io.lagrangian_grids)
        B.io.add_as_lagrangian_fields_for_io(lagrangian_grid=grid, **kw, **fields)
        # every registration must add ONE grid to the registry: an unnamed grid whose default name collides with an
        # earlier one would silently replace it (and this harness, which reads the effective name back from the
        # registry, would otherwise mirror the collision)
        if len(B.io.lagrangian_grids) != n_before + 1:
            B.registry_collisions.append((gi, g["name"], list(B.io.lagrangian_grids.keys())))
        # effective group name (default naming when none was given): last key of the registry
        gname = g["name"] if g["name"] is not None else list(B.io.lagrangian_grids.keys())[-1]
        B.gnames.append(gname)
        B.arrays[("G", gname)] = grid
        B.meta[("G", gname)] = "G"
        for f in g["fields"]:
            B.arrays[("L", gname, f["name"])] = fields[f["name"]]
            B.meta[("L", gname, f["name"])] = f["type"]
    return B


def _expected_datasets(B, dim):
    """contract: key -> list of (h5 path, expected array as stored)"""
    out = {}
    for key, a in B.arrays.items():
        t = B.meta[key]
        if key[0] == "E":
            if t == "S":
                out[key] = [(f"Eulerian/Scalar/{key[1]}", a.reshape(1, *a.shape), "eulerian-scalar")]
            else:
                out[key] = [(f"Eulerian/Vector/{key[1]}_{i}", a[i].reshape(1, *a.shape[1:]), "eulerian-vector-component") for i in range(dim)]
        elif key[0] == "G":
            out[key] = [(f"Lagrangian/{key[1]}/Grid", np.transpose(a), "lagrangian-grid")]
        elif t == "S":
            out[key] = [(f"Lagrangian/{key[1]}/Scalar/{key[2]}", a, "lagrangian-scalar")]
        else:
            out[key] = [(f"Lagrangian/{key[1]}/Vector/{key[2]}", np.transpose(a), "lagrangian-vector")]
    return out


WHAT = {"E": {"S": "eulerian-scalar", "V": "eulerian-vector"}, "L": {"S": "lagrangian-scalar", "V": "lagrangian-vector"}}


def _what(key, meta):
    return "lagrangian-grid" if key[0] == "G" else WHAT[key[0]][meta[key]]


# --------------------------------------------------------------------------------------------------
# one case
# --------------------------------------------------------------------------------------------------
def _run_case(rec, rng, spu, h5py, plan, tier, case_id):
    import copy

    dim = plan["dim"]
    real_t = util.DT[plan["dtype"]]
    dupnames = set(plan.get("dupnames") or ())
    dup = bool(dupnames)
    brief = _brief(plan)
    n_lag_fields = sum(len(g["fields"]) for g in plan["lag"]) + (1 if plan["cls"] == "CosseratRodIO" else 0)
    n_grids = len(plan["lag"]) + (1 if plan["cls"] == "CosseratRodIO" else 0)
    n_eul = 0 if plan["eul"] is None else len(plan["eul"]["fields"])
    grid_only = n_grids > 0 and n_lag_fields == 0
    has_ndim_vec = any(g["N"] == dim and any(f["type"] == "V" for f in g["fields"]) for g in plan["lag"])
    base_cls = (plan["cls"], dim, plan["dtype"], min(n_eul, 3), min(n_grids, 2), has_ndim_vec, grid_only)
    trivial = (n_eul + n_grids) == 0

    def viol(mech, msg, extra=None, key=None):
        # F7: anything observed on an array that shares its name with a field of another grid (and any
        # exception in such a plan, which cannot be attributed to one array) goes under DUP_KEY only
        shared = dup and (key is None or (key[0] == "L" and key[2] in dupnames))
        rec.violation(DUP_KEY if shared else mech, f"{msg} | case {case_id} {brief}", {"plan": plan, "case": case_id, "extra": extra, "mech": mech})

    with util.TempDir() as tmp:
        fname = str(rng.choice(["f.h5", "sopht_0003.h5", "a_0.h5", os.path.join(tmp, "abs.h5")]))
        # ---- register + save -------------------------------------------------------------------
        try:
            S = _build(plan, rng, True, spu)
        except RuntimeError:
            raise
        except Exception as e:
            viol("register-raises", f"{type(e).__name__}: {e}")
            rec.case(None)
            return
        rec.count(f"cases_{plan['cls']}")
        rec.count("noncontiguous_source_views", S.noncontig)
        nun = sum(1 for g in plan["lag"] if g["name"] is None)
        rec.count("unnamed_grids_registered", nun)
        if nun >= 2:
            rec.count("cases_with_two_or_more_unnamed_grids")
        if getattr(S, "registry_collisions", None):
            viol("grid-registration-replaced-earlier-grid", f"registering grid {S.registry_collisions[0][0]} (name {S.registry_collisions[0][1]!r}) did not add a grid: "
                 f"registry keys {S.registry_collisions[0][2]} - an earlier grid was silently replaced and can be neither saved nor restored")
            rec.case(None)
            return
        if plan["cls"] == "CosseratRodIO" and rng.random() < 0.6:
            # the rod moves between registration and save: CosseratRodIO.save must store the current
            # element positions (rows used as the "nodes" grid are simply new grid content)
            S.rod.position_collection[...] = _content(rng, S.rod.position_collection.shape, "finite", np.float64)
            rec.count("rod_moved_before_save")
        before = {k: np.array(v, copy=True) for k, v in S.arrays.items() if k != ("G", "rod")}
        before_x = {k: np.array(v, copy=True) for k, v in S.extra_sources.items()}
        t_obj = _time_obj(plan["time"], real_t)
        try:
            S.io.save(fname, time=t_obj)
        except Exception as e:
            viol("save-raises", f"{type(e).__name__}: {e}")
            rec.case(None)
            return
        rec.count("files_saved")
        if _f64bits(t_obj) != _f64bits(0.0):
            rec.count("time_nonzero")
        for k, v in before.items():
            if not util.bits_equal(S.arrays[k], v):
                viol("save-modified-source", f"save changed the registered array {k}", key=k)
        for k, v in before_x.items():
            if not util.bits_equal(S.extra_sources[k], v):
                viol("save-modified-source", f"save changed {k}", key=("X", k))
        if plan["cls"] == "CosseratRodIO":
            x = S.rod.position_collection
            mid = 0.5 * (x[:dim, 1:] + x[:dim, :-1])
            rec.count("rod_midpoint_checks")
            if not util.bits_equal(S.io.rod_element_position, mid):
                viol("rod-grid!=element-midpoints", "rod_element_position after save is not the node mid-point array", key=("G", "rod"))
        saved = {k: np.array(v, copy=True) for k, v in S.arrays.items()}
        for k, v in saved.items():
            c = _classify(v)
            for kk, flag in c.items():
                if flag:
                    rec.count(f"arrays_with_{kk}")
            if k[0] != "G" and _has_suffix(k[-1]):
                rec.count("names_with_digit_suffix")

        # ---- layout, through h5py only -----------------------------------------------------------
        exp = _expected_datasets(S, dim)
        present = {}
        with h5py.File(fname, "r") as f:
            names = []
            f.visit(names.append)
            names = set(names)
            tattr = f.attrs.get("time", None)
            if tattr is None:
                viol("attr-time-missing", "file has no 'time' attribute", key=("T",))
            elif _f64bits(tattr) != _f64bits(t_obj):
                viol("attr-time-wrong", f"time attribute {tattr!r} != saved {t_obj!r}", key=("T",))
            if n_eul > 0:
                par = f["Eulerian/Parameters"].attrs if "Eulerian/Parameters" in names else {}
                for an, ev in (("origin", S.exp_origin), ("dx", S.exp_dx), ("grid_size", S.exp_gs)):
                    if an not in par:
                        viol(f"attr-{an}-missing", f"Eulerian/Parameters has no attribute {an}", key=("T",))
                    else:
                        got = np.asarray(par[an])
                        if got.shape != (dim,) or not np.array_equal(got.astype(np.float64), np.asarray(ev, dtype=np.float64)):
                            viol(f"attr-{an}-wrong", f"attribute {an}={got} expected {ev}", key=("T",))
                rec.count("eulerian_parameter_attrs_checked")
            for key, lst in exp.items():
                for path, arr, what in lst:
                    N = arr.shape[0]
                    if path not in names or not isinstance(f[path], h5py.Dataset):
                        alt = path.replace("/Vector/", "/Scalar/")
                        if what == "lagrangian-vector" and N == dim and alt in names:
                            rec.count("lagrangian_vector_N==dim_content_checked_or_F3")
                            viol(F3_KEY, f"(dim,N) vector with N == dim == {dim} is stored under {alt} with shape {f[alt].shape} instead of {path} (N,dim)", key=key)
                        else:
                            viol(f"{what}-dataset-missing", f"no dataset {path}", key=key)
                        continue
                    present[path] = (key, what)
                    ds = f[path]
                    if tuple(ds.shape) != tuple(arr.shape):
                        viol(f"{what}-dataset-shape", f"{path} has shape {ds.shape}, contract {arr.shape}", key=key)
                        continue
                    got = ds[...]
                    if got.dtype != arr.dtype:
                        got = got.astype(arr.dtype)
                    rec.count("datasets_inspected")
                    if what == "lagrangian-vector" and N == dim:
                        rec.count("lagrangian_vector_N==dim_content_checked_or_F3")
                    if not util.bits_equal(got, arr):
                        viol(f"{what}-dataset-content", f"{path} content differs from the registered array in contract order ({util.nbits_differ(got, arr)} bytes)", key=key)
        for key in S.arrays:
            rec.count({"lagrangian-grid": "lagrangian_grids", "eulerian-scalar": "eulerian_scalar_fields", "eulerian-vector": "eulerian_vector_fields",
                       "lagrangian-scalar": "lagrangian_scalar_fields", "lagrangian-vector": "lagrangian_vector_fields"}[_what(key, S.meta)])
            if key[0] == "L" and S.meta[key] == "V" and S.arrays[key].shape[1] == dim:
                rec.count("lagrangian_vector_fields_N==dim")

        # ---- round trip into a fresh IO ----------------------------------------------------------
        def roundtrip(path, expect, t_expect, tag):
            L = _build(plan, rng, False, spu)
            rec.count("noncontiguous_target_views", L.noncontig)
            rec.count("registered_arrays_of_the_other_precision", getattr(L, "other_dtype_fields", 0))
            sent = {k: np.array(v, copy=True) for k, v in L.arrays.items()}
            try:
                t = L.io.load(path)
            except Exception as e:
                viol("load-raises", f"{tag}: {type(e).__name__}: {e}")
                return
            if _f64bits(t) != _f64bits(t_expect):
                viol("time-not-restored", f"{tag}: load returned {t!r}, saved {t_expect!r}", key=("T",))
            for k, v in expect.items():
                rec.count("arrays_roundtrip_bitwise")
                if util.bits_equal(L.arrays[k], v):
                    continue
                what = _what(k, L.meta)
                if what == "lagrangian-grid" and grid_only and util.bits_equal(L.arrays[k], sent[k]):
                    viol(F4_RESTORE, f"{tag}: grid {k[1]} registered without any Lagrangian field is left untouched by load", key=k)
                else:
                    untouched = util.bits_equal(L.arrays[k], sent[k])
                    viol(f"{what}-not-restored", f"{tag}: {k} differs after load ({'target untouched' if untouched else str(util.nbits_differ(L.arrays[k], v)) + ' bytes differ'})", key=k)

        roundtrip(fname, saved, t_obj, "round trip")
        if grid_only:
            rec.count("grid_only_roundtrips")
        rec.case(None if trivial else (*base_cls, "roundtrip"), sample=brief if case_id % 7 == 0 else None)

        # ---- registries reference live arrays: change in place, save again elsewhere ------------------
        if not trivial and rng.random() < 0.3:
            for k, v in S.arrays.items():
                if k == ("G", "rod"):
                    continue
                kind = "finite" if (plan["cls"] == "CosseratRodIO" and k == ("G", "nodes")) else str(rng.choice(KINDS))
                v[...] = _content(rng, v.shape, kind, v.dtype)
            t2 = real_t(7.25) if plan["time"][0] == "real" else -12.5
            try:
                S.io.save("second_0001.h5", time=t2)
                rec.count("files_saved")
                saved2 = {k: np.array(v, copy=True) for k, v in S.arrays.items()}
                roundtrip("second_0001.h5", saved2, t2, "second save after in-place change")
                roundtrip(fname, saved, t_obj, "first file again")
                rec.count("second_save_after_inplace_change")
                rec.case((*base_cls, "second-save"))
                # a later save into an EXISTING file name (rolling checkpoint slot): the file then holds the later state, nothing of the
                # earlier one (same dataset names, shapes and dtypes as before, other values and time)
                for k, v in S.arrays.items():
                    if k == ("G", "rod"):
                        continue
                    kind = "finite" if (plan["cls"] == "CosseratRodIO" and k == ("G", "nodes")) else str(rng.choice(KINDS))
                    v[...] = _content(rng, v.shape, kind, v.dtype)
                t3 = real_t(9.5) if plan["time"][0] == "real" else 3.75
                S.io.save(fname, time=t3)
                rec.count("files_saved")
                saved3 = {k: np.array(v, copy=True) for k, v in S.arrays.items()}
                roundtrip(fname, saved3, t3, "existing file overwritten by a later save")
                rec.count("saves_over_an_existing_file")
                rec.case((*base_cls, "overwrite"))
            except Exception as e:
                viol("save-raises", f"second save: {type(e).__name__}: {e}")
        if dup:
            rec.count("shared_name_cases")
            return

        # ---- rejection ----------------------------------------------------------------------------
        variants = []
        force = plan.get("force")
        ppaths = sorted(present)
        if ppaths:
            for _ in range(2):
                variants.append(("missing-dataset", ppaths[int(rng.integers(len(ppaths)))]))
            grids = [p for p in ppaths if p.endswith("/Grid")]
            if grids and (grid_only or rng.random() < 0.5):
                variants.append(("missing-dataset", grids[int(rng.integers(len(grids)))]))
        if plan["cls"] != "EulerianFieldIO":
            variants.append(("extra-lagrangian-field",) if plan["lag"] and rng.random() < 0.7 else ("extra-grid", int(rng.integers(0, 3))))
            if grid_only:
                variants.append(("extra-grid", 0))
            if plan["lag"]:
                variants.append(("renamed-grid", int(rng.integers(len(plan["lag"])))))
        variants.append(("extra-eulerian-field",))
        if n_eul > 0:
            variants += [("origin",), ("dx",), ("grid-size",)]
            if 1 in plan["eul"]["shape"]:
                variants.append(("grid-size-broadcastable",))
        # keep the forced ones, sample the rest
        kmax = 4 if tier == "quick" else 6
        must = [v for v in variants if (grid_only and v[0] in ("renamed-grid", "extra-grid", "missing-dataset") and (v[0] != "missing-dataset" or v[1].endswith("/Grid")))
                or (force == "unit-axis" and v[0] == "grid-size-broadcastable")]
        rest = [v for v in variants if v not in must]
        order = rng.permutation(len(rest))
        chosen = must + [rest[int(i)] for i in order[: max(0, kmax - len(must))]]
        seen = set()
        for var in chosen:
            if var in seen:
                continue
            seen.add(var)
            _reject(rec, rng, spu, h5py, plan, S, fname, var, viol, base_cls, grid_only, present)


def _reject(rec, rng, spu, h5py, plan, S, fname, var, viol, base_cls, grid_only, present):
    """load of a materially mismatching (file, registration) pair must raise"""
    import copy

    dim = plan["dim"]
    real_t = util.DT[plan["dtype"]]
    p2 = copy.deepcopy(plan)
    p2["force"] = None
    path = fname
    kind = var[0]
    grid_variant = False  # a grid (not a field) is what is missing
    counter = None
    lag_names = {"scalar_3d"} | {f["name"] for g in plan["lag"] for f in g["fields"]}
    if kind == "missing-dataset":
        path = "cut.h5"
        shutil.copyfile(fname, path)
        with h5py.File(path, "r+") as f:
            del f[var[1]]
        what = present[var[1]][1]
        mech = f"accepted-file-without-{what}-dataset"
        grid_variant = what == "lagrangian-grid"
        counter = "reject_missing_dataset"
        desc = f"dataset {var[1]} deleted from the file"
    elif kind == "extra-eulerian-field":
        typ = str(rng.choice(["S", "V"]))
        if p2["eul"] is None:
            if plan["cls"] == "EulerianFieldIO":
                return
            p2["eul"] = _gen_eul(rng, plan["cls"], dim, real_t, 0, False)
        nm = _names(rng, 1, taken={f["name"] for f in p2["eul"]["fields"]})[0]
        p2["eul"]["fields"].insert(int(rng.integers(0, len(p2["eul"]["fields"]) + 1)), {"name": nm, "type": typ, "kind": "noise", "layout": "contig"})
        mech = "accepted-extra-registered-eulerian-field"
        counter = "reject_extra_field"
        desc = f"loader registers one more Eulerian {typ} field '{nm}'"
    elif kind == "extra-lagrangian-field":
        cands = [i for i, g in enumerate(p2["lag"]) if g["name"] != "nodes"] or list(range(len(p2["lag"])))
        gi = cands[int(rng.integers(len(cands)))]
        g = p2["lag"][gi]
        typ = str(rng.choice(["S", "V"]))
        nm = _names(rng, 1, taken=lag_names)[0]
        g["fields"].append({"name": nm, "type": typ, "kind": "noise", "layout": "contig"})
        mech = "accepted-extra-registered-lagrangian-field"
        counter = "reject_extra_field"
        desc = f"loader registers one more Lagrangian {typ} field '{nm}' on grid {gi}"
    elif kind == "extra-grid":
        nf = var[1]
        gname = _names(rng, 1, taken={g["name"] for g in p2["lag"] if g["name"]} | {"rod", "nodes"})[0]
        fn = _names(rng, nf, taken=lag_names)
        p2["lag"].append({"name": gname, "N": int(rng.choice(N_POOL)), "connect": False, "kind": "noise", "layout": "contig", "fields": _gen_fields(rng, fn)})
        mech = "accepted-extra-registered-grid"
        grid_variant = True
        counter = "reject_extra_field"
        desc = f"loader registers one more grid '{gname}' with {nf} fields"
    elif kind == "renamed-grid":
        gi = var[1]
        if p2["lag"][gi]["name"] == "nodes" and plan["cls"] == "CosseratRodIO":
            p2["lag"][gi]["name"] = "nodes_x"
        else:
            p2["lag"][gi]["name"] = _names(rng, 1, taken={g["name"] for g in plan["lag"] if g["name"]} | {"rod", "nodes"})[0]
        mech = "accepted-renamed-grid"
        grid_variant = True
        counter = "reject_renamed_grid"
        desc = f"loader registers grid {gi} as '{p2['lag'][gi]['name']}' instead of '{S.gnames[gi + (1 if plan['cls'] == 'CosseratRodIO' else 0)]}'"
    elif kind in ("origin", "dx"):
        e = p2["eul"]
        comps = [c for c in range(dim) if abs(e[kind][c]) >= 1e-3]
        if not comps:
            rec.count("reject_variant_skipped")
            return
        c = comps[int(rng.integers(len(comps)))]
        r = _loguni(rng, 3e-3, 0.9) * float(rng.choice([-1, 1]))
        if plan["cls"] == "EulerianFieldIO" and kind == "dx":
            e["dx"] = [e["dx"][0] * (1 + r)] * dim
        else:
            e[kind][c] = e[kind][c] * (1 + r)
        mech = f"accepted-{kind}-mismatch"
        counter = f"reject_{kind}"
        desc = f"loader's Eulerian {kind}[{c}] differs by relative {r:.3g}"
    elif kind in ("grid-size", "grid-size-broadcastable"):
        e = p2["eul"]
        if kind == "grid-size-broadcastable":
            axes = [a for a in range(dim) if e["shape"][a] == 1]
            a = axes[int(rng.integers(len(axes)))]
            e["shape"][a] = int(rng.integers(2, 6))
        else:
            a = int(rng.integers(dim))
            lo = 2 if (plan["cls"] == "EulerianFieldIO" and a == dim - 1) else 1
            new = e["shape"][a] + int(rng.choice([-1, 1, 2]))
            e["shape"][a] = new if new >= lo else e["shape"][a] + 1
        mech = "accepted-grid-size-mismatch"
        counter = "reject_grid_size_broadcastable" if kind.endswith("broadcastable") else "reject_grid_size"
        desc = f"loader's Eulerian grid is {e['shape']} instead of {plan['eul']['shape']}"
    else:
        raise ValueError(kind)

    L = _build(p2, rng, False, spu)
    if kind in ("origin", "dx"):
        # materiality is verified on the values the two IO objects were really given
        a, b = np.asarray(L.exp_origin if kind == "origin" else L.exp_dx, np.float64), np.asarray(S.exp_origin if kind == "origin" else S.exp_dx, np.float64)
        rel = np.max(np.abs(a - b) / np.maximum(np.abs(b), 1e-300))
        if not (rel >= 1e-3 and np.max(np.abs(a - b)) >= 1e-6):
            rec.count("reject_variant_skipped")
            return
    # F4 territory: what is missing is a grid and the LOADER has no Lagrangian field at all
    loader_lag_fields = sum(len(g["fields"]) for g in p2["lag"]) + (1 if plan["cls"] == "CosseratRodIO" else 0)
    f4 = grid_variant and loader_lag_fields == 0
    if f4:
        rec.count("grid_only_missing_grid_variants")
    rec.count(counter)
    rec.case((*base_cls, "reject-" + kind))
    try:
        t = L.io.load(path)
    except Exception:
        rec.count("rejections_observed")
        return
    viol(F4_ACCEPT if f4 else mech, f"load returned normally ({t!r}) although {desc}", {"variant": var})


# --------------------------------------------------------------------------------------------------
def _canary():
    a = np.array([1e-310]) * np.array([1.0])
    b = np.array([1e-40], np.float32) * np.array([1.0], np.float32)
    return bool(a[0] != 0.0 and b[0] != 0.0)


def run_shard(sh, rec):
    import logging

    logging.disable(logging.CRITICAL)
    import h5py

    import sopht.utils as spu

    tier, seed = sh["tier"], sh["seed"]
    dim, dtype, cls = sh["dim"], sh["dtype"], sh["cls"]
    rng = util.rng_for(seed, ID, sh["idx"])
    if not _canary():
        rec.inconclusive_("process is in flush-to-zero mode before the first case: denormal contents cannot be monitored")
        return
    ncases = 20 if tier == "quick" else 210
    forced = {
        "IO": ["N==dim", "grid-only", "unit-axis", "grid-only", "N==dim", "grid-only"],
        "CosseratRodIO": ["N==dim", "unit-axis", "N==dim"],
        "EulerianFieldIO": ["unit-axis", "unit-axis", "empty"],
    }[cls]
    if cls == "IO":
        forced = forced + ["dupnames-same", "dupnames-diff", "unnamed", "joinnames"]
    for i in range(ncases):
        force = forced[i] if i < len(forced) else None
        if force is None and cls == "IO" and tier != "quick" and i % 10 == 0:
            force = ("N==dim", "grid-only", "unit-axis")[(i // 10) % 3]
        plan = _gen_plan(rng, cls, dim, dtype, force)
        _run_case(rec, rng, spu, h5py, plan, tier, i)
    if _canary():
        rec.count("denormal_canary_ok")
    else:
        rec.inconclusive_("process switched to flush-to-zero mode during the shard")
