"""C18 — a run resumed from a checkpoint continues as the uninterrupted run would have (DESIGN §4 C18).

fault_enumeration over checkpoint indices: for EVERY step index k of a coupled flow–body run the public
state is written through the IO layer, FRESH simulator / interactor / body / time-stepper objects are built,
every scratch array reachable from them is poisoned with finite garbage, the checkpoint is loaded and the run
continued; the trajectory is compared with the uninterrupted run of the same real code after every step.
Separately: (a) poisoning the scratch arrays of the uninterrupted run between steps must not change a single
bit (same process, same plans) — isolates "hidden state in scratch" from "restore incomplete";
(b) the restart helper picks the largest index, returns its time, refuses without files / on clock mismatch.
"""
import json
import os

import numpy as np

from .. import sims, util

ID = "C18"
LEVEL = "fault_enumeration"
TITLE = "A run resumed from a checkpoint continues as the uninterrupted run would have"
TECHNIQUE = "runtime monitoring: crash/restart at every step index with fresh objects and poisoned scratch, trajectory compared with the uninterrupted run of the real code"
RULE = (
    "scenarios: 2-D Navier-Stokes + moving rigid cylinder; 2-D NS + Cosserat rod (element-centric / edge grid); 3-D NS (Green's and "
    "fast-diagonalisation, filter on/off) + sphere; 3-D NS + rod (surface grid with caps).  Runs of N = 6 (quick) / 12 (thorough) coupled steps in "
    "the documented order (body sub-steps + interactor.time_step, interactor(), flow.time_step); every k in 0..N-1 is a checkpoint/restart "
    "point (exhaustive over k).  One evaluation = one resumed trajectory; distinct = (scenario, dtype, k); non-trivial = the state moved by "
    "more than the tolerance between checkpoint and end.  Helper: directories populated with random subsets of checkpoint indices."
)
ASSUMPTIONS = [
    "resumed vs uninterrupted compared at 32 x max(8 eps |y|, deviation of the uninterrupted real run under a (1+-eps) perturbation of the state at step k)",
    "PyElastica's own save_state/load_state and PositionVerlet are third party (used as the documented body checkpoint)",
    "the scratch-poison differential is bitwise only inside one process (FFTW plans)",
]
REQUIRE = {"restart_points": 12, "trajectory_steps_compared": 30, "poison_differential_steps": 10, "helper_directories": 6, "helper_clock_mismatch_of_one_small_step": 3, "scratch_arrays_poisoned": 50, "checkpoints_written_over_leftover_files": 12, "scenarios_float32_fields_in_float64_io": 2}
SHARD_TIMEOUT = {"quick": 1700, "thorough": 3400}

SCEN = [
    dict(name="ns2d+cylinder", dim=2, body="cylinder"),
    dict(name="ns2d+cylinder-tall", dim=2, body="cylinder", shape=(48, 36)),  # ny > nx (stale-padding bugs are shape specific)
    dict(name="ns2d+rod-elemcentric", dim=2, body="rod", grid="elem"),
    dict(name="ns2d+rod-edge", dim=2, body="rod", grid="edge"),
    dict(name="ns3d+sphere-greens", dim=3, body="sphere", solver="greens_function_convolution", filter=None),
    dict(name="ns3d+sphere-fastdiag-filter", dim=3, body="sphere", solver="fast_diagonalisation", filter=(2, "multiplicative")),
    dict(name="ns3d+sphere-greens-convfilter", dim=3, body="sphere", solver="greens_function_convolution", filter=(1, "convolution")),
    dict(name="ns3d+rod-surface-caps", dim=3, body="rod", grid="surfacecap"),
]


def shards(tier, seed):
    out = []
    perms3 = [(16, 12, 20), (20, 12, 16), (12, 20, 16), (16, 20, 12)]
    for i, sc in enumerate(SCEN):
        if sc["dim"] == 3:
            sc = dict(sc, shape=perms3[(i + seed) % len(perms3)])
        elif "shape" not in sc and (i + seed) % 2 == 1:
            sc = dict(sc, shape=(48, 36))
        if (i + seed) % 2 == 1:
            sc = dict(sc, default_io=True)
        if (i + seed) % 3 != 0:
            # the working directory already holds checkpoint files of an EARLIER run with the same indices (same dataset names, shapes and
            # dtypes, other values and times): the run's own saves must replace them entirely
            sc = dict(sc, leftovers=True)
        if sc["body"] != "rod" and (i + seed) % 2 == 0:
            sc = dict(sc, order="interactor-first", name=sc["name"] + "+interactor-first")
        dts = ["float64", "float32"] if tier == "thorough" else (["float64"] if (i + seed) % 2 == 0 else ["float32"])
        for dt in dts:
            out.append({"name": f"{sc['name']}-{dt}", "mode": "run", "scen": sc, "dtype": dt})
    out.append({"name": "helper", "mode": "helper"})
    return out


# ------------------------------------------------------------------------------------------------
def build(sc, dtype, t0=0.0):
    import elastica as ea
    import sopht.simulator as sps
    import sopht.utils as spu

    real_t = util.DT[dtype]
    d = sc["dim"]
    if d == 2:
        flow = sims.build(dict(kind="ns2d", shape=tuple(sc.get("shape", (36, 48))), x_range=1.2 if sc.get("shape", (36, 48))[1] == 48 else 0.9, nu=5e-3, dtype=dtype, threads=2, forcing=True, free_stream=True, time=t0, width=2, rho=1.2))
    else:
        flow = sims.build(dict(kind="ns3d", shape=tuple(sc.get("shape", (16, 12, 20))), x_range=1.0, nu=8e-3, dtype=dtype, threads=2, forcing=True, free_stream=True, time=t0, width=2,
                               rho=1.1, solver=sc.get("solver", "greens_function_convolution"), filter=sc.get("filter")))

    class Sim(ea.BaseSystemCollection, ea.Forcing):
        pass

    sim = Sim()
    common = dict(eul_grid_forcing_field=flow.eul_grid_forcing_field, eul_grid_velocity_field=flow.velocity_field, dx=flow.dx, grid_dim=d, real_t=real_t, start_time=t0)
    if sc["body"] == "cylinder":
        body = ea.Cylinder(np.array([0.5, 0.45, 0.0]), np.array([0.0, 0.0, 1.0]), np.array([1.0, 0.0, 0.0]), 1.0, 0.09, density=2.0)
        sim.append(body)
        inter = sps.RigidBodyFlowInteraction(rigid_body=body, virtual_boundary_stiffness_coeff=-5e3, virtual_boundary_damping_coeff=-2e1,
                                             forcing_grid_cls=sps.CircularCylinderForcingGrid, num_forcing_points=24, **common)
    elif sc["body"] == "sphere":
        body = ea.Sphere(np.array([0.5, 0.3, 0.4]), 0.12, density=3.0)
        sim.append(body)
        inter = sps.RigidBodyFlowInteraction(rigid_body=body, virtual_boundary_stiffness_coeff=-2e3, virtual_boundary_damping_coeff=-1e1,
                                             forcing_grid_cls=sps.SphereForcingGrid, num_forcing_points_along_equator=10, **common)
    else:
        n = 6
        if d == 2:
            start, direction, normal = np.array([0.35, 0.45, 0.0]), np.array([1.0, 0.0, 0.0]), np.array([0.0, 0.0, 1.0])
            length = 0.35
        else:
            start, direction, normal = np.array([0.3, 0.3, 0.4]), np.array([1.0, 0.0, 0.0]), np.array([0.0, 1.0, 0.0])
            length = 0.4
        body = ea.CosseratRod.straight_rod(n, start, direction, normal, length, 0.03, density=500.0, youngs_modulus=2e4, shear_modulus=2e4 / 1.5)
        sim.append(body)
        # no damper: PyElastica 1.0's load_state() calls constrain_rates(), which applies dampers once more than the
        # uninterrupted run did (third-party artefact, measured) - it would be mistaken for a SophT restart defect
        if sc["grid"] == "elem":
            kw = dict(forcing_grid_cls=sps.CosseratRodElementCentricForcingGrid)
        elif sc["grid"] == "edge":
            kw = dict(forcing_grid_cls=sps.CosseratRodEdgeForcingGrid)
        else:
            kw = dict(forcing_grid_cls=sps.CosseratRodSurfaceForcingGrid, surface_grid_density_for_largest_element=6, with_cap=True)
        inter = sps.CosseratRodFlowInteraction(cosserat_rod=body, virtual_boundary_stiffness_coeff=-3e3, virtual_boundary_damping_coeff=-1e1, **common, **kw)
    sim.add_forcing_to(body).using(sps.FlowForces, inter)
    sim.finalize()
    if sc.get("default_io"):
        # checkpoints written through generic IO objects of DEFAULT precision (float64), whatever the simulator's precision: the
        # registered arrays stay the simulator's own (a float32 run is then a mixed-precision registration)
        gio = spu.IO(dim=d)
        pos = np.asarray(flow.position_field, np.float64)
        gio.define_eulerian_grid(origin=np.array([pos[d - 1 - ax].min() for ax in range(d)]), dx=np.array([float(flow.dx)] * d), grid_size=np.array(flow.vorticity_field.shape[-d:]))
        gio.add_as_eulerian_fields_for_io(vorticity=flow.vorticity_field, velocity=flow.velocity_field)
        ios = {"flow": gio}
        fio = spu.IO(dim=d)
    else:
        ios = {"flow": spu.EulerianFieldIO(position_field=flow.position_field, eulerian_fields_dict={"vorticity": flow.vorticity_field, "velocity": flow.velocity_field})}
        fio = spu.IO(dim=d, real_dtype=real_t)
    fio.add_as_lagrangian_fields_for_io(lagrangian_grid=inter.forcing_grid.position_field, lagrangian_grid_name="body",
                                        pos_mismatch=inter.lag_grid_position_mismatch_field, vel_mismatch=inter.lag_grid_velocity_mismatch_field)
    ios["forcing"] = fio
    if sc["body"] == "rod":
        ios["rod"] = spu.CosseratRodIO(cosserat_rod=body, dim=d, real_dtype=real_t)
    return dict(flow=flow, sim=sim, body=body, inter=inter, ios=ios, ts=ea.PositionVerlet(), sc=sc)


def initial_kick(o, rng):
    b = o["body"]
    d = o["sc"]["dim"]
    if o["sc"]["body"] == "rod":
        v = rng.standard_normal(b.velocity_collection.shape) * 0.05
        if d == 2:
            v[2] = 0
        b.velocity_collection[...] = v
    else:
        b.velocity_collection[:d, 0] = rng.standard_normal(d) * 0.1
        b.omega_collection[2, 0] = 0.7
    w = o["flow"].vorticity_field
    w[...] = util.compact(rng, w.shape[-d:], 6 if d == 2 else 3, "smooth", w.dtype, lead=w.shape[:-d]) * 0.5


DT = 2e-3


def step(o, U):
    flow, sim, inter, ts = o["flow"], o["sim"], o["inter"], o["ts"]
    t = np.float64(flow.time)
    if o["sc"].get("order", "body-first") == "body-first":
        # order of the repository's restart test / rod examples: body sub-steps (+ interactor clock), interaction, flow
        for _ in range(2):
            t = ts.step(sim, t, np.float64(DT / 2))
            inter.time_step(dt=DT / 2)
        inter()
        flow.time_step(dt=DT, free_stream_velocity=U)
    else:
        # order of the rigid-body examples (flow past cylinder): the interactor consumes the STORED velocity mismatch first
        inter.time_step(dt=DT)
        inter()
        flow.time_step(dt=DT, free_stream_velocity=U)
        for _ in range(2):
            t = ts.step(sim, t, np.float64(DT / 2))


NAMES = ("vorticity", "velocity", "time", "position", "velocity_b", "directors", "omega", "pos_mismatch", "marker_force", "vel_mismatch")
CHECKPOINTED = ("vorticity", "velocity", "time", "position", "velocity_b", "directors", "omega", "pos_mismatch", "vel_mismatch")


def snap(o):
    b, flow, inter = o["body"], o["flow"], o["inter"]
    return [np.array(flow.vorticity_field, np.float64), np.array(flow.velocity_field, np.float64), np.array([flow.time], np.float64),
            np.array(b.position_collection, np.float64), np.array(b.velocity_collection, np.float64), np.array(b.director_collection, np.float64),
            np.array(b.omega_collection, np.float64), np.array(inter.lag_grid_position_mismatch_field, np.float64), np.array(inter.lag_grid_forcing_field, np.float64),
            np.array(inter.lag_grid_velocity_mismatch_field, np.float64)]


def scratch(o):
    arrs = dict(sims.scratch_arrays(o["flow"]))
    inter = o["inter"]
    for n in ("lag_grid_flow_velocity_field", "lag_grid_forcing_field", "interp_weights", "local_eul_grid_support_of_lag_grid"):
        if hasattr(inter, n):
            arrs["inter." + n] = getattr(inter, n)
    return arrs


def save_all(o, k):
    import elastica as ea

    t = o["flow"].time
    o["ios"]["flow"].save(f"sopht_{k:04d}.h5", time=t)
    o["ios"]["forcing"].save(f"forcing_grid_{k:04d}.h5", time=t)
    if "rod" in o["ios"]:
        o["ios"]["rod"].save(f"rod_{k:04d}.h5", time=t)
    ea.save_state(o["sim"], f"restart_{k:04d}", np.float64(t))


def load_all(o, k):
    import elastica as ea

    o["flow"].time = o["ios"]["flow"].load(f"sopht_{k:04d}.h5")
    o["ios"]["forcing"].load(f"forcing_grid_{k:04d}.h5")
    if "rod" in o["ios"]:
        o["ios"]["rod"].load(f"rod_{k:04d}.h5")
    tb = ea.load_state(o["sim"], f"restart_{k:04d}", False)
    return tb


def _run(sh, rec):
    sc, dtype, tier, seed = sh["scen"], sh["dtype"], sh["tier"], sh["seed"]
    real_t = util.DT[dtype]
    eps = util.eps(real_t)
    N = 6 if tier == "quick" else 12
    rng = util.rng_for(seed, "C18", sc["name"], dtype)
    d = sc["dim"]
    U = np.array([1.0, 0.2, -0.1][:d])
    with util.TempDir():
        o = build(sc, dtype)
        kick_seed = int(rng.integers(1 << 30))
        initial_kick(o, np.random.default_rng(kick_seed))
        if sc.get("leftovers"):
            t_keep = o["flow"].time
            for k in range(N):
                o["flow"].time = t_keep - 1.0 - 0.01 * k
                save_all(o, k)
                rec.count("checkpoints_written_over_leftover_files")
            o["flow"].time = t_keep
        if sc.get("default_io"):
            rec.count("scenarios_checkpointed_through_default_precision_io")
            if dtype == "float32":
                rec.count("scenarios_float32_fields_in_float64_io")
        traj = [snap(o)]
        for k in range(N):
            save_all(o, k)
            try:
                step(o, U)
            except Exception as e:
                # the scenarios are fixed and run cleanly on the unchanged tree: an exception from SophT inside the
                # documented coupling loop means the run cannot even be continued without interruption
                rec.violation("coupled-run-raises", f"{sc['name']} {dtype}: step {k} of the uninterrupted run raised {type(e).__name__}: {e}", {"scen": sc, "k": k})
                rec.case(None)
                return
            traj.append(snap(o))
        if not all(np.all(np.isfinite(a)) for a in traj[-1]):
            rec.inconclusive_(f"uninterrupted run of {sc['name']} produced non-finite values")
            return

        # (a) scratch-poison differential on the uninterrupted run: bitwise
        o2 = build(sc, dtype)
        initial_kick(o2, np.random.default_rng(kick_seed))
        for k in range(N):
            arrs = scratch(o2)
            sims.poison(rng, arrs, 1e3)
            rec.count("scratch_arrays_poisoned", len(arrs))
            step(o2, U)
            rec.count("poison_differential_steps")
            for nm, a, b in zip(NAMES, snap(o2), traj[k + 1]):
                if not util.bits_equal(a, b):
                    rec.violation(f"hidden-state-in-scratch:{nm}", f"{sc['name']} {dtype}: poisoning scratch arrays before step {k} changed '{nm}' "
                                  f"(max diff {util.maxabs(a - b):.3g})", {"scen": sc, "k": k})
                    break
        rec.case((sc["name"], dtype, "poison-differential"))

        # noise floor: perturb the uninterrupted state at step 0 by (1 +- eps) and measure the deviation of the real run
        o3 = build(sc, dtype)
        initial_kick(o3, np.random.default_rng(kick_seed))
        for nm in ("vorticity_field",):
            a = getattr(o3["flow"], nm)
            a[...] = (a * (1 + rng.uniform(-eps, eps, size=a.shape))).astype(a.dtype)
        b = o3["body"]
        b.velocity_collection[...] = b.velocity_collection * (1 + rng.uniform(-2.2e-16, 2.2e-16, size=b.velocity_collection.shape) * (eps / 2.2e-16))
        dev = [np.zeros(len(NAMES))]
        for k in range(N):
            step(o3, U)
            dev.append(np.array([util.maxabs(x - y) for x, y in zip(snap(o3), traj[k + 1])]))
        dev = np.maximum.accumulate(np.array(dev), axis=0)

        # (b) restart at every k
        for k in range(N):
            r = build(sc, dtype)
            arrs = scratch(r)
            sims.poison(rng, arrs, 1e3)
            # also garbage in the state arrays that the checkpoint must overwrite
            for a in (r["flow"].vorticity_field, r["flow"].velocity_field, r["inter"].lag_grid_position_mismatch_field, r["inter"].lag_grid_velocity_mismatch_field):
                a[...] = rng.standard_normal(a.shape).astype(a.dtype)
            rec.count("scratch_arrays_poisoned", len(arrs))
            try:
                tb = load_all(r, k)
            except Exception as e:
                rec.violation("checkpoint-load-raises", f"{sc['name']} k={k}: {type(e).__name__}: {e}", {"scen": sc, "k": k})
                rec.case(None)
                continue
            rec.count("restart_points")
            if float(tb) != float(r["flow"].time) or float(tb) != float(traj[k][2][0]):
                rec.violation("restored-time-wrong", f"{sc['name']} k={k}: flow time {r['flow'].time} body time {tb} expected {traj[k][2][0]}", {"k": k})
            # the public state named by the property must be back bit for bit right after loading, before any step
            for nm, a, b in zip(NAMES, snap(r), traj[k]):
                if nm in CHECKPOINTED and not util.bits_equal(a, b):
                    rec.violation(f"state-not-restored:{nm}", f"{sc['name']} {dtype}: after loading checkpoint {k} '{nm}' differs from the state that was saved "
                                  f"(max diff {util.maxabs(a - b):.3g})", {"scen": sc, "k": k, "field": nm})
            rec.count("post_load_state_comparisons")
            worst = 0.0
            bad = None
            for j in range(k, N):
                step(r, U)
                rec.count("trajectory_steps_compared")
                for i, (nm, a, b) in enumerate(zip(NAMES, snap(r), traj[j + 1])):
                    tol = 32 * max(8 * eps * max(util.maxabs(b), 1e-30), dev[j + 1][i]) + 1e-300
                    ratio = util.err_over_tol(a, b, tol)
                    worst = max(worst, ratio)
                    if ratio > 1 and bad is None:
                        bad = (nm, j + 1, ratio)
            rec.stat("resumed_vs_uninterrupted", worst)
            moved = util.maxabs(traj[N][0] - traj[k][0]) > 0
            rec.case((sc["name"], dtype, k) if moved else None, sample={"scenario": sc["name"], "dtype": dtype, "checkpoint_index": k, "steps_after": N - k, "worst_err_over_tol": worst})
            if bad:
                rec.violation(f"resumed-run-diverges:{bad[0]}", f"{sc['name']} {dtype}: restart at step {k}: '{bad[0]}' differs at step {bad[1]} (err/tol={bad[2]:.3g})",
                              {"scen": sc, "k": k, "field": bad[0]})


# ------------------------------------------------------------------------------------------------
def _helper(sh, rec):
    import elastica as ea
    import sopht.utils as spu

    rng = util.rng_for(sh["seed"], "C18helper")
    nd = 18 if sh["tier"] == "quick" else 60
    pos = np.stack(np.meshgrid((np.arange(5) + 0.5) * 0.1, (np.arange(6) + 0.5) * 0.1, indexing="ij"))[::-1].copy()

    def mk():
        class Sim(ea.BaseSystemCollection):
            pass

        sim = Sim()
        cyl = ea.Cylinder(np.array([0.5, 0.5, 0.0]), np.array([0.0, 0.0, 1.0]), np.array([1.0, 0.0, 0.0]), 1.0, 0.1, density=1.0)
        sim.append(cyl)
        sim.finalize()
        w = np.zeros((5, 6))
        io = spu.EulerianFieldIO(position_field=pos, eulerian_fields_dict={"w": w})
        g = np.zeros((2, 4))
        rio = spu.IO(dim=2)
        rio.add_as_lagrangian_fields_for_io(lagrangian_grid=g, lagrangian_grid_name="rod", s=np.zeros(4))
        fg = np.zeros((2, 3))
        fio = spu.IO(dim=2)
        fio.add_as_lagrangian_fields_for_io(lagrangian_grid=fg, lagrangian_grid_name="f", v=np.zeros((2, 3)))
        return sim, cyl, io, rio, fio, w, g, fg

    for case in range(nd):
        with util.TempDir():
            sim, cyl, io, rio, fio, w, g, fg = mk()
            kind = ["normal", "normal", "none", "clock-mismatch", "widths", "clock-mismatch"][case % 6]
            pool = [0, 3, 7, 10, 42, 99, 100, 250, 999, 1000, 9999, 10000, 12345]
            idx = sorted(set(int(x) for x in rng.choice(pool, size=int(rng.integers(1, 6)), replace=False)))
            if kind == "widths":
                idx = sorted(set(idx + [9999, 10000]))
            if kind == "none":
                idx = []
                # unrelated files must not count as checkpoints
                open("notes.txt", "w").write("x")
            times = {}
            for i in idx:
                t = float(i) * 0.01 + 0.5
                times[i] = t
                w[...] = i
                g[...] = i + 0.25
                fg[...] = i + 0.5
                io.save(f"sopht_{i:04d}.h5", time=t)
                rio.save(f"rod_{i:04d}.h5", time=t)
                fio.save(f"forcing_grid_{i:04d}.h5", time=t)
            latest = max(idx) if idx else None
            if latest is not None:
                cyl.position_collection[0, 0] = latest
                # body clock off by a visible amount, or by ONE SMALL STEP late in a run (relative 2e-6 / 7e-6, absolute 4e-9): flow and body
                # states of different steps must be refused however close their times are
                tl = times[latest]
                off = [0.125, tl * 2e-6, 4e-9, -tl * 7e-6][(case // 2) % 4]
                tsave = tl if kind != "clock-mismatch" else tl + off
                if kind == "clock-mismatch" and off != 0.125:
                    rec.count("helper_clock_mismatch_of_one_small_step")
                ea.save_state(sim, "restart_data", np.float64(tsave))
            sim2, cyl2, io2, rio2, fio2, w2, g2, fg2 = mk()
            rec.count("helper_directories")
            try:
                t = spu.restart_simulation(restart_simulator=sim2, io=io2, rod_io=rio2, forcing_io=fio2, restart_dir="restart_data")
                raised = None
            except Exception as e:
                t, raised = None, e
            meta = {"kind": kind, "indices": idx}
            if kind == "none":
                if not isinstance(raised, FileNotFoundError):
                    rec.violation("helper:no-checkpoint-not-refused", f"expected FileNotFoundError, got {raised!r} / returned {t} {meta}", meta)
            elif kind == "clock-mismatch":
                if raised is None:
                    rec.violation("helper:clock-mismatch-accepted", f"flow time {times[latest]} vs body time {tsave}: returned {t} {meta}", meta)
            else:
                if raised is not None:
                    rec.violation("helper:raises", f"{type(raised).__name__}: {raised} {meta}", meta)
                else:
                    if t != times[latest]:
                        rec.violation("helper:returned-time-wrong", f"returned {t}, latest checkpoint {latest} has time {times[latest]} {meta}", meta)
                    if not (np.all(w2 == latest) and np.all(g2 == latest + 0.25) and np.all(fg2 == latest + 0.5) and cyl2.position_collection[0, 0] == latest):
                        rec.violation("helper:not-the-latest-checkpoint", f"loaded content is not that of index {latest}: w={w2.flat[0]} {meta}", meta)
            rec.case(("helper", kind, len(idx), latest is not None and latest >= 10000), sample=meta)


def run_shard(sh, rec):
    if sh["mode"] == "run":
        _run(sh, rec)
    else:
        _helper(sh, rec)
