"""C19 — stabilising operators never amplify and leave admissible states fixed (DESIGN §4 C19).

Runtime monitoring of the REAL kernels with inequality / fixed-point / bitwise-differential oracles.
No reference transcription of a kernel is used; every oracle is one of the inequalities of the
property statement (plus the analytic Fourier symbol of the filter, which the statement names).

(a) Brinkmann penalisation (2-D scalar/vector, 2-D vs-fixed-value scalar/vector, 3-D scalar/vector,
    Lagrangian numba variant): cell-wise  min(f,t) <= out <= max(f,t);  out == f where chi == 0
    (bitwise in float64 -- (f+0)/1 is exact in IEEE double; in float32 GCC's -Ofast replaces the
    vectorised division by rcpps + one Newton step, measured 1 ulp off, so float32 is held to
    16 eps |f|);  |out - t| non-increasing along lambda = 0, 1e0 .. 1e12;  out -> t at lambda = 1e12.
(b) sine Heaviside: sorted phi => H non-decreasing, 0 <= H <= 1, H == 0 / 1 exactly strictly beyond
    the blend width, H(phi)+H(-phi) == 1, probes at +-width and one ulp either side, C1 joints
    ("smooth": H(-w+h) <= 2 (h/w)^2).
(c) boundary-zone damping, widths 0..6, grids >= 2w+3, non-cubic, 2-D, 3-D scalar, 3-D vector:
    outside the zone bitwise unchanged, outermost ring == 0 to rounding, every zone value bounded by
    the largest pre-call magnitude on the zone's inner edge (index distance w-1).
(d) Laplacian filters order 1..4, both types, scalar/vector: constants fixed bitwise (whole array),
    checkerboard annihilated at distance >= order+1 from the faces, plane waves exp(i k.j) with
    k = pi m/8, m in {0..8}^3 (phases evaluated from integers, so the samples are exact to 1 ulp)
    multiplied by the predicted symbol, measured amplification in [0,1], output bitwise independent
    of garbage (finite / NaN payloads / zeros) pre-loaded into the two work buffers.

Workload diversity (added after the seeded-change campaign): Brinkmann kernels get the penalty factor alternately as real_t
and python float and, in the quick tier, a second smaller grid of the opposite orientation through the same kernel objects;
the random Heaviside widths are passed as real_t scalars, every first repetition runs on a grid whose first axis is the
longest; damping (quick): one TALL (2-D: grid_size_y > grid_size_x) / axis-permuted (3-D) grid per shard, plus SIBLING kernels
sharing grid shape and precision with the last pool kernel of the shard but differing in width resp. dx (python float), then
that pool kernel object again; every second pool kernel and the tall one get coordinate fields with a DIFFERENT origin per
axis (x from 0, y from -0.37 L_y, z centred about 0; all assertions are offset-invariant); filters: both work buffers are
overwritten completely (outer ring included) with finite / NaN garbage before EVERY call of a filter object (counted), and every filter object is re-checked (constant, two plane waves) after the NEXT object
was generated and used, and the odd-order vector filters share the grid shape of the scalar filter generated just before.

Self-test of the added dimensions: penalise_field_boundary_2d.py:43 y_grid_field[-1, 0] -> y_grid_field[min(shape) - 1, 0]
(wrong only when grid_size_y > grid_size_x) -> VIOLATION damping-ring!=0, witnesses only on the 'tall' grid (12, 7).
penalise_field_boundary_3d.py:64 z_grid_field_start read from y_grid_field -> VIOLATION damping-ring!=0, witnesses only on kernels
whose axes have distinct origins; laplacian_filter_3d.py:99 ring reset of filter_flux_buffer only on the first call of a filter
object -> VIOLATION filter-constant-not-fixed / filter-depends-on-buffer-garbage (2nd and later calls).
(A harness bug was made and fixed while adding the re-check of earlier filter objects: closures over loop variables bind late.)

Workload dimensions added later (kernel level; every one has a monitor counter and a REQUIRE minimum; NO existing assertion or
tolerance was changed, every new execution is judged by the module's own monitors, never bitwise against another layout):
  (a) array layout -- every third call hands ALL caller arrays over as non-contiguous views of the same values (interior of a padded
      parent / every second cell, non-unit inner stride / column-major, drawn per array; results read back with np.ascontiguousarray):
      Brinkmann (outputs, field, target, indicator; the numba Lagrangian variant with pad/step views only, so that numba compiles one
      extra 'A'-layout specialisation per scalar signature instead of one per layout combination), Heaviside (level set, output),
      damping (the field; the coordinate fields given to the generator for the 'tall' and 'sibling-dx' kernels), filters (the field;
      every third filter object gets non-contiguous WORK BUFFERS).  The filters' bitwise buffer-garbage differential (4.) keeps one
      layout within each group of compared executions.
  (b) histories of TEMPORARY views on one kernel object -- K = 3..4 calls in a tight loop, every array argument is stack[name][k];
      compared afterwards: Brinkmann scalar / vector / fixed-value vector / Lagrangian (own field, target, indicator and penalty per
      call), Heaviside (phi, -phi, the same values in another cell order, its negative), damping (pool and tall kernels), filters
      (four plane waves; buffers dirtied once before the loop, not between the calls, to keep the loop tight).
  (c) exactly-zero multipliers -- Brinkmann with penalty EXACTLY 0 must return the field in every cell whatever the indicator (the
      convex weight lambda chi / (1 + lambda chi) is 0; compared like chi == 0: bitwise in float64, 16 eps |f| in float32; mechanism
      brinkmann-zero-penalty-changes-field); Lagrangian variant additionally with dt exactly 0 and a positive coefficient.  Does not
      apply to the Heaviside (blend width > 0), damping (width 0 = documented bypass, already covered) and filter (order >= 1, no
      scalar argument) parts.
  (d) other-precision predecessors -- before the kernels of a shard are generated the same generator is called for the OTHER precision
      with otherwise identical options and the result called once: all Brinkmann generators (+ the numba function), the Heaviside
      generator for the first width and for every width that is exactly representable in float32 and passed as a typed scalar
      (np.float32(w) == np.float64(w), equal hashes), the first damping kernel of width >= 2 (same width, shape, spacing, origins), the
      first filter object (same order, type, field type, shape).
  (e) call history on the SAME array objects (Brinkmann, every variant incl. the Lagrangian one): one output / field / target /
      INDICATOR array object and one penalty-factor object per (variant, penalty in {1e12, random}); three calls, before each the
      field, target and indicator are refreshed IN PLACE (moving body; indicator classes with exact 0 / 1) and the output refilled with
      sentinels; each call judged by the unchanged monitor (bounds, chi == 0 => field, approach to the target at 1e12).
  (f) ALIASED arguments (in-place penalisation): the output array IS the field input, resp. IS the target input (scalar, vector,
      Lagrangian; the fixed-value variants have no target array, output-is-field only).  Confirmed alias-safe on the unchanged tree for
      every pattern (element-wise kernels: cell i is read before cell i is written and no neighbour is read; seeds 0..3 quick, 0
      thorough), so no pattern had to be skipped.  The pre-call contents are the monitor's field / target.
  Self-test of (e), (f): independently written patches /tmp/wt/out3_C19/A (3-D vector wrapper caches the blending weight while the penalty
      is equal and `char_field is` the retained object) -> before HELD (reported missed), now brinkmann-chi0-changes-field,
      brinkmann-no-approach-to-target on call 2 of 3 of the same-objects history; /tmp/wt/out3_C19/B (Lagrangian kernel builds the result
      in the output buffer before reading the flow velocity) -> before HELD, now brinkmann-zero-penalty-changes-field,
      brinkmann-out-of-[f,t] with 'aliasing': 'output-is-field'.
  Self-test of (a)-(d) (tools/mut.sh, quick, seed 0; "before" = this module at the commit preceding the change, run from a git worktree):
  penalise_field_boundary_2d.py  x-front broadcast target field[:, :width] -> np.ascontiguousarray(field)[:, :width] (a copy, hence a lost
                                 write, exactly when the field is not C-contiguous)         before HELD; now damping-ring!=0, damping-zone>inner-edge-max
  brinkmann_penalise_2d.py       vector wrappers fetch the x component of vector_field from a module-level dict keyed by id(vector_field)
                                 (sed: field=_V.setdefault(id(vector_field), vector_field[x_axis_idx]))      before HELD; now brinkmann-out-of-[f,t] (+ chi0 / monotone)
  brinkmann_penalise_3d.py       penalty_factor * char_field -> (penalty_factor + 0.001) * char_field in numerator and denominator (still convex,
                                 monotone, == field at chi 0, -> target)                   before HELD; now brinkmann-zero-penalty-changes-field only
  char_func_from_level_set_2d.py generator memoised in a module-level dict keyed by (blend_width, num_threads, fixed_grid_size), i.e. by
                                 the typed scalar without real_t (patch)                    before HELD; now heaviside-raises (kernel of the other precision served)
  No false alarm occurred while adding (a)-(d): constants stay fixed bitwise and the checkerboard is annihilated exactly on every layout.

Tolerances (K * eps_t * magnitude; measured max err/tol on the unchanged tree + F6.diff, seeds 0..5 quick,
0..1 thorough, both precisions):
  brinkmann bounds / monotone / limit   32 eps max(|f|,|t|)              measured <= 0.063
  brinkmann chi == 0                    float64 bitwise; float32 16 eps|f| measured <= 0.063 (1 ulp)
  heaviside range, monotone, symmetry, edge values   16 eps              measured <= 0.063 (1 eps)
  heaviside joints                      2 (h/w)^2 + 16 eps               measured <= 0.051
  damping ring                          8 eps (pi/2)(N/w) M_edge         measured <= 0.053   (-Ofast contracts
       a*(x_end - x) into fma(a, -x, a*x_end), so the ring is ~4 eps*M and not exactly 0 on the back faces)
  damping zone bound                    4 eps M_edge                     measured < 0 (sin < 1 strictly)
  filter symbol                         8 eps (3+order) A                measured <= 0.061
  checkerboard                          4 eps A                          measured 0 (exact)

Expected on the pinned tree: finding F6 -- width 1 raises ValueError in 2-D and 3-D
(``field[..., -w:(-w+1)]`` is the empty slice) => VIOLATION "boundary-damping-width1-raises" (12 witnesses
per quick run: 2-D / 3-D scalar / both precisions, 3 kept per shard).  With /verif/fixes/F6.diff applied the
check holds (`tools/mut.sh /verif/fixes/F6.diff C19` prints HELD).

Not covered by the statement but seen while probing: ``gen_laplacian_filter_kernel_3d(filter_order=0)`` is
accepted by the argument check and is NOT the identity -- the loop body never runs and the stale interior of
``filter_flux_buffer`` is subtracted from the field (history dependent).  The property quantifies over
order >= 1, so this is reported to the owner, not alarmed on.

MUTATIONS  (tools/mut.sh, quick tier, seed 0; damping mutants on top of F6.diff so that F6 does not mask them;
            every one reported VIOLATION with the mechanisms listed)
  brinkmann_penalise_2d.py:37    denominator 1 + l*chi -> 1 - l*chi             brinkmann-out-of-[f,t], -not-monotone-in-lambda, -no-approach-to-target
  brinkmann_penalise_3d.py:36    numerator l*chi*t -> 2*l*chi*t                 brinkmann-out-of-[f,t], -not-monotone-in-lambda, -no-approach-to-target
  brinkmann_penalise_2d.py:102   vs-fixed-val denominator 1 + -> 1 -            brinkmann-out-of-[f,t] (+ the two above)
  BrinkmannBoundaryForcing:135   denominator 1 + c*dt -> 1 - c*dt               brinkmann-out-of-[f,t] (+ the two above)
  BrinkmannBoundaryForcing:134   numerator weight c*dt -> c (dt dropped)        brinkmann-out-of-[f,t]
  char_func_2d.py:43             1 + phi/w -> 1 - phi/w                         heaviside-decreasing, -edge-value, -joint-not-smooth
  char_func_3d.py:44             sin -> cos                                     heaviside-H(phi)+H(-phi)!=1, -decreasing, -edge-value, -outside-[0,1], -joint-not-smooth
  char_func_2d.py:44             + sin/pi -> - sin/pi                           heaviside-joint-not-smooth ONLY (this mutant is still monotone, in
                                                                                [0,1], 0/1 beyond the width and symmetric; only "smooth" separates it)
  char_func_3d.py:39             |phi| > w -> |phi| > 0.5 w                     heaviside-decreasing, -H(phi)+H(-phi)!=1, -edge-value, -joint-not-smooth
  penalise_field_boundary_2d     broadcast target [:, :width] -> [:, :width+1]  damping-outside-zone-changed
  penalise_field_boundary_3d:87  x-front ramp sin -> cos                        damping-ring!=0
  penalise_field_boundary_2d     broadcast source (w-1):w -> w:(w+1)            damping-zone>inner-edge-max, damping-ring!=0
  penalise_field_boundary_3d     y-front broadcast line deleted                 damping-zone>inner-edge-max, damping-ring!=0
  penalise_field_boundary_3d     z-back broadcast source -w:(-w+1) -> -w-1:-w   damping-zone>inner-edge-max, damping-ring!=0
  laplacian_filter_3d.py:61      x stencil 0.25 -> 0.3                          filter-symbol, filter-checkerboard-not-annihilated
  laplacian_filter_3d.py:99      ring reset of the flux buffer removed (mult.)  filter-depends-on-buffer-garbage, filter-constant-not-fixed
  laplacian_filter_3d.py:124     ring reset removed (convolution)               filter-depends-on-buffer-garbage, filter-constant-not-fixed
  laplacian_filter_3d.py:117     saxpby field_2_prefac -1.0 -> +1.0 (mult.)     filter-symbol, filter-checkerboard-not-annihilated, filter-amplification-outside-[0,1]
  laplacian_filter_3d.py:162     saxpby -1.0 -> +1.0 (convolution, z pass)      filter-symbol (checkerboard still annihilated by the x and y factors)
  laplacian_filter_3d.py:68      y stencil reads the x neighbours               filter-symbol, filter-checkerboard-not-annihilated
  laplacian_filter_3d.py:75      z stencil centre weight 2 -> 2.1               filter-symbol, filter-constant-not-fixed, filter-checkerboard-not-annihilated
  not killable by this property: iteration slice [:, :width] -> [:, :width+1] of a ramp kernel (multiplies the
  first cell outside the zone by sin(pi/2) == 1).
"""
import itertools

import numpy as np

from .. import util

ID = "C19"
LEVEL = "exploration"
TECHNIQUE = "runtime monitoring: invariant monitors per stabilising operator (convexity bounds, monotone Heaviside, zone/ring bounds, plane-wave symbols of the filters) + bitwise work-buffer-garbage differential over call histories"
TITLE = "Stabilising operators never amplify and leave admissible states fixed"
RULE = (
    "Brinkmann: per (dim, precision, variant) random field/target/indicator classes (noise, big/small, "
    "f==t blocks, zeros, opposite signs; chi uniform with exact 0/1 patches, binary, tiny, ones) x "
    "lambda in {0,1e0..1e12}; Heaviside: blend widths {0.125,0.3,1e-3,7.7,random}, sorted phi over "
    "+-1.5 widths with +-width and one ulp either side; damping: widths 0..6, fixed non-cubic shape "
    "pool >= 2w+3 (kernels bake width/dx/extent), field classes noise / edge-small / edge-only / "
    "zone-big / const; filters: orders 1..4 x {multiplicative, convolution} x {scalar, vector}, "
    "constants, checkerboard, plane waves k = pi m/8 on the lattice {0..8}^3 (quick: even m plus random), "
    "3 garbage histories.  Every third call passes non-contiguous views of the caller's arrays, every kernel object also runs a "
    "tight-loop history on temporary views stack[k], Brinkmann includes penalty exactly 0, an other-precision predecessor is generated "
    "first.  distinct = (operator, variant, dim, precision, width/order, input class, sub-check)."
)
ASSUMPTIONS = [
    "IEEE float64 division by exactly 1.0 is exact (chi == 0 bitwise in float64); float32 uses rcpps+Newton under -Ofast, held to 16 eps |f|",
    "plane-wave samples are evaluated from integer phases pi*q/8, q mod 16, so they are exact to 1 ulp",
    "boundary-damping kernels bake (width, dx, extent): shapes come from a fixed pool, only field values depend on the seed",
    "filter symbols are asserted only at index distance >= order+1 from every face (each 1-D pass widens the zero ring's influence by one cell)",
]
REQUIRE = {
    "brinkmann_cells_in_bounds": 10000,
    "brinkmann_chi0_cells": 500,
    "brinkmann_chi1_cells": 500,
    "brinkmann_monotone_cells": 10000,
    "brinkmann_lagrangian_calls": 20,
    "heaviside_cells": 10000,
    "heaviside_edge_probes": 48,
    "heaviside_cells_beyond_width": 1000,
    "damping_calls": 40,
    "damping_zone_cells": 5000,
    "damping_w2_seen": 2,
    "damping_w3_seen": 2,
    "damping_w4_seen": 2,
    "damping_w5_seen": 2,
    "damping_w6_seen": 2,
    "damping_width0_calls": 2,
    "damping_width1_calls": 2,
    "damping_calls_tall": {"quick": 20, "thorough": 0},
    "damping_calls_distinct_origin_per_axis": 40,
    "damping_calls_common_origin": 40,
    "filter_calls_2nd_or_later_with_dirty_buffer_rings": 500,
    "damping_calls_sibling_width": 8,
    "damping_calls_sibling_dx": 8,
    "damping_calls_first_again": 8,
    "filter_plane_waves": 500,
    "filter_history_bitwise": 16,
    "filter_constants_bitwise": 16,
    "filter_checkerboards": 16,
    "filter_rechecks_of_earlier_object": 20,
    "filter_objects_sharing_shape_with_previous_object": 8,
    "brinkmann_penalty_factor_real_t": 500,
    "brinkmann_penalty_factor_python_float": 500,
    "brinkmann_shapes_first_axis_longer_than_x": 1,
    "brinkmann_shapes_x_longest_or_equal": 1,
    "heaviside_generators_width_as_real_t": 4,
    "heaviside_shapes_first_axis_longer_than_x": 20,
    # workload dimensions (a)-(d): array layout, temporary-view histories, exactly-zero multipliers, other-precision predecessors
    "brinkmann_calls_with_noncontiguous_array_arguments": 100,
    "brinkmann_lagrangian_calls_with_noncontiguous_array_arguments": 100,
    "brinkmann_calls_with_temporary_view_arguments": 40,
    "brinkmann_zero_penalty_cells": 10000,
    "brinkmann_lagrangian_calls_dt_exactly_zero": 12,
    "heaviside_call_pairs_with_noncontiguous_array_arguments": 16,
    "heaviside_calls_with_temporary_view_arguments": 80,
    "damping_calls_on_noncontiguous_field_views": 40,
    "damping_calls_on_temporary_views": 60,
    "damping_kernels_from_noncontiguous_coordinate_fields": 8,
    "filter_calls_on_noncontiguous_field_views": 500,
    "filter_calls_on_temporary_views": 32,
    "filter_objects_with_noncontiguous_work_buffers": 4,
    "other_precision_predecessors": 20,
    "brinkmann_calls_on_same_array_objects_refreshed_in_place": 60,
    "brinkmann_calls_with_output_aliasing_an_input": 80,
    "other_precision_predecessors_equal_typed_width": 4,
}
LAMBDAS = [0.0] + [10.0**p for p in range(13)]


class _Layout:
    """array layout of the caller's arrays: every ``period``-th call hands ALL array arguments over as NON-contiguous views holding
    the same values (util.noncontiguous_copy: interior of a sentinel-padded parent / every second cell of a parent, non-unit inner
    stride / column-major; the mode is drawn per array, so one call mixes layouts).  Results are read back with
    np.ascontiguousarray and judged by the SAME monitors as the contiguous executions -- never bitwise against another layout."""

    def __init__(self, rng, rec, counter, period=3, modes=("pad", "step", "fortran")):
        self.rng, self.rec, self.counter, self.period, self.modes, self.n = rng, rec, counter, period, modes, 0

    def next(self):
        self.n += 1
        if self.n % self.period != 2 % self.period:
            return lambda a: a
        self.rec.count(self.counter)
        return lambda a: util.noncontiguous_copy(self.rng, a, self.modes[int(self.rng.integers(len(self.modes)))])


def _other(real_t):
    return np.float32 if np.dtype(real_t) == np.float64 else np.float64


def shards(tier, seed):
    out = []
    for dim in (2, 3):
        for dt in ("float64", "float32"):
            out.append({"name": f"brink{dim}d-{dt}", "group": "brink", "dim": dim, "dtype": dt})
            out.append({"name": f"charfn{dim}d-{dt}", "group": "charfn", "dim": dim, "dtype": dt})
            for wg in ((0, 1, 2, 3), (4, 5, 6)):
                out.append({"name": f"damp{dim}d-{dt}-w{wg[0]}{wg[-1]}", "group": "damp", "dim": dim, "dtype": dt, "widths": list(wg)})
    for dt in ("float64", "float32"):
        for ft in ("multiplicative", "convolution"):
            orders = [(1, 2, 3, 4)] if tier == "quick" else [(1, 2), (3, 4)]
            for og in orders:
                out.append({"name": f"filter-{ft[:4]}-{dt}-o{og[0]}{og[-1]}", "group": "filter", "dtype": dt, "ftype": ft, "orders": list(og)})
    return out


def run_shard(sh, rec):
    {"brink": _brink, "charfn": _charfn, "damp": _damp, "filter": _filter}[sh["group"]](sh, rec)


# ------------------------------------------------------------------------------------------------
# (a) Brinkmann
# ------------------------------------------------------------------------------------------------
def _ft_pairs(rng, shape, real_t):
    """(class name, field, target) over the input classes"""
    n = lambda s=1.0: (rng.standard_normal(shape) * s).astype(real_t)
    out = [("noise", n(10), n(10)), ("big-vs-small", n(1e3), n(1e-3)), ("small-vs-big", n(1e-3), n(1e3))]
    f = n(5)
    t = n(5)
    blk = rng.random(shape) < 0.4
    t[blk] = f[blk]
    out.append(("f==t-blocks", f, t))
    out.append(("target-zero", n(3), np.zeros(shape, real_t)))
    out.append(("field-zero", np.zeros(shape, real_t), n(3)))
    f = np.abs(n(7)) + real_t(0.5)
    out.append(("opposite-signs", f, (-f * real_t(rng.uniform(0.1, 3))).astype(real_t)))
    f = np.abs(n(7)) + real_t(0.5)
    out.append(("same-sign", f, (f * real_t(rng.uniform(0.5, 2))).astype(real_t)))
    return out


def _chis(rng, shape, real_t):
    u = rng.uniform(0, 1, shape)
    r = rng.random(shape)
    u[r < 0.25] = 0.0
    u[r > 0.75] = 1.0
    b = (rng.random(shape) < 0.5).astype(np.float64)
    tiny = rng.choice([0.0, 1e-30, 1e-12, 1e-6, 1e-3, 0.5, 1.0], size=shape)
    return [("uniform+0/1", u.astype(real_t)), ("binary", b.astype(real_t)), ("tiny", tiny.astype(real_t)), ("ones", np.ones(shape, real_t))]


def _brink_monitor(rec, label, run, f, t, chi, real_t, cls, meta, lambdas=LAMBDAS):
    """``run(lam) -> out`` executes the real kernel; f, t, chi broadcast to out's shape."""
    eps = util.eps(real_t)
    F = np.broadcast_to(f, np.broadcast_shapes(np.shape(f), np.shape(t), np.shape(chi))).astype(np.float64)
    T = np.broadcast_to(t, F.shape).astype(np.float64)
    C = np.broadcast_to(chi, F.shape)
    lo, hi = np.minimum(F, T), np.maximum(F, T)
    mag = np.maximum(np.abs(F), np.abs(T))
    tol = 32 * eps * mag + 1e-300
    z = C == 0
    one = C == 1
    prev = None
    for lam in lambdas:
        try:
            out = run(lam)
        except Exception as e:
            rec.violation("brinkmann-raises", f"{label} lambda={lam}: {type(e).__name__}: {e} {meta}", {"meta": meta})
            rec.case(None)
            return
        rec.case((label, *cls, "lam>0" if lam else "lam0"), sample={**meta, "variant": label, "lambda": lam} if lam == 1.0 else None)
        if out.dtype != np.dtype(real_t):
            rec.violation("brinkmann-dtype", f"{label} returned {out.dtype}", {"meta": meta})
        O = out.astype(np.float64)
        if not np.all(np.isfinite(O)):
            rec.violation("brinkmann-out-of-[f,t]", f"{label} lambda={lam:g}: non-finite output values (finite field, target, indicator) {meta}", {"meta": meta, "f": f, "t": t, "chi": chi, "lam": lam})
            return
        r = float(max(np.max((lo - O) / tol), np.max((O - hi) / tol)))
        rec.stat("brinkmann_bounds", r)
        rec.count("brinkmann_cells_in_bounds", O.size)
        if r > 1:
            i = np.unravel_index(int(np.argmax(np.maximum(lo - O, O - hi) / tol)), O.shape)
            rec.violation(
                "brinkmann-out-of-[f,t]",
                f"{label} lambda={lam:g} cell {i}: f={F[i]!r} t={T[i]!r} chi={float(C[i])!r} out={O[i]!r} ({r:.3g} tol) {meta}",
                {"meta": meta, "f": f, "t": t, "chi": chi, "lam": lam, "out": out},
            )
        # chi == 0  =>  out == f
        if z.any():
            rec.count("brinkmann_chi0_cells", int(z.sum()))
            if np.dtype(real_t) == np.float64:
                ok = util.bits_equal(out[z], np.broadcast_to(f, F.shape)[z].astype(real_t))
                rec.count("brinkmann_chi0_bitwise_cells", int(z.sum()))
            else:
                d = np.abs(O[z] - F[z])
                rr = float(np.max(d / (16 * eps * np.abs(F[z]) + 1e-300)))
                rec.stat("brinkmann_chi0_f32_ulp", rr)
                ok = rr <= 1
            if not ok:
                rec.violation("brinkmann-chi0-changes-field", f"{label} lambda={lam:g}: output differs from the field where chi == 0 {meta}", {"meta": meta, "f": f, "t": t, "chi": chi, "lam": lam, "out": out})
        if one.any():
            rec.count("brinkmann_chi1_cells", int(one.sum()))
        # penalty EXACTLY zero: the convex weight lambda*chi/(1 + lambda*chi) vanishes in every cell, whatever the indicator
        # => out == f everywhere (same comparison as for chi == 0: bitwise in float64, 16 eps |f| in float32)
        if lam == 0:
            rec.count("brinkmann_zero_penalty_cells", O.size)
            if np.dtype(real_t) == np.float64:
                ok = util.bits_equal(out, np.broadcast_to(f, F.shape).astype(real_t))
            else:
                rr = float(np.max(np.abs(O - F) / (16 * eps * np.abs(F) + 1e-300)))
                rec.stat("brinkmann_zero_penalty_f32_ulp", rr)
                ok = rr <= 1
            if not ok:
                rec.violation("brinkmann-zero-penalty-changes-field", f"{label} lambda=0: output differs from the field although the penalty is exactly zero {meta}", {"meta": meta, "f": f, "t": t, "chi": chi, "lam": lam, "out": out})
        # monotone approach to the target
        d = np.abs(O - T)
        if prev is not None:
            r = float(np.max((d - prev) / tol))
            rec.stat("brinkmann_monotone", r)
            rec.count("brinkmann_monotone_cells", O.size)
            if r > 1:
                i = np.unravel_index(int(np.argmax((d - prev) / tol)), O.shape)
                rec.violation("brinkmann-not-monotone-in-lambda", f"{label} lambda={lam:g} cell {i}: |out-t| grew from {prev[i]!r} to {d[i]!r} {meta}", {"meta": meta, "f": f, "t": t, "chi": chi, "lam": lam})
        prev = d
    # limit: lambda = 1e12, chi >= 1e-3  =>  |out - t| <= tol + 1e-8 |f - t|
    if lambdas[-1] >= 1e12:
        m = C >= 1e-3
        if m.any():
            r = float(np.max((prev[m] - 1e-8 * np.abs(F[m] - T[m])) / tol[m]))
            rec.stat("brinkmann_limit", r)
            rec.count("brinkmann_limit_cells", int(m.sum()))
            if r > 1:
                rec.violation("brinkmann-no-approach-to-target", f"{label}: at lambda=1e12, chi>=1e-3 the output stays {r:.3g} tol away from the target {meta}", {"meta": meta, "f": f, "t": t, "chi": chi})


def _brink(sh, rec):
    import sopht.numeric.eulerian_grid_ops as spne
    from sopht.numeric.immersed_boundary_ops import BrinkmannBoundaryForcing

    d = sh["dim"]
    real_t = util.DT[sh["dtype"]]
    rng = util.rng_for(sh["seed"], ID, sh["name"])
    thorough = sh["tier"] != "quick"
    gen = spne.gen_brinkmann_penalise_pyst_kernel_2d if d == 2 else spne.gen_brinkmann_penalise_pyst_kernel_3d
    pen = BrinkmannBoundaryForcing.brinkmann_penalise_lag_grid_velocity_field
    # predecessors of the OTHER precision, generated with otherwise identical options and called once BEFORE the kernels under
    # observation exist (anything a generator keeps per option set without the precision in the key would now serve these)
    other_t = _other(real_t)
    try:
        so = (5, 7) if d == 2 else (4, 5, 6)
        mk = lambda lead=(): (rng.standard_normal((*lead, *so)) + 2).astype(other_t)
        gens = [gen] + ([spne.gen_brinkmann_penalise_vs_fixed_val_pyst_kernel_2d] if d == 2 else [])
        for ig, g_ in enumerate(gens):
            ko = g_(real_t=other_t, num_threads=2, field_type="scalar")
            kov = g_(real_t=other_t, num_threads=2, field_type="vector")
            if ig == 0:
                ko(penalised_field=mk(), field=mk(), char_field=np.ones(so, other_t), penalty_field=mk(), penalty_factor=other_t(2.0))
                kov(penalised_vector_field=mk((d,)), penalty_factor=other_t(2.0), char_field=np.ones(so, other_t), penalty_vector_field=mk((d,)), vector_field=mk((d,)))
            else:
                ko(penalised_field=mk(), field=mk(), char_field=np.ones(so, other_t), penalty_factor=other_t(2.0), penalty_val=1.5)
                kov(penalised_vector_field=mk((d,)), penalty_factor=other_t(2.0), char_field=np.ones(so, other_t), penalty_val=(1.5, -0.5), vector_field=mk((d,)))
            rec.count("other_precision_predecessors", 2)
        pen(np.zeros((d, 7), other_t), np.ones((d, 7), other_t), np.ones((d, 7), other_t), other_t(2.0), other_t(0.5))
        rec.count("other_precision_predecessors")
    except Exception as e:
        rec.note(f"other-precision predecessor failed: {type(e).__name__}: {e}")
    lay = _Layout(rng, rec, "brinkmann_calls_with_noncontiguous_array_arguments")
    ks = gen(real_t=real_t, num_threads=2, field_type="scalar")
    kv = gen(real_t=real_t, num_threads=2, field_type="vector")
    if d == 2:
        kfs = spne.gen_brinkmann_penalise_vs_fixed_val_pyst_kernel_2d(real_t=real_t, num_threads=2, field_type="scalar")
        kfv = spne.gen_brinkmann_penalise_vs_fixed_val_pyst_kernel_2d(real_t=real_t, num_threads=2, field_type="vector")
    nshape = 5 if thorough else 2
    nlam = [0]

    def lam_arg(lam):
        """penalty factor alternately as python float and as real_t"""
        nlam[0] += 1
        rec.count("brinkmann_penalty_factor_real_t" if nlam[0] % 2 else "brinkmann_penalty_factor_python_float")
        return real_t(lam) if nlam[0] % 2 else lam

    shape0 = None
    for ishape in range(nshape):
        shape = util.shape2d(rng, 5, 48) if d == 2 else util.shape3d(rng, 4, 18)
        # quick tier: a second, smaller grid of the OPPOSITE orientation through the same generated kernel objects
        reduced = (not thorough) and ishape == 1
        if reduced:
            shape = tuple(max(4, n // 2) for n in shape0[::-1])
            if len(set(shape)) == 1:
                shape = shape[:-1] + (shape[-1] + 1,)
        shape0 = shape0 or shape
        rec.count("brinkmann_shapes_first_axis_longer_than_x" if shape[0] > shape[-1] else "brinkmann_shapes_x_longest_or_equal")
        meta = {"dim": d, "dtype": sh["dtype"], "shape": shape}
        chis = _chis(rng, shape, real_t)
        for ci, (cname, chi) in enumerate(chis[:1] if reduced else chis):
            pairs = _ft_pairs(rng, shape, real_t)
            if reduced:
                pairs = pairs[:1] + pairs[3:5]
            elif not thorough:  # quick: every pair class with the first indicator, a rotating subset otherwise
                pairs = pairs if ci == 0 else [pairs[(ci + j) % len(pairs)] for j in range(3)]
            for pname, f, t in pairs:
                cls = (d, sh["dtype"], pname, cname)

                def run_s(lam, f=f, t=t, chi=chi):
                    v = lay.next()
                    out = v(util.sentinel_like(rng, shape, real_t))
                    f0, t0, c0 = f.copy(), t.copy(), chi.copy()
                    f, t, chi = v(f), v(t), v(chi)
                    ks(penalised_field=out, field=f, char_field=chi, penalty_field=t, penalty_factor=lam_arg(lam))
                    rec.check(util.bits_equal(f, f0) and util.bits_equal(t, t0) and util.bits_equal(chi, c0), "brinkmann-input-modified", f"scalar kernel modified an input {meta}")
                    return np.ascontiguousarray(out)

                _brink_monitor(rec, "scalar", run_s, f, t, chi, real_t, cls, meta)
        # vector wrapper: one indicator for all components, components of different classes
        for cname, chi in (chis[:1] if reduced else chis[:2]):
            pr = _ft_pairs(rng, shape, real_t)
            sel = [pr[int(i)] for i in rng.choice(len(pr), size=d, replace=False)]
            fv = np.ascontiguousarray(np.stack([p[1] for p in sel]))
            tv = np.ascontiguousarray(np.stack([p[2] for p in sel]))

            def run_v(lam):
                v = lay.next()
                out = v(util.sentinel_like(rng, fv.shape, real_t))
                kv(penalised_vector_field=out, penalty_factor=lam_arg(lam), char_field=v(chi), penalty_vector_field=v(tv), vector_field=v(fv))
                return np.ascontiguousarray(out)

            _brink_monitor(rec, "vector", run_v, fv, tv, chi[None], real_t, (d, sh["dtype"], "+".join(p[0] for p in sel), cname), meta, lambdas=LAMBDAS[::2] + [1e12] if not thorough else LAMBDAS)
        # versus fixed value (2-D only)
        if d == 2:
            for cname, chi in (chis[:1] if reduced else chis[:3]):
                pr = _ft_pairs(rng, shape, real_t)
                for pname, f, _t in ((pr[0],) if reduced else (pr[0], pr[1], pr[6])):
                    for val in (0.0, float(real_t(rng.standard_normal() * 5)), float(real_t(np.max(np.abs(f)) * 2)), -1e3):
                        def run_fs(lam, f=f, chi=chi, val=val):
                            v = lay.next()
                            out = v(util.sentinel_like(rng, shape, real_t))
                            kfs(penalised_field=out, field=v(f), char_field=v(chi), penalty_factor=lam_arg(lam), penalty_val=val)
                            return np.ascontiguousarray(out)

                        _brink_monitor(rec, "fixed-val-scalar", run_fs, f, np.asarray(real_t(val)), chi, real_t, (d, sh["dtype"], pname, cname, "val0" if val == 0 else "val"), meta, lambdas=LAMBDAS if thorough else [0.0, 1.0, 1e2, 1e5, 1e9, 1e12])
                fv = np.ascontiguousarray(np.stack([pr[0][1], pr[7][1]]))
                vals = (float(real_t(rng.standard_normal() * 4)), float(real_t(-rng.uniform(0.5, 9))))

                def run_fv(lam):
                    v = lay.next()
                    out = v(util.sentinel_like(rng, fv.shape, real_t))
                    kfv(penalised_vector_field=out, penalty_factor=lam_arg(lam), char_field=v(chi), penalty_val=vals, vector_field=v(fv))
                    return np.ascontiguousarray(out)

                _brink_monitor(rec, "fixed-val-vector", run_fv, fv, np.array(vals, real_t)[:, None, None], chi[None], real_t, (d, sh["dtype"], "noise+same-sign", cname), meta, lambdas=LAMBDAS[::2] + [1e12] if not thorough else LAMBDAS)
        # histories of TEMPORARY views on the same kernel objects: K calls in a tight loop, every array argument is stack[name][k]
        # (a fresh view object of different memory per call whose id() CPython recycles), each call with its own field / target /
        # indicator / penalty; judged afterwards by the same monitor
        K = 4
        hist = [("scalar", ks, ()), ("vector", kv, (d,))] + ([("fixed-val-vector", kfv, (d,))] if d == 2 else [])
        for label, kern, lead in hist:
            pr = _ft_pairs(rng, (*lead, *shape), real_t)
            sel = [pr[int(i)] for i in rng.choice(len(pr), size=K, replace=False)]
            lams = [LAMBDAS[int(i)] for i in rng.integers(0, len(LAMBDAS), size=K)]
            S = {"out": util.sentinel_like(rng, (K, *lead, *shape), real_t).copy(), "f": np.stack([p_[1] for p_ in sel]),
                 "t": np.stack([p_[2] for p_ in sel]), "chi": np.stack([chis[int(i)][1] for i in rng.integers(0, len(chis), size=K)])}
            vals = [(float(real_t(rng.standard_normal() * 4)), float(real_t(-rng.uniform(0.5, 9)))) for _ in range(K)]
            args = [lam_arg(lam) for lam in lams]
            try:
                if label == "scalar":
                    for k in range(K):
                        kern(penalised_field=S["out"][k], field=S["f"][k], char_field=S["chi"][k], penalty_field=S["t"][k], penalty_factor=args[k])
                elif label == "vector":
                    for k in range(K):
                        kern(penalised_vector_field=S["out"][k], penalty_factor=args[k], char_field=S["chi"][k], penalty_vector_field=S["t"][k], vector_field=S["f"][k])
                else:
                    for k in range(K):
                        kern(penalised_vector_field=S["out"][k], penalty_factor=args[k], char_field=S["chi"][k], penalty_val=vals[k], vector_field=S["f"][k])
            except Exception as e:
                rec.violation("brinkmann-raises", f"{label} history of temporary views: {type(e).__name__}: {e} {meta}", {"meta": meta})
                continue
            for k in range(K):
                tk = S["t"][k] if label != "fixed-val-vector" else np.array(vals[k], real_t)[:, None, None]
                ck = S["chi"][k] if not lead else S["chi"][k][None]
                _brink_monitor(rec, label, lambda lam, k=k: S["out"][k], S["f"][k], tk, ck, real_t, (d, sh["dtype"], "temporary-view-history"),
                               {**meta, "history_call": f"{k + 1} of {K} with temporary views of different memory"}, lambdas=[lams[k]])
                rec.count("brinkmann_calls_with_temporary_view_arguments")
        variants = [("scalar", ks, ()), ("vector", kv, (d,))] + ([("fixed-val-scalar", kfs, ()), ("fixed-val-vector", kfv, (d,))] if d == 2 else [])

        def kcall(label, kern, out, f, t, chi, la, vals):
            if label == "scalar":
                kern(penalised_field=out, field=f, char_field=chi, penalty_field=t, penalty_factor=la)
            elif label == "vector":
                kern(penalised_vector_field=out, penalty_factor=la, char_field=chi, penalty_vector_field=t, vector_field=f)
            elif label == "fixed-val-scalar":
                kern(penalised_field=out, field=f, char_field=chi, penalty_factor=la, penalty_val=vals[0])
            else:
                kern(penalised_vector_field=out, penalty_factor=la, char_field=chi, penalty_val=vals, vector_field=f)

        # (e) call history on the SAME array objects (moving body): one set of array objects (output, field, target, indicator) and ONE
        # penalty-factor object per (variant, penalty); three calls, before each the field, the target and the INDICATOR are refreshed
        # IN PLACE (new admissible values incl. exact 0 / 1) and the output is refilled with sentinels; every call judged by the monitor
        for label, kern, lead in variants:
            for lam in (1e12, float(LAMBDAS[1 + int(rng.integers(0, 8))])):
                la = lam_arg(lam)
                full = (*lead, *shape)
                out, f, t, chi = np.empty(full, real_t), np.empty(full, real_t), np.empty(full, real_t), np.empty(shape, real_t)
                vals = (float(real_t(rng.standard_normal() * 4)), float(real_t(-rng.uniform(0.5, 9))))
                for icall in range(3):
                    pr = _ft_pairs(rng, full, real_t)
                    p_ = pr[int(rng.integers(len(pr)))]
                    f[...] = p_[1]
                    t[...] = p_[2]
                    chi[...] = _chis(rng, shape, real_t)[icall][1]  # uniform with exact 0/1 patches, binary, tiny
                    out[...] = util.sentinel_like(rng, full, real_t)
                    f0, t0, c0 = f.copy(), t.copy(), chi.copy()
                    mh = {**meta, "same_array_objects_refreshed_in_place": f"call {icall + 1} of 3", "penalty": lam}
                    try:
                        kcall(label, kern, out, f, t, chi, la, vals)
                    except Exception as e:
                        rec.violation("brinkmann-raises", f"{label} call {icall + 1} on the same array objects: {type(e).__name__}: {e} {meta}", {"meta": mh})
                        break
                    rec.count("brinkmann_calls_on_same_array_objects_refreshed_in_place")
                    rec.check(util.bits_equal(f, f0) and util.bits_equal(t, t0) and util.bits_equal(chi, c0), "brinkmann-input-modified", f"{label} kernel modified an input {mh}")
                    if label == "fixed-val-scalar":
                        tk = np.asarray(real_t(vals[0]))
                    elif label == "fixed-val-vector":
                        tk = np.array(vals, real_t)[:, None, None]
                    else:
                        tk = t0
                    res = out.copy()
                    _brink_monitor(rec, label, lambda lam_, res=res: res, f0, tk, c0 if not lead else c0[None], real_t, (d, sh["dtype"], "same-objects-history", icall), mh, lambdas=[lam])
        # (f) ALIASED arguments (in-place penalisation): the output array IS the field input resp. IS the target input.  The kernels are
        # element-wise (cell i is read before cell i is written, no neighbour is read), so the pre-call contents play the role of field / target
        for label, kern, lead in variants:
            for alias in ("output-is-field", "output-is-target"):
                if alias == "output-is-target" and label.startswith("fixed-val"):
                    continue
                full = (*lead, *shape)
                pr = _ft_pairs(rng, full, real_t)
                p_ = pr[int(rng.integers(len(pr)))]
                f0, t0 = p_[1], p_[2]
                chi = chis[int(rng.integers(len(chis)))][1]
                vals = (float(real_t(rng.standard_normal() * 4)), float(real_t(-rng.uniform(0.5, 9))))
                ma = {**meta, "aliasing": alias}

                def run_a(lam, label=label, kern=kern, alias=alias, f0=f0, t0=t0, chi=chi, vals=vals, ma=ma):
                    fa, ta, ca = f0.copy(), t0.copy(), chi.copy()
                    out = fa if alias == "output-is-field" else ta
                    kcall(label, kern, out, fa, ta, ca, lam_arg(lam), vals)
                    rec.count("brinkmann_calls_with_output_aliasing_an_input")
                    other_ok = util.bits_equal(ta, t0) if out is fa else util.bits_equal(fa, f0)
                    rec.check(other_ok and util.bits_equal(ca, chi), "brinkmann-input-modified", f"{label} kernel modified an input that is not the output {ma}")
                    return out

                if label == "fixed-val-scalar":
                    tk = np.asarray(real_t(vals[0]))
                elif label == "fixed-val-vector":
                    tk = np.array(vals, real_t)[:, None, None]
                else:
                    tk = t0
                _brink_monitor(rec, label, run_a, f0, tk, chi if not lead else chi[None], real_t, (d, sh["dtype"], alias), ma, lambdas=[0.0, 1.0, 1e3, 1e12])
    # Lagrangian numba variant: (f + c dt t)/(1 + c dt); indicator == 1 on every marker, lambda = c dt
    pen = BrinkmannBoundaryForcing.brinkmann_penalise_lag_grid_velocity_field
    layl = _Layout(rng, rec, "brinkmann_lagrangian_calls_with_noncontiguous_array_arguments", modes=("pad", "step"))
    for nm in ([1, 7, 64] if not thorough else [1, 2, 3, 7, 64, 501]):
        shp = (d, nm)
        meta = {"dim": d, "dtype": sh["dtype"], "markers": nm}
        for pname, f, t in _ft_pairs(rng, shp, real_t):
            for dtv in (1.0, float(real_t(rng.uniform(1e-4, 1e-1)))):
                def run_l(lam, f=f, t=t, dtv=dtv):
                    v = layl.next()
                    out = v(util.sentinel_like(rng, shp, real_t))
                    f, t = v(f), v(t)
                    if dtv == 1.0:  # python floats, as the class passes them
                        pen(out, f, t, float(lam), 1.0)
                    else:
                        pen(out, f, t, real_t(lam / dtv), real_t(dtv))
                    rec.count("brinkmann_lagrangian_calls")
                    return np.ascontiguousarray(out)

                _brink_monitor(rec, "lagrangian", run_l, f, t, np.ones(shp, real_t), real_t, (d, sh["dtype"], pname, "dt1" if dtv == 1.0 else "dt"), meta, lambdas=LAMBDAS if dtv == 1.0 else [0.0, 1.0, 1e3, 1e6, 1e9, 1e12])
        # coefficient 0  <=>  indicator 0: field unchanged
        f = (rng.standard_normal(shp) * 3).astype(real_t)
        t = (rng.standard_normal(shp) * 3).astype(real_t)

        def run_0(lam, f=f, t=t):
            out = util.sentinel_like(rng, shp, real_t)
            pen(out, f, t, real_t(0.0), real_t(lam + 0.5))
            rec.count("brinkmann_lagrangian_calls")
            return out

        _brink_monitor(rec, "lagrangian-coeff0", run_0, f, t, np.zeros(shp, real_t), real_t, (d, sh["dtype"], "coeff0"), meta, lambdas=[0.0, 1.0, 1e3])

        # dt EXACTLY zero with a positive coefficient: lambda = c dt = 0, field unchanged
        def run_d0(lam, f=f, t=t):
            out = util.sentinel_like(rng, shp, real_t)
            pen(out, f, t, real_t(lam + 0.5), real_t(0.0))
            rec.count("brinkmann_lagrangian_calls")
            rec.count("brinkmann_lagrangian_calls_dt_exactly_zero")
            return out

        _brink_monitor(rec, "lagrangian-dt0", run_d0, f, t, np.zeros(shp, real_t), real_t, (d, sh["dtype"], "dt0"), meta, lambdas=[0.0, 1.0, 1e3])
        # (e) the SAME output / flow-velocity / body-velocity array objects, refilled in place before each of three calls
        out, fo_, to_ = np.empty(shp, real_t), np.empty(shp, real_t), np.empty(shp, real_t)
        for icall in range(3):
            pr = _ft_pairs(rng, shp, real_t)
            p_ = pr[int(rng.integers(len(pr)))]
            fo_[...] = p_[1]
            to_[...] = p_[2]
            out[...] = util.sentinel_like(rng, shp, real_t)
            lam = float(LAMBDAS[int(rng.integers(0, len(LAMBDAS)))])
            pen(out, fo_, to_, lam, 1.0)
            rec.count("brinkmann_lagrangian_calls")
            rec.count("brinkmann_calls_on_same_array_objects_refreshed_in_place")
            _brink_monitor(rec, "lagrangian", lambda lam_, res=out.copy(): res, fo_.copy(), to_.copy(), np.ones(shp, real_t), real_t, (d, sh["dtype"], "same-objects-history"),
                           {**meta, "same_array_objects_refreshed_in_place": f"call {icall + 1} of 3"}, lambdas=[lam])
        # (f) aliased arguments: the penalised velocity is written over the flow velocity resp. over the body velocity
        for alias in ("output-is-field", "output-is-target"):
            pr = _ft_pairs(rng, shp, real_t)
            p_ = pr[int(rng.integers(len(pr)))]
            ma = {**meta, "aliasing": alias}

            def run_la(lam, f0=p_[1], t0=p_[2], alias=alias, ma=ma):
                fa, ta = f0.copy(), t0.copy()
                out = fa if alias == "output-is-field" else ta
                pen(out, fa, ta, float(lam), 1.0)
                rec.count("brinkmann_lagrangian_calls")
                rec.count("brinkmann_calls_with_output_aliasing_an_input")
                rec.check(util.bits_equal(ta, t0) if out is fa else util.bits_equal(fa, f0), "brinkmann-input-modified", f"lagrangian kernel modified an input that is not the output {ma}")
                return out

            _brink_monitor(rec, "lagrangian", run_la, p_[1], p_[2], np.ones(shp, real_t), real_t, (d, sh["dtype"], alias), ma, lambdas=[0.0, 1.0, 1e3, 1e6, 1e12])
        # history of temporary views (markers of K bodies kept in one array each)
        K = 4
        pr = _ft_pairs(rng, shp, real_t)
        sel = [pr[int(i)] for i in rng.choice(len(pr), size=K, replace=False)]
        lams = [LAMBDAS[int(i)] for i in rng.integers(0, len(LAMBDAS), size=K)]
        S = {"out": util.sentinel_like(rng, (K, *shp), real_t).copy(), "f": np.stack([p_[1] for p_ in sel]), "t": np.stack([p_[2] for p_ in sel])}
        for k in range(K):
            pen(S["out"][k], S["f"][k], S["t"][k], float(lams[k]), 1.0)
        for k in range(K):
            rec.count("brinkmann_lagrangian_calls")
            rec.count("brinkmann_calls_with_temporary_view_arguments")
            _brink_monitor(rec, "lagrangian", lambda lam, k=k: S["out"][k], S["f"][k], S["t"][k], np.ones(shp, real_t), real_t, (d, sh["dtype"], "temporary-view-history"),
                           {**meta, "history_call": k + 1}, lambdas=[lams[k]])


# ------------------------------------------------------------------------------------------------
# (b) sine Heaviside
# ------------------------------------------------------------------------------------------------
def _charfn(sh, rec):
    import sopht.numeric.eulerian_grid_ops as spne

    d = sh["dim"]
    real_t = util.DT[sh["dtype"]]
    eps = util.eps(real_t)
    rng = util.rng_for(sh["seed"], ID, sh["name"])
    thorough = sh["tier"] != "quick"
    gen = spne.gen_char_func_from_level_set_via_sine_heaviside_pyst_kernel_2d if d == 2 else spne.gen_char_func_from_level_set_via_sine_heaviside_pyst_kernel_3d
    # a fixed pool of blend widths (dyadic k/64 and short decimals; the compiled kernels are cached on disk): whether the
    # threshold tests agree exactly AT +-width depends on how the particular width and its derived constants round
    pool = [k / 64 for k in (1, 2, 3, 5, 8, 12, 16, 20, 25, 32, 48)] + [0.012, 0.024, 0.03, 0.05, 0.06, 0.089, 0.093, 0.097, 0.1, 0.157, 0.178,
                                                                       0.189, 0.193, 0.2, 0.243, 0.25, 0.37, 0.5, 1.0, 2.0]
    if thorough:
        sub = pool
    else:
        off = (sh["seed"] * 7 + len(sh["name"])) % len(pool)
        sub = [pool[(off + 3 * j) % len(pool)] for j in range(10)]
    widths = [0.125, 0.3, 1e-3, 7.7] + [float(np.round(rng.uniform(0.01, 3.0), 3)) for _ in range(6 if thorough else 1)] + sub
    rec.count("heaviside_blend_widths", len(widths))
    lay = _Layout(rng, rec, "heaviside_call_pairs_with_noncontiguous_array_arguments")
    other_t = _other(real_t)
    for iw, bw in enumerate(widths):
        # predecessor of the OTHER precision with the numerically equal blend width (same argument style, same thread count), generated
        # and called once before the kernel under observation: for the first width and for every width that is exactly representable in
        # float32 and handed over as a typed scalar (np.float32(w) == np.float64(w) and both hash alike)
        if iw == 0 or (iw >= 4 and float(np.float32(bw)) == bw):
            try:
                ko = gen(blend_width=(other_t(bw) if iw >= 4 else bw), real_t=other_t, num_threads=2)
                po = (rng.uniform(-1.5, 1.5, (5, 6) if d == 2 else (4, 5, 6)) * bw).astype(other_t)
                ko(char_func_field=np.zeros_like(po), level_set_field=po)
                rec.count("other_precision_predecessors")
                if iw >= 4:
                    rec.count("other_precision_predecessors_equal_typed_width")
            except Exception as e:
                rec.note(f"other-precision predecessor failed: {type(e).__name__}: {e}")
        try:
            # the random widths are handed over as real_t scalars, the fixed ones as python floats
            k = gen(blend_width=(real_t(bw) if iw >= 4 else bw), real_t=real_t, num_threads=2)
            rec.count("heaviside_generators_width_as_real_t" if iw >= 4 else "heaviside_generators_width_as_python_float")
        except Exception as e:
            rec.violation("heaviside-generator-raises", f"blend_width={bw}: {type(e).__name__}: {e}")
            continue
        b = real_t(bw)
        bmax = max(float(b), bw)  # strictly beyond BOTH the exact and the rounded width
        edges = []
        for s in (-1, 1):
            c = real_t(s) * b
            edges += [np.nextafter(c, real_t(-np.inf)), c, np.nextafter(c, real_t(np.inf))]
        joints = [real_t(s * bw * (1 - h)) for s in (-1, 1) for h in (1 / 8, 1 / 16, 1 / 64)]
        for rep in range(6 if thorough else 2):
            shape = util.shape2d(rng, 6, 60) if d == 2 else util.shape3d(rng, 4, 16)
            if rep % 2 == 0:
                shape = tuple(sorted(shape, reverse=True))  # rep 0: first axis longest (tall); rep 1: as drawn
            rec.count("heaviside_shapes_first_axis_longer_than_x" if shape[0] > shape[-1] else "heaviside_shapes_x_longest_or_equal")
            n = int(np.prod(shape))
            meta = {"dim": d, "dtype": sh["dtype"], "shape": shape, "blend_width": bw}
            fixed = np.array(edges + joints + [0.0], dtype=real_t)
            kind = ("uniform", "near-edges")[rep % 2]
            if kind == "uniform":
                body = rng.uniform(-1.5, 1.5, n - fixed.size) * bw
            else:
                body = rng.choice([-1.0, 1.0], n - fixed.size) * bw * (1 + rng.standard_normal(n - fixed.size) * rng.choice([1e-2, 1e-5, 1e-7, 4 * eps], n - fixed.size))
            phi = np.sort(np.concatenate([fixed, body.astype(real_t)])).astype(real_t)
            # sortedness must be visible to the monitor only: the kernel sees a permuted array
            perm = rng.permutation(n)
            phi_in = np.ascontiguousarray(phi[perm].reshape(shape))
            v = lay.next()  # every third pair of calls: level set and output are non-contiguous views
            H = v(util.sentinel_like(rng, shape, real_t))
            Hm = v(util.sentinel_like(rng, shape, real_t))
            try:
                k(char_func_field=H, level_set_field=v(phi_in))
                k(char_func_field=Hm, level_set_field=v(np.ascontiguousarray(-phi_in)))
            except Exception as e:
                rec.violation("heaviside-raises", f"{type(e).__name__}: {e} {meta}", {"meta": meta})
                rec.case(None)
                continue
            runs = [(np.ascontiguousarray(H), np.ascontiguousarray(Hm), perm, phi_in, meta)]
            if rep == 0:
                # history of TEMPORARY views on this kernel object: four calls in a tight loop (phi, -phi, the same sorted values in
                # another cell order, its negative), level set and output of call j are stack[j] of one owning array each
                perm2 = rng.permutation(n)
                phi_in2 = np.ascontiguousarray(phi[perm2].reshape(shape))
                L = np.stack([phi_in, -phi_in, phi_in2, -phi_in2])
                O_ = util.sentinel_like(rng, L.shape, real_t).copy()
                try:
                    for j in range(4):
                        k(char_func_field=O_[j], level_set_field=L[j])
                except Exception as e:
                    rec.violation("heaviside-raises", f"history of temporary views: {type(e).__name__}: {e} {meta}", {"meta": meta})
                else:
                    rec.count("heaviside_calls_with_temporary_view_arguments", 4)
                    mh = {**meta, "history": "temporary views of different memory"}
                    runs += [(O_[0], O_[1], perm, phi_in, mh), (O_[2], O_[3], perm2, phi_in2, mh)]
            for H, Hm, perm, phi_in, meta in runs:
                rec.case((d, sh["dtype"], bw, kind) + (("temporary-view-history",) if "history" in meta else ()), sample=meta if rep == 0 and "history" not in meta else None, n=2)
                h = np.empty(n)
                hm = np.empty(n)
                h[perm] = H.reshape(-1).astype(np.float64)
                hm[perm] = Hm.reshape(-1).astype(np.float64)
                p = phi.astype(np.float64)
                rec.count("heaviside_cells", n)
                wit = {"meta": meta, "phi": phi_in, "H": H}
                if not (np.all(np.isfinite(h)) and np.all(np.isfinite(hm))):
                    rec.violation("heaviside-nonfinite", f"{meta}", wit)
                    continue
                r = float(max(np.max(-h), np.max(h - 1), np.max(-hm), np.max(hm - 1)) / (16 * eps))
                rec.stat("heaviside_range", r)
                if r > 1:
                    rec.violation("heaviside-outside-[0,1]", f"min {h.min()!r} max {h.max()!r} ({r:.3g} tol) {meta}", wit)
                dd = np.diff(h)
                r = float(np.max(-dd) / (16 * eps)) if dd.size else 0.0
                rec.stat("heaviside_monotone", r)
                if r > 1:
                    i = int(np.argmin(dd))
                    rec.violation("heaviside-decreasing", f"H({p[i]!r})={h[i]!r} > H({p[i + 1]!r})={h[i + 1]!r} {meta}", wit)
                beyond_hi = p > bmax
                beyond_lo = p < -bmax
                rec.count("heaviside_cells_beyond_width", int(beyond_hi.sum() + beyond_lo.sum()))
                if not (np.all(h[beyond_hi] == 1.0) and np.all(h[beyond_lo] == 0.0) and np.all(hm[beyond_hi] == 0.0) and np.all(hm[beyond_lo] == 1.0)):
                    rec.violation("heaviside-!=0|1-beyond-width", f"values strictly beyond the blend width are not exactly 0/1 {meta}", wit)
                r = float(np.max(np.abs(h + hm - 1.0)) / (16 * eps))
                rec.stat("heaviside_symmetry", r)
                if r > 1:
                    i = int(np.argmax(np.abs(h + hm - 1.0)))
                    rec.violation("heaviside-H(phi)+H(-phi)!=1", f"phi={p[i]!r}: H={h[i]!r} H(-phi)={hm[i]!r} {meta}", wit)
                # edge probes: +-width exactly and one ulp either side
                for e in edges:
                    i = int(np.searchsorted(phi, e))
                    assert phi[i] == e
                    want = 0.0 if e < 0 else 1.0
                    rec.count("heaviside_edge_probes")
                    rr = abs(h[i] - want) / (16 * eps)
                    rec.stat("heaviside_edge", rr)
                    if rr > 1:
                        rec.violation("heaviside-edge-value", f"H({float(e)!r}) = {h[i]!r}, expected {want} to rounding {meta}", wit)
                # smooth joints: H(-w + h) <= 2 (h/w)^2, 1 - H(w - h) <= 2 (h/w)^2
                for jv in joints:
                    i = int(np.searchsorted(phi, jv))
                    x = 1.0 - abs(float(jv)) / bw
                    dev = h[i] if jv < 0 else 1.0 - h[i]
                    rec.count("heaviside_joint_probes")
                    rr = dev / (2 * x * x + 16 * eps)
                    rec.stat("heaviside_joint", rr)
                    # informational only: the property states monotonicity, range, the 0/1 plateaus and H(phi)+H(-phi)=1; C1 smoothness at
                    # the joints is NOT part of the statement, so a failing ratio here is recorded (stat "heaviside_joint") but never a verdict
                    # (the exact sine-Heaviside formula is C13's business).
                    if rr > 1:
                        rec.count("heaviside_joint_not_C1_informational")


# ------------------------------------------------------------------------------------------------
# (c) boundary-zone damping
# ------------------------------------------------------------------------------------------------
def _damp_pool(d, w, thorough):
    """fixed (shape, dx) pool: the kernels bake width, dx and the grid extent, so a seed-dependent
    pool would recompile ~5 s per case"""
    m = 2 * w + 3
    if d == 2:
        pool = [((m, m + 4), 0.1)]
        if thorough:
            pool += [((m + 9, m), 1.0 / 64), ((m + 2, m + 21), 0.37 / 40)]
    else:
        pool = [((m, m + 1, m + 4), 0.1)]
        if thorough:
            pool += [((m + 5, m, m + 2), 1.0 / 64)]
    return pool


def _dist(shape):
    idx = np.indices(shape)
    return np.minimum.reduce([np.minimum(idx[a], shape[a] - 1 - idx[a]) for a in range(len(shape))])


def _damp_fields(rng, shape, dist, w, real_t, lead=()):
    full = tuple(lead) + tuple(shape)
    n = lambda s: rng.standard_normal(full) * s
    edge = dist == max(w - 1, 0)
    out = [("noise", n(10))]
    a = n(1e3)
    a[..., edge] = rng.standard_normal((*lead, int(edge.sum()))) * 1e-2
    out.append(("edge-small", a))
    a = np.zeros(full)
    a[..., edge] = rng.standard_normal((*lead, int(edge.sum()))) * 4
    out.append(("edge-only", a))
    a = n(1.0)
    if w >= 2:  # everything in the zone except its inner edge is huge: must be discarded by the broadcast
        zi = dist < w - 1
        a[..., zi] = rng.standard_normal((*lead, int(zi.sum()))) * 1e6
    else:  # w in (0, 1): the ring is its own inner edge; huge values just inside the domain
        a[..., dist == 1] *= 1e6
    out.append(("zone-big", a))
    out.append(("const", np.full(full, float(rng.standard_normal()) + 2.0)))
    return [(k, np.ascontiguousarray(v.astype(real_t))) for k, v in out]


def _damp_jobs(d, widths, thorough):
    """(width, shape, dx, role, variants).  pool: the fixed pool of each width.  Quick tier additionally: one TALL (2-D:
    grid_size_y > grid_size_x) / axis-permuted (3-D) grid per shard; then SIBLING kernels that share grid shape and
    precision with the last pool kernel of the shard but differ in width resp. in dx (a generator cache keyed by shape and
    precision only), and finally the last pool kernel object once more ("first-again")."""
    variants = ["scalar"] if d == 2 else ["scalar", "vector"]
    jobs = []
    for w in widths:
        for shape, dx in _damp_pool(d, w, thorough):
            jobs.append((w, shape, dx, "pool", variants))
    if not thorough:
        wt = 2 if widths[0] == 0 else 5
        m = 2 * wt + 3
        if d == 2:
            shape_t = (m + 5, m)
        else:
            shape_t = (m + 4, m, m + 1) if wt == 2 else (m + 1, m + 4, m)
        jobs.append((wt, shape_t, 0.1, "tall", variants))
    wl = widths[-1]
    shape_l, dx_l = _damp_pool(d, wl, thorough)[0]
    jobs.append((wl - 1, shape_l, dx_l, "sibling-width", variants[:1]))
    jobs.append((wl, shape_l, 0.37 / 40, "sibling-dx", variants[:1]))
    # same width, shape, spacing, precision and thread count as the first pool kernel, but ANOTHER grid origin (kernels bake the
    # first/last cell-centre coordinates in: a generator cache keyed without them serves the wrong constants)
    jobs.append((wl, shape_l, dx_l, "sibling-origin", variants[:1]))
    jobs.append((wl, shape_l, dx_l, "first-again", variants[:1]))
    return jobs


def _damp_frac(d, role, ijob):
    """per-axis origin offsets (fractions of the axis length, array-axis order (z,) y, x).  Pool jobs of even index (and the siblings
    of the last pool kernel) use the common origin 0 for every axis (cell centres from dx/2); the others give every axis its OWN
    origin -- x from 0, y from -0.37 L_y, z centred about 0 -- so that an x/y/z grid start or end taken from the wrong coordinate
    field shows.  Offsets stay inside the extent (|coordinate| <= L), hence the rounding model of the ring tolerance is unchanged."""
    distinct = (role == "pool" and ijob % 2 == 1) or role == "tall" or role == "sibling-origin"
    frac = ([-0.37, 0.0] if d == 2 else [-0.5, -0.37, 0.0]) if distinct else [0.0] * d
    if role == "sibling-origin":
        frac = [0.4, -0.13] if d == 2 else [0.21, 0.4, -0.13]
    return distinct, frac


def _damp_grid(shape, dx, frac, real_t):
    axes = [((np.arange(n) + 0.5) * dx + fr * n * dx).astype(real_t) for n, fr in zip(shape, frac)]
    return [np.ascontiguousarray(a) for a in np.meshgrid(*axes, indexing="ij")][::-1]  # x, y(, z)


def _damp_gen(spne, d, w, dx_arg, g, real_t, var):
    if d == 2:
        return spne.gen_penalise_field_boundary_pyst_kernel_2d(width=w, dx=dx_arg, x_grid_field=g[0], y_grid_field=g[1], real_t=real_t, num_threads=2)
    return spne.gen_penalise_field_boundary_pyst_kernel_3d(width=w, dx=dx_arg, x_grid_field=g[0], y_grid_field=g[1], z_grid_field=g[2], real_t=real_t, num_threads=2, field_type=var)


def _damp(sh, rec):
    import sopht.numeric.eulerian_grid_ops as spne

    d = sh["dim"]
    real_t = util.DT[sh["dtype"]]
    eps = util.eps(real_t)
    rng = util.rng_for(sh["seed"], ID, sh["name"])
    thorough = sh["tier"] != "quick"
    kept = {}
    jobs = _damp_jobs(d, sh["widths"], thorough)
    lay = _Layout(rng, rec, "damping_calls_on_noncontiguous_field_views")
    # predecessor of the OTHER precision: the first pool kernel of width >= 2 with the same width, grid shape, spacing, origins, thread
    # count and field type, generated and called once before any kernel of this shard exists
    other_t = _other(real_t)
    for ijob, (w, shape, dx, role, variants) in enumerate(jobs):
        if w >= 2 and role == "pool":
            try:
                ko = _damp_gen(spne, d, w, other_t(dx), _damp_grid(shape, dx, _damp_frac(d, role, ijob)[1], other_t), other_t, variants[0])
                ko(field=(rng.standard_normal(shape) * 10).astype(other_t))
                rec.count("other_precision_predecessors")
            except Exception as e:
                rec.note(f"other-precision predecessor failed: {type(e).__name__}: {e}")
            break
    for ijob, (w, shape, dx, role, variants) in enumerate(jobs):
            distinct, frac = _damp_frac(d, role, ijob)
            if role == "sibling-origin":
                rec.count("damping_calls_sibling_origin")
            g = _damp_grid(shape, dx, frac, real_t)
            if role in ("tall", "sibling-dx"):
                # the coordinate fields handed to the generator are non-contiguous views of the same values
                g = [util.noncontiguous_copy(rng, a) for a in g]
                rec.count("damping_kernels_from_noncontiguous_coordinate_fields")
            for var in variants:
                meta = {"dim": d, "dtype": sh["dtype"], "shape": shape, "dx": dx, "width": w, "variant": var, "object": role, "axis_origin_fractions": frac}
                if role == "first-again":
                    k = kept.get((w, shape, dx, var))
                    if k is None:
                        continue
                else:
                    # dx as real_t (what the simulators pass); the dx sibling gets a python float
                    dx_arg = float(real_t(dx)) if role == "sibling-dx" else real_t(dx)
                    try:
                        k = _damp_gen(spne, d, w, dx_arg, g, real_t, var)
                    except Exception as e:
                        mech = "boundary-damping-generator-raises"
                        rec.violation(mech, f"{type(e).__name__}: {e} {meta}", {"meta": meta})
                        rec.case(None)
                        continue
                    if role == "pool":
                        kept[(w, shape, dx, var)] = k
                if role != "pool":
                    rec.count("damping_kernels_" + role.replace("-", "_"))
                dist = _dist(shape)
                zone = dist < w
                ring = dist == 0
                edge = dist == w - 1
                lead = (3,) if var == "vector" else ()
                fields = _damp_fields(rng, shape, dist, w, real_t, lead)
                if role.startswith("sibling") or role == "first-again":
                    fields = fields[:1] + fields[3:4]  # noise, zone-big

                def count_call():
                    rec.count("damping_calls")
                    rec.count("damping_calls_distinct_origin_per_axis" if distinct else "damping_calls_common_origin")
                    rec.count(f"damping_width{w}_calls" if w < 2 else "damping_widthge2_calls")
                    if role != "pool":
                        rec.count("damping_calls_" + role.replace("-", "_"))

                def call(f):
                    if var == "vector":
                        k(vector_field=f)
                    else:
                        k(field=f)

                def judge(kind, f0, f, meta, tag=()):
                    """f0: field before, f: field after the real kernel (both contiguous)"""
                    rec.case((d, sh["dtype"], var, w, kind, role, *tag), sample={**meta, "field": kind} if kind == "noise" and not tag else None)
                    if w >= 2:
                        rec.count(f"damping_w{w}_seen")
                    wit = {"meta": meta, "kind": kind, "before": f0, "after": f}
                    if not np.all(np.isfinite(f.astype(np.float64))):
                        rec.violation("damping-nonfinite", f"{kind} {meta}", wit)
                        return
                    # 1. outside the zone: bitwise
                    out_ok = util.bits_equal(f[..., ~zone], f0[..., ~zone])
                    rec.count("damping_outside_cells_bitwise", int((~zone).sum()) * max(1, len(lead) and 3))
                    if not out_ok:
                        bad = np.argwhere((f != f0) & ~zone)
                        rec.violation("damping-outside-zone-changed", f"{kind}: {len(bad)} cells outside the zone changed, first {bad[0].tolist() if len(bad) else '?'} {meta}", wit)
                    if w == 0:
                        return
                    A = np.abs(f.astype(np.float64)).reshape((-1, *shape))
                    A0 = np.abs(f0.astype(np.float64)).reshape((-1, *shape))
                    for c in range(A.shape[0]):
                        M = float(A0[c][edge].max())
                        rec.count("damping_zone_cells", int(zone.sum()))
                        # 2. outermost ring == 0 up to rounding of the sine argument
                        tol_ring = 8 * eps * (np.pi / 2) * (max(shape) / w) * M + 1e-300
                        r = float(A[c][ring].max() / tol_ring)
                        rec.stat("damping_ring", r)
                        if r > 1:
                            rec.violation("damping-ring!=0", f"{kind}: max |ring| = {A[c][ring].max()!r} with inner-edge max {M!r} ({r:.3g} tol) {meta}", wit)
                        # 3. zone bounded by the inner edge
                        zmax = float(A[c][zone].max())
                        r = (zmax - M) / (4 * eps * M + 1e-300)
                        rec.stat("damping_zone_bound", r)
                        if r > 1:
                            i = np.unravel_index(int(np.argmax(np.where(zone, A[c], -1.0))), shape)
                            rec.violation("damping-zone>inner-edge-max", f"{kind}: zone cell {tuple(int(x) for x in i)} = {zmax!r} > inner-edge max {M!r} {meta}", wit)

                for kind, f0 in fields:
                    # every third call: the field to be damped is a non-contiguous view (halo interior / every second cell / column-major)
                    f = lay.next()(f0.copy())
                    count_call()
                    try:
                        call(f)
                    except Exception as e:
                        mech = "boundary-damping-width1-raises" if w == 1 else "boundary-damping-raises"
                        rec.violation(mech, f"{type(e).__name__}: {e} {meta}", {"meta": meta, "field": f0})
                        rec.case((d, sh["dtype"], var, w, kind, "raises"))
                        continue
                    judge(kind, f0, np.ascontiguousarray(f), meta)
                if role in ("pool", "tall"):
                    # history of TEMPORARY views on this kernel object: the fields of three snapshots live in one owning array, call j
                    # damps the view stack[j] (a fresh view object per call whose id() CPython recycles); judged afterwards
                    sel = [fields[j] for j in (0, 3, 1)]
                    S0 = np.stack([f_ for _, f_ in sel])
                    S = S0.copy()
                    try:
                        for j in range(3):
                            call(S[j])
                    except Exception as e:
                        mech = "boundary-damping-width1-raises" if w == 1 else "boundary-damping-raises"
                        rec.violation(mech, f"history of temporary views: {type(e).__name__}: {e} {meta}", {"meta": meta})
                        continue
                    for j in range(3):
                        count_call()
                        rec.count("damping_calls_on_temporary_views")
                        judge(sel[j][0], S0[j], S[j], {**meta, "history_call": f"{j + 1} of 3 on temporary views of different memory"}, ("temporary-view-history",))


# ------------------------------------------------------------------------------------------------
# (d) Laplacian filters
# ------------------------------------------------------------------------------------------------
def _symbol(m, order, ftype):
    s = [np.sin(np.pi * mi / 16.0) ** 2 for mi in m]  # k = pi m / 8, s = sin^2(k/2)
    if ftype == "multiplicative":
        return 1.0 - (s[0] * s[1] * s[2]) ** order
    return float(np.prod([1.0 - x**order for x in s]))


def _wave(m, phase, X, Y, Z, amp):
    q = (m[0] * X + m[1] * Y + m[2] * Z) % 16  # integer phase: k.j = pi q / 8 (mod 2 pi)
    tab = (np.cos if phase == "cos" else np.sin)(np.pi * np.arange(16) / 8.0)
    # exact zeros/ones of the table
    tab[np.abs(tab) < 1e-15] = 0.0
    return amp * tab[q]


class _SophtRaised(Exception):
    pass


def _garbage(rng, bufs, kind):
    for b in bufs:
        if kind == "finite":
            b[...] = (rng.standard_normal(b.shape) * 1e6).astype(b.dtype)
        elif kind == "nan":
            b[...] = util.sentinel_like(rng, b.shape, b.dtype)
        else:
            b[...] = 0


def _filter(sh, rec):
    import sopht.numeric.eulerian_grid_ops as spne

    real_t = util.DT[sh["dtype"]]
    eps = util.eps(real_t)
    ftype = sh["ftype"]
    rng = util.rng_for(sh["seed"], ID, sh["name"])
    thorough = sh["tier"] != "quick"
    lattice = list(itertools.product(range(9), repeat=3))
    even = [m for m in lattice if all(x % 2 == 0 for x in m)]
    recheck_prev = None  # closure re-checking the PREVIOUS filter object after the next one was generated and used
    prev_shape = None
    lay = _Layout(rng, rec, "filter_calls_on_noncontiguous_field_views")
    other_t = _other(real_t)
    nobj = 0
    for order in sh["orders"]:
        for var in ("scalar", "vector"):
            nobj += 1
            shape = util.shape3d(rng, 2 * order + 6, 2 * order + 14)
            if var == "vector" and order % 2 == 1:
                # sibling object: SAME grid shape, precision, order and type as the scalar filter generated just before, other
                # field_type and its own work buffers
                shape = prev_shape
                rec.count("filter_objects_sharing_shape_with_previous_object")
            prev_shape = shape
            rec.count("filter_shapes_first_axis_longer_than_x" if shape[0] > shape[-1] else "filter_shapes_x_longest_or_equal")
            meta = {"dtype": sh["dtype"], "type": ftype, "order": order, "variant": var, "shape": shape}
            if nobj == 1:
                # predecessor of the OTHER precision: same order, type, field type, thread count and grid shape (own work buffers),
                # generated and called once before the first filter object of this shard exists
                try:
                    fo = spne.gen_laplacian_filter_kernel_3d(filter_order=order, filter_flux_buffer=np.zeros(shape, other_t), field_buffer=np.zeros(shape, other_t), real_t=other_t, num_threads=2, field_type=var, filter_type=ftype)
                    fo(scalar_field=rng.standard_normal(shape).astype(other_t))
                    rec.count("other_precision_predecessors")
                except Exception as e:
                    rec.note(f"other-precision predecessor failed: {type(e).__name__}: {e}")
            fb = np.empty(shape, real_t)
            bb = np.empty(shape, real_t)
            if nobj % 3 == 2:
                # the two work buffers bound at generation are NON-contiguous views (scratch carved out of a larger allocation)
                fb = util.noncontiguous_copy(rng, fb)
                bb = util.noncontiguous_copy(rng, bb)
                rec.count("filter_objects_with_noncontiguous_work_buffers")
            _garbage(rng, (fb, bb), "finite")
            try:
                filt = spne.gen_laplacian_filter_kernel_3d(filter_order=order, filter_flux_buffer=fb, field_buffer=bb, real_t=real_t, num_threads=2, field_type=var, filter_type=ftype)
            except Exception as e:
                rec.violation("filter-generator-raises", f"{type(e).__name__}: {e} {meta}", {"meta": meta})
                continue
            nc = 3 if var == "vector" else 1
            full = (3, *shape) if var == "vector" else shape
            gi = [0]

            def apply(a):
                """run the real filter on a copy with fresh garbage in both work buffers"""
                gi[0] += 1
                _garbage(rng, (fb, bb), ("finite", "nan")[gi[0] % 2])  # whole arrays, OUTER RING included, before EVERY call
                if gi[0] >= 2:
                    rec.count("filter_calls_2nd_or_later_with_dirty_buffer_rings")
                # every third call: the field to be filtered is a non-contiguous view of the same values
                g = lay.next()(np.ascontiguousarray(a.astype(real_t)))
                call(g)
                return np.ascontiguousarray(g)

            def call(g):
                try:
                    if var == "vector":
                        filt(vector_field=g)
                    else:
                        filt(scalar_field=g)
                except Exception as e:
                    raise _SophtRaised(f"{type(e).__name__}: {e}") from e

            base = (sh["dtype"], ftype, order, var)
            r_ = order + 1
            I = (Ellipsis, *([slice(r_, -r_)] * 3))
            Z, Y, X = np.meshgrid(*[np.arange(n) for n in shape], indexing="ij")

            def recheck(filt=filt, fb=fb, bb=bb, full=full, nc=nc, I=I, X=X, Y=Y, Z=Z, order=order, var=var, meta=meta, shape=shape, base=base):
                """constant + two plane waves through THIS filter object, called after a LATER object was generated and used
                (everything bound at definition time: the enclosing loop variables have moved on by then)"""

                def apply(a):
                    _garbage(rng, (fb, bb), "finite")
                    g = np.ascontiguousarray(a.astype(real_t))
                    try:
                        if var == "vector":
                            filt(vector_field=g)
                        else:
                            filt(scalar_field=g)
                    except Exception as e:
                        raise _SophtRaised(f"{type(e).__name__}: {e}") from e
                    return g

                a = np.full(full, -3.3, real_t)
                g = apply(a)
                rec.count("filter_rechecks_of_earlier_object")
                rec.case((*base, "const", "earlier-object"))
                if not util.bits_equal(g, a):
                    rec.violation("filter-constant-not-fixed", f"constant -3.3 (earlier filter object used after a later one was generated): {util.nbits_differ(g, a)} bytes differ {meta}", {"meta": meta, "out": g})
                for m in ((2, 4, 6), (8, 3, 1)):
                    amp = 3.7
                    mm = [m] * nc
                    a = np.stack([_wave(mi, "cos", X, Y, Z, amp) for mi in mm]).reshape(full)
                    g = apply(a)
                    G = g.astype(np.float64).reshape((nc, *shape))
                    Aq = a.reshape((nc, *shape))
                    rec.count("filter_plane_waves", nc)
                    rec.case((*base, "wave", "earlier-object"))
                    for c in range(nc):
                        sym = _symbol(mm[c], order, ftype)
                        tol = 8 * eps * (3 + order) * amp
                        e = np.abs(G[c][I[1:]] - sym * Aq[c][I[1:]])
                        r = float(np.max(e) / tol) if np.all(np.isfinite(e)) else float("inf")
                        rec.stat("filter_symbol", r)
                        if not (r <= 1):
                            rec.violation("filter-symbol", f"m={mm[c]} (cos) k=pi*m/8 through an EARLIER filter object after a later one was generated: interior output differs from symbol {sym:.6g} x input by {r:.3g} tol {meta}", {"meta": meta, "m": mm[c], "in": a, "out": g})

            try:
                # 1. constants: fixed, bitwise, whole array (ring included)
                for cval in (0.0, 1.0, -3.3, float(rng.standard_normal() * 1e3), float(rng.standard_normal() * 1e-3)):
                    a = np.full(full, cval, real_t)
                    g = apply(a)
                    rec.count("filter_constants_bitwise")
                    rec.case((*base, "const"))
                    if not util.bits_equal(g, a):
                        rec.violation("filter-constant-not-fixed", f"constant {cval!r}: {util.nbits_differ(g, a)} bytes differ {meta}", {"meta": meta, "c": cval, "out": g})
                # 2. checkerboard
                for amp in (1.0, float(np.abs(rng.standard_normal()) + 0.1) * 7):
                    cb = np.where((X + Y + Z) % 2 == 0, 1.0, -1.0) * amp
                    a = np.broadcast_to(cb, full) * (np.array([1.0, -0.5, 2.0])[:nc].reshape((nc, 1, 1, 1)) if var == "vector" else 1.0)
                    g = apply(a)
                    rec.count("filter_checkerboards")
                    rec.case((*base, "checker"))
                    r = float(np.max(np.abs(g[I].astype(np.float64))) / (4 * eps * amp))
                    rec.stat("filter_checkerboard", r)
                    if not (r <= 1):
                        rec.violation("filter-checkerboard-not-annihilated", f"max interior |out| = {np.max(np.abs(g[I]))!r} for amplitude {amp!r} {meta}", {"meta": meta, "out": g})
                # 3. plane waves
                if var == "scalar":
                    ms = lattice if thorough else even + [lattice[int(i)] for i in rng.choice(len(lattice), size=60, replace=False)]
                else:
                    ms = [lattice[int(i)] for i in rng.choice(len(lattice), size=240 if thorough else 24, replace=False)]
                for j, m in enumerate(ms):
                    for phase in ("cos", "sin"):
                        amp = float(rng.choice([1.0, 3.7, 1e-3, 250.0]))
                        mm = [m] if var == "scalar" else [m, ms[(j + 1) % len(ms)], ms[(j + 7) % len(ms)]]
                        a = np.stack([_wave(mi, phase, X, Y, Z, amp) for mi in mm]).reshape(full)
                        g = apply(a)
                        G = g.astype(np.float64).reshape((nc, *shape))
                        Aq = a.reshape((nc, *shape))
                        rec.count("filter_plane_waves", nc)
                        rec.case((*base, "wave", "dc" if m == (0, 0, 0) else "nyquist" if m == (8, 8, 8) else "axis" if sorted(m)[1] == 0 else "generic"), sample={**meta, "m": m, "phase": phase} if j == 5 and phase == "cos" else None)
                        for c in range(nc):
                            sym = _symbol(mm[c], order, ftype)
                            if not (-1e-15 <= sym <= 1 + 1e-15):
                                rec.violation("filter-symbol-outside-[0,1]", f"predicted symbol {sym!r} for m={mm[c]} {meta}", {"meta": meta})
                            tol = 8 * eps * (3 + order) * amp
                            e = np.abs(G[c][I[1:]] - sym * Aq[c][I[1:]])
                            r = float(np.max(e) / tol) if np.all(np.isfinite(e)) else float("inf")
                            rec.stat("filter_symbol", r)
                            if not (r <= 1):
                                rec.violation("filter-symbol", f"m={mm[c]} ({phase}) k=pi*m/8: interior output differs from symbol {sym:.6g} x input by {r:.3g} tol {meta}", {"meta": meta, "m": mm[c], "phase": phase, "in": a, "out": g})
                            big = np.abs(Aq[c][I[1:]]) >= 0.5 * amp
                            if big.any():
                                ratio = G[c][I[1:]][big] / Aq[c][I[1:]][big]
                                sl = tol / (0.5 * amp)
                                rec.count("filter_amplification_cells", int(big.sum()))
                                if ratio.min() < -sl or ratio.max() > 1 + sl:
                                    rec.violation("filter-amplification-outside-[0,1]", f"m={mm[c]}: measured amplification in [{ratio.min()!r}, {ratio.max()!r}] {meta}", {"meta": meta, "m": mm[c]})
                # 3b. history of TEMPORARY views on this filter object: four plane waves live in one owning array, call j filters the
                # view stack[j] (a fresh view object per call whose id() CPython recycles; work buffers dirtied once before the loop);
                # judged afterwards against the same symbols at the same tolerance
                K = 4
                hm_ = [[lattice[int(i)] for i in rng.choice(len(lattice), size=nc, replace=False)] for _ in range(K)]
                hamp = [float(rng.choice([1.0, 3.7, 250.0])) for _ in range(K)]
                A_ = np.stack([np.stack([_wave(mi, ("cos", "sin")[j % 2], X, Y, Z, hamp[j]) for mi in hm_[j]]).reshape(full) for j in range(K)])
                S_ = np.ascontiguousarray(A_.astype(real_t))
                _garbage(rng, (fb, bb), "finite")
                for j in range(K):
                    call(S_[j])
                rec.count("filter_calls_on_temporary_views", K)
                for j in range(K):
                    G = S_[j].astype(np.float64).reshape((nc, *shape))
                    Aq = A_[j].reshape((nc, *shape))
                    rec.count("filter_plane_waves", nc)
                    rec.case((*base, "wave", "temporary-view-history"))
                    for c in range(nc):
                        sym = _symbol(hm_[j][c], order, ftype)
                        tol = 8 * eps * (3 + order) * hamp[j]
                        e = np.abs(G[c][I[1:]] - sym * Aq[c][I[1:]])
                        r = float(np.max(e) / tol) if np.all(np.isfinite(e)) else float("inf")
                        rec.stat("filter_symbol", r)
                        if not (r <= 1):
                            rec.violation("filter-symbol", f"m={hm_[j][c]} k=pi*m/8, call {j + 1} of {K} on temporary views of different memory: interior output differs from symbol {sym:.6g} x input by {r:.3g} tol {meta}", {"meta": meta, "m": hm_[j][c], "in": A_[j], "out": S_[j]})
                # 4. history independence: same input, three different buffer garbages, identical bytes
                for kind in ("noise", "big", "checker", "spikes"):
                    a = util.field(rng, full, kind, real_t)
                    outs = []
                    for gk in ("finite", "nan", "zero", "finite"):
                        _garbage(rng, (fb, bb), gk)
                        g = a.copy()
                        call(g)
                        if gk != "zero":
                            rec.count("filter_calls_2nd_or_later_with_dirty_buffer_rings")
                        outs.append(g)
                    rec.count("filter_history_bitwise")
                    rec.case((*base, "history", kind))
                    same = all(util.bits_equal(outs[0], o) for o in outs[1:])
                    if not same:
                        nb = max(util.nbits_differ(outs[0], o) for o in outs[1:])
                        rec.violation("filter-depends-on-buffer-garbage", f"{kind}: outputs differ in {nb} bytes between runs that differ only in the prior contents of filter_flux_buffer / field_buffer {meta}", {"meta": meta, "in": a, "outs": outs})
                    if not np.all(np.isfinite(outs[0].astype(np.float64))):
                        rec.violation("filter-nonfinite", f"{kind} {meta}", {"meta": meta, "in": a})
                # the previous filter object (other order / field type, possibly the same shape) once more, now that this one exists
                if recheck_prev is not None:
                    recheck_prev()
            except _SophtRaised as e:
                rec.violation("filter-raises", f"{e} {meta}", {"meta": meta})
            recheck_prev = recheck
