"""C20 — time-stepping kernels realise their nominal integration scheme (DESIGN §4 C20).

Oracle: the polynomial in the LIBRARY'S OWN flux kernel, obtained from the public flux generator
(``gen_*_flux_*``) and combined in float64.  The expected value never contains a stage weight or a
step fraction of the time-step kernel, so a wrong weight cannot be reproduced in it.

  diffusion Euler (2-D, 3-D scalar, 3-D vector)   new == f + D(f; nu dt/dx^2)
  vortex-stretching Euler (3-D)                   new == w + A w,          A x = S(x, u; dt/(2dx))
  advection Euler (2-D, 3-D scalar, 3-D vector)   new == f - (dt/dx) G(f, u; inv_dx = 1)
        (G = conservative ENO3 flux divergence accumulated into a zeroed buffer, i.e. d f/dt = -div(u f)
         read through the public interface; additionally the tight form new == f + G(f, u; -dt/dx))
  vortex-stretching SSP-RK3 (3-D)                 new == (I + A + A^2/2 + A^3/6) w,   a1 = A w, a2 = A a1, a3 = A a2

The flux and mid-step buffers handed to the time-step kernels are pre-loaded with garbage (payload
NaNs in one execution, large random numbers in a second one): the result must be finite and bitwise
the same (``*-depends-on-buffer-garbage``).

Workload diversity (added after the seeded-change campaign): per shape ONE scratch flux array object serves all ten
executions (refilled with payload NaNs / large numbers, ring included, before each call), so the 2nd, 3rd, ... call on an
already-seen array object is exercised; the step prefactor is real_t in the first and a python float of the same value in
the second execution of each pair (bitwise agreement demanded); two SSP-RK3 shapes per shard get a SIBLING kernel object
(same shape and precision, its own mid-step buffer) followed by the first kernel object again.

Self-test of the added dimension: diffusion_flux_2d.py:70 ghost-ring reset of the flux performed only the first time an array object (id) is seen (sed) ->
VIOLATION diffusion-euler-depends-on-buffer-garbage.

Noise floors (measured headroom >= 10x, see ``max err/tol`` in the evidence):
  Euler, same prefactor            8 eps (|f|max + |flux|max)               one rounding of the sum
  advection through inv_dx = 1     16 eps (|f|max + |dt/dx| 2d (4/3) max|f u|)   face-flux magnitudes
  SSP-RK3 / stretching             32 eps |w|max (1 + b + b^2 + b^3),   b = 3 h max|u(+1) - u(-1)| >= ||A||_inf

Known genuine defect on the pinned tree (F5, stays OPEN: the repository's own test transcribes the same
coefficient): the third SSP-RK3 stage advances by dt/2, the kernel returns
(I + 2A/3 + A^2/3 + A^3/12) w.  Reported under the mechanism key
``ssprk3==I+2A/3+A^2/3+A^3/12`` ONLY when the output matches that polynomial to the noise floor (and
does not match the nominal one); every other deviation of the SSP-RK3 kernel is ``ssprk3!=nominal``.
With /verif/fixes/F5-not-applied.diff the kernel is nominal and the check is silent.

Self-test (tools/mut.sh, quick tier, seed 0):
  pinned tree (F5 present): only mechanism ssprk3==I+2A/3+A^2/3+A^3/12, seeds 0..5 quick and 0 thorough (every SSP-RK3 case
        in which the two polynomials differ by more than the floor; in the few others A w ~ 0 and both match)
  F5-not-applied.diff (nominal kernel)                                   -> HELD
  advection 2-D / 3-D: inv_dx=-dt_by_dx -> inv_dx=dt_by_dx (sign)           -> advection-euler!=field-dt/dx*flux, ...!=field+flux(-dt/dx)
  advection 3-D vector: z component stepped from the x component          -> advection-euler!=field-dt/dx*flux
  advection 2-D: reset of the flux buffer dropped                         -> advection-euler-depends-on-buffer-garbage
  diffusion 2-D: flux added twice (second elementwise sum)                -> diffusion-euler!=field+flux
  diffusion 3-D: prefactor doubled / vector variant y := x component      -> diffusion-euler!=field+flux
  stretching Euler: prefactor halved                                      -> stretching-euler!=field+flux
  SSP-RK3 weights (0.75,0.25)->(0.25,0.75)   [pinned tree and nominal]    -> ssprk3!=nominal
  SSP-RK3 weights (1/3,2/3)->(2/3,1/3)       [pinned tree and nominal]    -> ssprk3!=nominal
  SSP-RK3 second stage flux from the original field [pinned and nominal]  -> ssprk3!=nominal (on the pinned tree the
        cases with ||A|| <~ 1e-3 in float32 still match the F5 polynomial to the floor; the larger steps do not)
  SSP-RK3 third stage with dt/4 instead of dt/2                           -> ssprk3!=nominal (not mistaken for F5)
"""
import numpy as np

from .. import util

ID = "C20"
LEVEL = "exploration"
TECHNIQUE = "runtime monitoring: polynomial-in-the-library's-own-flux-kernel oracle (I+A, I+A+A^2/2+A^3/6) at the noise floor + bitwise scratch-garbage differential; known finding classified by matching the specific polynomial"
TITLE = "Time-stepping kernels realise their nominal integration scheme"
RULE = (
    "per kernel family (advection 2-D / 3-D scalar / 3-D vector, diffusion 2-D / 3-D scalar / 3-D vector, vortex "
    "stretching Euler and SSP-RK3) and precision: random non-square/non-cubic shapes (>= 5 cells per axis, incl. "
    "minimal slabs), fields noise / spikes / checkerboard / smooth / big, velocities noise / smooth / mixed with "
    "amplitudes 1e-2..1e2, step prefactors log-uniform over three decades (scaled by the velocity amplitude so "
    "that ||A|| spans 1e-3..3), garbage in the flux and mid-step buffers, two executions per case.  Non-trivial: "
    "flux not identically zero; distinct = (family, variant, dtype, field kind, velocity kind, step decade)."
)
ASSUMPTIONS = [
    "the public flux kernels are the definition of flux(field) (their own correctness is C01/C05/C13's subject)",
    "polynomial evaluated in float64 from working-precision flux outputs; floor K eps (sum of term magnitudes), K = 8/16/32",
    "the F5 classifier compares with (I + 2A/3 + A^2/3 + A^3/12) w built from the same flux outputs",
]
REQUIRE = {
    "euler_advection_cases": 40,
    "euler_diffusion_cases": 40,
    "euler_stretching_cases": 20,
    "ssprk3_cases": 40,
    "ssprk3_cases_where_A3_term_above_floor": 10,
    "ssprk3_cases_where_F5_polynomial_distinguishable": 30,
    "vector_variant_cases": 20,
    "garbage_buffer_pairs_bitwise": 100,
    "cells_compared": 50000,
    "calls_on_reused_scratch_object": 400,
    "scalar_args_python_float": 200,
    "scalar_args_real_t": 200,
    "shapes_first_axis_longer_than_x": 10,
    "shapes_x_longest_or_equal": 10,
    "ssprk3_cases_sibling_kernel_same_shape": 4,
    "ssprk3_cases_first_kernel_after_sibling": 4,
}
FAMILIES = ("adv2d", "adv3d", "diff2d", "diff3d", "vs-euler", "vs-rk3", "vs-rk3")
F5_KEY = "ssprk3==I+2A/3+A^2/3+A^3/12"
FIELD_KINDS = ("noise", "spikes", "checker", "smooth", "big")
VEL_KINDS = ("noise", "smooth", "mixed")


def shards(tier, seed):
    rep = 1 if tier == "quick" else 3
    out = []
    for r in range(rep):
        for i, fam in enumerate(FAMILIES):
            for dt in ("float32", "float64"):
                out.append({"name": f"{fam}-{dt}-{r}-{i}", "family": fam, "dtype": dt, "idx": 10 * r + i})
    return out


def _velocity(rng, d, shape, kind, real_t, amp):
    if kind == "noise":
        v = rng.standard_normal((d, *shape))
    elif kind == "smooth":
        v = np.stack([util.field(rng, shape, "smooth", np.float64) for _ in range(d)])
    else:  # smooth + noise, non-zero mean: both upwind branches and sign changes
        v = np.stack([util.field(rng, shape, "smooth", np.float64) for _ in range(d)]) + 0.3 * rng.standard_normal((d, *shape)) + rng.uniform(-1, 1, size=(d,) + (1,) * d)
    return np.ascontiguousarray((amp * v).astype(real_t))


def _garbage(rng, shape, real_t, which):
    if which == 0:
        return util.sentinel_like(rng, shape, real_t)
    return (1e6 * rng.standard_normal(shape)).astype(real_t)


def _shape(rng, d, k, tier):
    hi = (40 if d == 2 else 14) if tier == "quick" else (64 if d == 2 else 20)
    if k == 0:
        s = [5] * (d - 1) + [int(rng.integers(5, 12))]
        rng.shuffle(s)
        return tuple(s)
    if k == 1:
        # one long axis (34..70 cells), thin other axes: slab-wise / cache-blocked wrappers have seams at 32, 64, ...
        s = [int(x) for x in rng.integers(5, 8, size=d)]
        s[int(rng.integers(d))] = int(rng.integers(34, 71))
        return tuple(s)
    return util.shape2d(rng, 5, hi) if d == 2 else util.shape3d(rng, 5, hi)


class _Ctx:
    def __init__(self, sh, rec):
        self.sh, self.rec = sh, rec
        self.real_t = util.DT[sh["dtype"]]
        self.eps = util.eps(self.real_t)
        self.rng = util.rng_for(sh["seed"], ID, sh["family"], sh["dtype"], sh["idx"])
        self.tier = sh["tier"]

    def scalar(self, x, g):
        """step prefactor: real_t in the first execution, the same value as a python float in the second (the two
        executions must agree bitwise)"""
        self.rec.count("scalar_args_python_float" if g else "scalar_args_real_t")
        return float(x) if g else x

    def note_shape(self, shape):
        self.rec.count("shapes_first_axis_longer_than_x" if shape[0] > shape[-1] else "shapes_x_longest_or_equal")

    def fieldcopy(self, f0, g):
        return f0.copy()

    def twice(self, call, make_args, what, meta):
        """run the time-step kernel twice from the same input with different buffer garbage"""
        outs = []
        for g in (0, 1):
            field, kw = make_args(g)
            try:
                call(field, **kw)
            except Exception as e:
                self.rec.violation(f"{what}-raises", f"{type(e).__name__}: {e} {meta}", {"meta": meta})
                return None
            outs.append(field)
        if not np.all(np.isfinite(outs[0])) or not np.all(np.isfinite(outs[1])) or not util.bits_equal(outs[0], outs[1]):
            self.rec.violation(f"{what}-depends-on-buffer-garbage", f"result not finite or differs between two garbage pre-loads of the work buffers {meta}", {"meta": meta})
            return None
        self.rec.count("garbage_buffer_pairs_bitwise")
        self.rec.count("calls_on_reused_scratch_object", 2)
        # every third case: a third execution in which the field to be advanced is a NON-contiguous view of the same values (halo
        # interior of a padded allocation, every-second-element view, column-major).  The step must land in the caller's array
        # whatever its strides.  Compared with the first execution at the noise floor, NOT bitwise: for non-unit strides the
        # compiler runs another version of the -Ofast loop (measured: last-bit differences in float32 on the unchanged tree).
        self._ntw = getattr(self, "_ntw", 0) + 1
        if self._ntw % 3 == 0:
            field, kw = make_args(0)
            start = np.array(field, copy=True)
            view = util.noncontiguous_copy(self.rng, field)
            try:
                call(view, **kw)
            except Exception as e:
                self.rec.violation(f"{what}-raises", f"non-contiguous field view: {type(e).__name__}: {e} {meta}", {"meta": meta})
                return None
            self.rec.count("fields_advanced_in_noncontiguous_views")
            scale = util.maxabs(start) + util.maxabs(outs[0]) + util.maxabs(np.asarray(outs[0], np.float64) - np.asarray(start, np.float64))
            r = util.err_over_tol(view, outs[0], 64 * self.eps * scale + 1e-300)
            self.rec.stat("noncontiguous_view_vs_contiguous", r)
            if r > 1:
                self.rec.violation(f"{what}-differs-for-noncontiguous-view", f"advancing a non-contiguous view of the same field gives another result (err/tol={r:.3g}) {meta}", {"meta": meta})
                return None
        return outs[0]


def _cmp(ctx, got, ref, tol, stat, mech, msg, witness):
    r = util.err_over_tol(got, ref, tol)
    ctx.rec.stat(stat, r)
    ctx.rec.stat(f"{stat}_{ctx.sh['dtype']}", r)
    ctx.rec.count("cells_compared", int(np.asarray(ref).size))
    if r > 1:
        d = np.abs(np.asarray(got, np.float64) - ref)
        bad = np.unravel_index(int(np.argmax(np.where(np.isfinite(d), d, np.inf))), d.shape)
        ctx.rec.violation(mech, f"{msg}: max err/tol = {r:.3g} at {tuple(int(b) for b in bad)}", witness)
    return r


# ------------------------------------------------------------------------------------------------
def _run_diffusion(ctx, d):
    import sopht.numeric.eulerian_grid_ops as spne

    rec, rng, real_t, eps = ctx.rec, ctx.rng, ctx.real_t, ctx.eps
    if d == 2:
        steps = {"scalar": spne.gen_diffusion_timestep_euler_forward_pyst_kernel_2d(real_t=real_t, num_threads=2)}
        flux = spne.gen_diffusion_flux_pyst_kernel_2d(real_t=real_t, num_threads=2)
    else:
        steps = {ft: spne.gen_diffusion_timestep_euler_forward_pyst_kernel_3d(real_t=real_t, num_threads=2, field_type=ft) for ft in ("scalar", "vector")}
        flux = spne.gen_diffusion_flux_pyst_kernel_3d(real_t=real_t, num_threads=2)
    nshape = 6 if ctx.tier == "quick" else 12
    for variant, step in steps.items():
        for k in range(nshape):
            shape = _shape(rng, d, k, ctx.tier)
            ctx.note_shape(shape)
            scratch = np.empty(shape, real_t)  # ONE flux array object per shape, refilled with garbage before every call
            for fk in FIELD_KINDS:
                full = shape if variant == "scalar" else (d, *shape)
                f0 = util.field(rng, full, fk, real_t)
                # three decades, stable and unstable values alike (the scheme identity does not care)
                pref = real_t(10.0 ** rng.uniform(-3, 0) * rng.choice([1.0, 1.0, -1.0]))
                if rng.random() < 0.125:
                    pref = real_t(0.0)  # inviscid: the step must leave the field as it is, whatever the flux buffer holds
                    ctx.rec.count("steps_with_exactly_zero_step_size")
                elif rng.random() < 0.15:
                    # tiny but non-zero (low viscosity, small dt on a coarse grid): the increment is small against the field, not against
                    # its rounding unit in float64; "close to zero" is not zero
                    pref = real_t(10.0 ** rng.uniform(-13, -8))
                    ctx.rec.count("steps_with_tiny_nonzero_step_size")
                meta = {"family": f"diffusion{d}d", "variant": variant, "dtype": ctx.sh["dtype"], "shape": shape, "field": fk, "prefactor": float(pref)}

                def args(g):
                    scratch[...] = _garbage(rng, shape, real_t, g)
                    kw = {"diffusion_flux": scratch, "nu_dt_by_dx2": ctx.scalar(pref, g)}
                    return ctx.fieldcopy(f0, g), kw

                got = ctx.twice((lambda f, **kw: step(field=f, **kw)) if variant == "scalar" else (lambda f, **kw: step(vector_field=f, **kw)), args, "diffusion-euler", meta)
                if got is None:
                    rec.case(None)
                    continue
                comps = [(f0, got)] if variant == "scalar" else [(f0[c], got[c]) for c in range(d)]
                fl = 0.0
                for o, g_ in comps:
                    F = np.zeros(shape, real_t)
                    flux(diffusion_flux=F, field=o.copy(), prefactor=pref)
                    ref = o.astype(np.float64) + F.astype(np.float64)
                    tol = 8 * eps * (util.maxabs(o) + util.maxabs(F)) + 1e-300
                    _cmp(ctx, g_, ref, tol, "euler_diffusion", "diffusion-euler!=field+flux", f"diffusion Euler step {meta}", {"meta": meta, "f": f0})
                    fl = max(fl, util.maxabs(F))
                rec.count("euler_diffusion_cases")
                if variant == "vector":
                    rec.count("vector_variant_cases")
                rec.case((f"diff{d}d", variant, ctx.sh["dtype"], fk, int(np.floor(np.log10(abs(float(pref)))))) if fl > 0 else None, sample=meta)


def _run_advection(ctx, d):
    import sopht.numeric.eulerian_grid_ops as spne

    rec, rng, real_t, eps = ctx.rec, ctx.rng, ctx.real_t, ctx.eps
    if d == 2:
        steps = {"scalar": spne.gen_advection_timestep_euler_forward_conservative_eno3_pyst_kernel_2d(real_t=real_t, num_threads=2)}
        flux = spne.gen_advection_flux_conservative_eno3_pyst_kernel_2d(real_t=real_t, num_threads=2)
    else:
        steps = {ft: spne.gen_advection_timestep_euler_forward_conservative_eno3_pyst_kernel_3d(real_t=real_t, num_threads=2, field_type=ft) for ft in ("scalar", "vector")}
        flux = spne.gen_advection_flux_conservative_eno3_pyst_kernel_3d(real_t=real_t, num_threads=2)
    nshape = 6 if ctx.tier == "quick" else 12
    for variant, step in steps.items():
        for k in range(nshape):
            shape = _shape(rng, d, k, ctx.tier)
            ctx.note_shape(shape)
            scratch = np.empty(shape, real_t)  # ONE flux array object per shape, refilled with garbage before every call
            for fk in FIELD_KINDS:
                vk = VEL_KINDS[int(rng.integers(len(VEL_KINDS)))]
                amp = 10.0 ** rng.uniform(-2, 2)
                vel = _velocity(rng, d, shape, vk, real_t, amp)
                full = shape if variant == "scalar" else (d, *shape)
                f0 = util.field(rng, full, fk, real_t)
                dtdx = real_t(10.0 ** rng.uniform(-3, 0) / amp)
                if rng.random() < 0.125:
                    dtdx = real_t(0.0)
                    ctx.rec.count("steps_with_exactly_zero_step_size")
                elif rng.random() < 0.15:
                    dtdx = real_t(10.0 ** rng.uniform(-13, -8) / amp)
                    ctx.rec.count("steps_with_tiny_nonzero_step_size")
                meta = {"family": f"advection{d}d", "variant": variant, "dtype": ctx.sh["dtype"], "shape": shape, "field": fk, "velocity": vk,
                        "vel_amp": amp, "dt_by_dx": float(dtdx)}
                v0 = vel.copy()

                def args(g):
                    scratch[...] = _garbage(rng, shape, real_t, g)
                    kw = {"advection_flux": scratch, "velocity": vel, "dt_by_dx": ctx.scalar(dtdx, g)}
                    return ctx.fieldcopy(f0, g), kw

                got = ctx.twice((lambda f, **kw: step(field=f, **kw)) if variant == "scalar" else (lambda f, **kw: step(vector_field=f, **kw)), args, "advection-euler", meta)
                if got is None:
                    rec.case(None)
                    continue
                rec.check(util.bits_equal(vel, v0), "advection-euler-modified-velocity", f"{meta}", {"meta": meta})
                comps = [(f0, got)] if variant == "scalar" else [(f0[c], got[c]) for c in range(d)]
                fl = 0.0
                for o, g_ in comps:
                    o64 = o.astype(np.float64)
                    # (b) the semantic form: d f/dt = -div(u f), flux divergence per unit inv_dx
                    G = np.zeros(shape, real_t)
                    flux(advection_flux=G, field=o.copy(), velocity=vel, inv_dx=real_t(1.0))
                    ref = o64 - float(dtdx) * G.astype(np.float64)
                    fv = max(util.maxabs(o64 * vel[c].astype(np.float64)) for c in range(d))
                    tol = 16 * eps * (util.maxabs(o) + abs(float(dtdx)) * 2 * d * (4.0 / 3.0) * fv) + 1e-300
                    _cmp(ctx, g_, ref, tol, "euler_advection", "advection-euler!=field-dt/dx*flux", f"advection Euler step {meta}", {"meta": meta, "f": f0, "vel": vel})
                    # (a) tight form: same prefactor as a time step of size dt hands to the flux kernel
                    H = np.zeros(shape, real_t)
                    flux(advection_flux=H, field=o.copy(), velocity=vel, inv_dx=real_t(-dtdx))
                    tol = 8 * eps * (util.maxabs(o) + util.maxabs(H)) + 1e-300
                    _cmp(ctx, g_, o64 + H.astype(np.float64), tol, "euler_advection_tight", "advection-euler!=field+flux(-dt/dx)", f"advection Euler step {meta}", {"meta": meta, "f": f0, "vel": vel})
                    fl = max(fl, util.maxabs(G))
                rec.count("euler_advection_cases")
                if variant == "vector":
                    rec.count("vector_variant_cases")
                rec.case((f"adv{d}d", variant, ctx.sh["dtype"], fk, vk, int(np.floor(np.log10(float(dtdx) * amp))) if float(dtdx) != 0 else "zero") if fl > 0 else None, sample=meta)


def _stretch_setup(ctx, k):
    rng, real_t = ctx.rng, ctx.real_t
    shape = _shape(rng, 3, k, ctx.tier)
    if k == 1:
        shape = (3, 3, int(rng.integers(3, 9)))  # one interior cell per row: smallest admissible grid
    return shape


def _stretch_case(ctx, shape, fk):
    rng, real_t = ctx.rng, ctx.real_t
    vk = VEL_KINDS[int(rng.integers(len(VEL_KINDS)))]
    amp = 10.0 ** rng.uniform(-2, 2)
    vel = _velocity(rng, 3, shape, vk, real_t, amp)
    w0 = util.field(rng, (3, *shape), fk, real_t)
    # ||A||_inf <= b = 3 h max|u(+1)-u(-1)|; draw b over three decades, then h
    v64 = vel.astype(np.float64)
    du = 0.0
    for ax in (1, 2, 3):
        n = v64.shape[ax]
        if n >= 3:
            a = np.moveaxis(v64, ax, -1)
            du = max(du, float(np.max(np.abs(a[..., 2:] - a[..., :-2]))))
    b = 10.0 ** rng.uniform(-3, 0.5)
    h = real_t(b / (3.0 * du)) if du > 0 else real_t(0.1)
    b = 3.0 * float(h) * du
    return vk, amp, vel, w0, h, b


def _run_stretching(ctx, scheme):
    import sopht.numeric.eulerian_grid_ops as spne

    rec, rng, real_t, eps = ctx.rec, ctx.rng, ctx.real_t, ctx.eps
    flux = spne.gen_vorticity_stretching_flux_pyst_kernel_3d(real_t=real_t, num_threads=2)
    euler = spne.gen_vorticity_stretching_timestep_euler_forward_pyst_kernel_3d(real_t=real_t, num_threads=2) if scheme == "euler" else None
    nshape = (6 if scheme == "euler" else 8) if ctx.tier == "quick" else 14

    def one_case(shape, kern, mid, scratch, fk, role):
        vk, amp, vel, w0, h, b = _stretch_case(ctx, shape, fk)
        meta = {"family": f"stretching-{scheme}", "dtype": ctx.sh["dtype"], "shape": shape, "field": fk, "velocity": vk, "vel_amp": amp,
                "dt_by_2_dx": float(h), "norm_A_bound": b, "object": role}
        v0 = vel.copy()

        def A(x):
            out = np.zeros((3, *shape), real_t)
            flux(vorticity_stretching_flux_field=out, vorticity_field=np.ascontiguousarray(x), velocity_field=vel, prefactor=h)
            return out

        def args(g):
            if scheme == "rk3":
                mid[...] = _garbage(rng, mid.shape, real_t, g)
            scratch[...] = _garbage(rng, (3, *shape), real_t, g)
            kw = {"velocity_field": vel, "vorticity_stretching_flux_field": scratch, "dt_by_2_dx": ctx.scalar(h, g)}
            return ctx.fieldcopy(w0, g), kw

        got = ctx.twice(lambda f, **kw: kern(vorticity_field=f, **kw), args, f"stretching-{scheme}", meta)
        if got is None:
            rec.case(None)
            return
        rec.check(util.bits_equal(vel, v0), f"stretching-{scheme}-modified-velocity", f"{meta}", {"meta": meta})
        w64 = w0.astype(np.float64)
        wmax = util.maxabs(w64)
        a1 = A(w0)
        cls = (f"vs-{scheme}", ctx.sh["dtype"], fk, vk, int(np.floor(np.log10(b))) if b > 0 else None, role)
        if scheme == "euler":
            tol = 8 * eps * (wmax + util.maxabs(a1)) + 1e-300
            _cmp(ctx, got, w64 + a1.astype(np.float64), tol, "euler_stretching", "stretching-euler!=field+flux", f"vortex-stretching Euler step {meta}", {"meta": meta, "w": w0, "vel": vel})
            rec.count("euler_stretching_cases")
            rec.case(cls if util.maxabs(a1) > 0 else None, sample=meta)
            return
        a2 = A(a1)
        a3 = A(a2)
        a1, a2, a3 = (x.astype(np.float64) for x in (a1, a2, a3))
        tol = 32 * eps * wmax * (1 + b + b * b + b**3) + 1e-300
        nominal = w64 + a1 + a2 / 2 + a3 / 6
        r_nom = util.err_over_tol(got, nominal, tol)
        rec.count("ssprk3_cases")
        if role != "primary":
            rec.count(f"ssprk3_cases_{role}")
        rec.count("cells_compared", int(nominal.size))
        if util.maxabs(a3) / 12 > tol:
            rec.count("ssprk3_cases_where_A3_term_above_floor")
        f5 = w64 + 2 * a1 / 3 + a2 / 3 + a3 / 12
        if util.err_over_tol(f5, nominal, tol) > 1:
            rec.count("ssprk3_cases_where_F5_polynomial_distinguishable")
        rec.case(cls if util.maxabs(a1) > 0 else None, sample={**meta, "err_over_tol_vs_nominal": r_nom})
        if r_nom <= 1:
            rec.stat("ssprk3_vs_nominal", r_nom)
            rec.stat(f"ssprk3_vs_nominal_{ctx.sh['dtype']}", r_nom)
            return
        # classification of the deviation (known open finding F5 vs anything else)
        r_f5 = util.err_over_tol(got, f5, tol)
        w = {"meta": meta, "w": w0, "vel": vel}
        if r_f5 <= 1:
            rec.stat("ssprk3_vs_F5_polynomial", r_f5)
            rec.count("ssprk3_cases_matching_F5_polynomial")
            rec.violation(F5_KEY, f"SSP-RK3 output = (I + 2A/3 + A^2/3 + A^3/12) w to {r_f5:.3g} x floor, but {r_nom:.3g} x floor away from (I + A + A^2/2 + A^3/6) w {meta}", w)
        else:
            rec.violation("ssprk3!=nominal", f"SSP-RK3 output is {r_nom:.3g} x floor away from (I + A + A^2/2 + A^3/6) w (and {r_f5:.3g} x floor from the F5 polynomial) {meta}", w)

    for k in range(nshape):
        shape = _stretch_setup(ctx, k)
        ctx.note_shape(shape)
        mid = np.zeros((3, *shape), real_t)
        scratch = np.empty((3, *shape), real_t)  # ONE flux array object per shape, refilled with garbage before every call
        rk3 = spne.gen_vorticity_stretching_timestep_ssprk3_pyst_kernel_3d(real_t=real_t, midstep_buffer_vector_field=mid, num_threads=2) if scheme == "rk3" else None
        kern = euler if scheme == "euler" else rk3
        for fk in FIELD_KINDS:
            one_case(shape, kern, mid, scratch, fk, "primary")
        if scheme == "rk3" and k in (2, 5):
            # sibling kernel object: SAME grid shape and precision, its OWN mid-step buffer, generated later in the same process;
            # then the FIRST kernel object (and its buffer) once more
            mid_b = np.zeros((3, *shape), real_t)
            rk3_b = spne.gen_vorticity_stretching_timestep_ssprk3_pyst_kernel_3d(real_t=real_t, midstep_buffer_vector_field=mid_b, num_threads=2)
            one_case(shape, rk3_b, mid_b, scratch, FIELD_KINDS[k % len(FIELD_KINDS)], "sibling_kernel_same_shape")
            one_case(shape, rk3, mid, scratch, FIELD_KINDS[(k + 1) % len(FIELD_KINDS)], "first_kernel_after_sibling")


def run_shard(sh, rec):
    ctx = _Ctx(sh, rec)
    fam = sh["family"]
    if fam == "adv2d":
        _run_advection(ctx, 2)
    elif fam == "adv3d":
        _run_advection(ctx, 3)
    elif fam == "diff2d":
        _run_diffusion(ctx, 2)
    elif fam == "diff3d":
        _run_diffusion(ctx, 3)
    elif fam == "vs-euler":
        _run_stretching(ctx, "euler")
    elif fam == "vs-rk3":
        _run_stretching(ctx, "rk3")
    else:
        raise ValueError(fam)
