"""Third-party compatibility adapter (DESIGN §3.2).

The image ships pystencils 2.0 / NumPy 2.x while SophT is written against pystencils 1.4.
Only the *third-party side* is repaired here:

* inside ``sopht.utils.pyst_kernel_config`` the name ``ps`` is replaced by a proxy whose
  ``CreateKernelConfig`` drops the keyword ``default_number_float`` (removed in 2.0) and pins the
  JIT object cache / compiler flags;  SophT's ``get_pyst_kernel_config`` itself runs unmodified.
* pystencils' default spatial counters are extended to four (4-D "vector" kernels).

Nothing SophT computes is altered.  ``install(mode)``: mode "fast" = pystencils default flags
(-Ofast ...), mode "asan" = -O1 -g -fsanitize=address,undefined.
"""
import os
import warnings

from . import env

_installed = None
JIT = None


def cache_dir(mode):
    d = os.path.join(env.CACHE, f"pystencils-{mode}")
    os.makedirs(d, exist_ok=True)
    return d


def install(mode=None):
    global _installed, JIT
    mode = mode or os.environ.get("RV_JIT_MODE", "fast")
    if _installed is not None:
        if _installed != mode:
            raise RuntimeError(f"adapter already installed in mode {_installed}")
        return
    warnings.filterwarnings("ignore")
    import logging

    logging.disable(logging.WARNING)
    env.ensure_dirs()
    import pystencils as ps
    from pystencils.defaults import DEFAULTS
    from pystencils.jit import CpuJit
    from pystencils.sympyextensions.typed_sympy import DynamicType, TypedSymbol

    if len(DEFAULTS.spatial_counter_names) < 4:
        DEFAULTS.spatial_counter_names = ("ctr_0", "ctr_1", "ctr_2", "ctr_3")
        DEFAULTS.spatial_counters = tuple(
            TypedSymbol(f"ctr_{i}", DynamicType.INDEX_TYPE) for i in range(4)
        )

    if mode == "fast":
        JIT = CpuJit(objcache=cache_dir("fast"))
    elif mode == "asan":
        from pystencils.jit.cpu.compiler_info import GccInfo

        ci = GccInfo(
            optlevel="1",
            extra_cxxflags=[
                "-g",
                "-fsanitize=address,undefined",
                "-fno-sanitize-recover=all",
                "-fno-omit-frame-pointer",
            ],
        )
        JIT = CpuJit(compiler_info=ci, objcache=cache_dir("asan"))
    else:
        raise ValueError(mode)

    env.assert_repo_is_imported()
    import sopht.utils.pyst_kernel_config as pk

    class _PsProxy:
        def __init__(self, real):
            self._real = real

        def __getattr__(self, n):
            return getattr(self._real, n)

        def CreateKernelConfig(self, **kw):
            kw.pop("default_number_float", None)
            kw.setdefault("jit", JIT)
            return self._real.CreateKernelConfig(**kw)

    if not isinstance(pk.ps, _PsProxy):
        pk.ps = _PsProxy(pk.ps)
    _installed = mode
