"""Runtime contracts attached to the real classes from outside (DESIGN §3.8).

Post-conditions, evaluated on EVERY call any workload makes once ``attach()`` has run:

* FlowSimulator.time_step            clock advanced by exactly dt; forcing field all-zero bytes on return
* VirtualBoundaryForcing.time_step   integral advanced by dt * (velocity mismatch before the call); clock by dt
* compute_stable_timestep            finite and positive
* IO.save                            every registered array bit-identical afterwards

Implemented as plain wrappers with named conditions (the shape icontract's ensure/snapshot would give; icontract
itself is not required at run time, so a missing wheel can never make a check inconclusive).  Violations are collected (never raised into the code under observation) in VIOLATIONS;
EVALUATIONS counts what was actually checked (zero => inconclusive).
"""
import collections
import functools

import numpy as np

EVALUATIONS = collections.Counter()
VIOLATIONS = []
_attached = False


class ContractBroken(Exception):
    pass


def _record(name, ok, detail):
    EVALUATIONS[name] += 1
    if not ok and len(VIOLATIONS) < 50:
        VIOLATIONS.append({"contract": name, "detail": detail})
    return True  # conditions record and return True: a raising contract would abort what it observes


def _wrap(cls, method, pre, post):
    orig = getattr(cls, method)

    @functools.wraps(orig)
    def wrapper(self, *a, **kw):
        old = pre(self, *a, **kw)
        out = orig(self, *a, **kw)
        post(self, old, out, *a, **kw)
        return out

    wrapper.__rv_contract__ = True
    setattr(cls, method, wrapper)


def attach():
    global _attached
    if _attached:
        return
    _attached = True
    import sopht.simulator.flow.flow_simulators as fs
    from sopht.numeric.immersed_boundary_ops.VirtualBoundaryForcing import VirtualBoundaryForcing
    import sopht.utils.io as sio

    # --- FlowSimulator.time_step -------------------------------------------------------------------
    def pre_ts(self, *a, **kw):
        dt = kw.get("dt", a[0] if a else None)
        return {"time": self.time, "dt": dt}

    def post_ts(self, old, out, *a, **kw):
        _record("FlowSimulator.time_step:clock", self.time == old["time"] + old["dt"], f"{type(self).__name__}: time {self.time!r} != {old['time']!r} + {old['dt']!r}")
        f = getattr(self, "eul_grid_forcing_field", None)
        if f is not None and getattr(self, "with_forcing", False):
            _record("FlowSimulator.time_step:forcing-zero", not np.ascontiguousarray(f).view(np.uint8).any(), f"{type(self).__name__}: forcing field not all-zero on return")

    _wrap(fs.FlowSimulator, "time_step", pre_ts, post_ts)

    # --- compute_stable_timestep on the concrete classes ---------------------------------------------
    import sopht.simulator as sps

    for cls in (sps.UnboundedNavierStokesFlowSimulator2D, sps.UnboundedNavierStokesFlowSimulator3D, sps.PassiveTransportFlowSimulator):
        def post_dt(self, old, out, *a, **kw):
            _record("compute_stable_timestep:finite-positive", bool(np.isfinite(out) and out > 0), f"{type(self).__name__}: dt={out!r}")

        _wrap(cls, "compute_stable_timestep", lambda self, *a, **kw: None, post_dt)

    # --- VirtualBoundaryForcing.time_step -------------------------------------------------------------
    def pre_vb(self, *a, **kw):
        dt = kw.get("dt", a[0] if a else None)
        return {"time": self.time, "dt": dt, "I": np.array(self.lag_grid_position_mismatch_field, copy=True), "e": np.array(self.lag_grid_velocity_mismatch_field, copy=True)}

    def post_vb(self, old, out, *a, **kw):
        _record("VirtualBoundaryForcing.time_step:clock", self.time == old["time"] + old["dt"], f"time {self.time!r} != {old['time']!r}+{old['dt']!r}")
        exp = old["I"].astype(np.float64) + float(old["dt"]) * old["e"].astype(np.float64)
        got = np.asarray(self.lag_grid_position_mismatch_field, np.float64)
        eps = float(np.finfo(self.lag_grid_position_mismatch_field.dtype).eps)
        tol = 8 * eps * (np.abs(old["I"]).astype(np.float64) + abs(float(old["dt"])) * np.abs(old["e"]).astype(np.float64)) + 1e-300
        _record("VirtualBoundaryForcing.time_step:integral", bool(np.all(np.abs(got - exp) <= tol)), "integral not advanced by dt * velocity mismatch")

    _wrap(VirtualBoundaryForcing, "time_step", pre_vb, post_vb)

    # --- IO.save leaves registered arrays untouched ---------------------------------------------------
    def pre_save(self, *a, **kw):
        snap = {}
        for group in ("eulerian_fields", "lagrangian_fields", "lagrangian_grids"):
            for k, v in getattr(self, group, {}).items():
                if isinstance(v, np.ndarray):
                    snap[(group, k)] = (v, np.array(v, copy=True))
        return snap

    def post_save(self, old, out, *a, **kw):
        ok = all(np.ascontiguousarray(v).tobytes() == c.tobytes() for v, c in old.values())
        _record("IO.save:sources-untouched", ok, "a registered array changed during save")

    _wrap(sio.IO, "_save", pre_save, post_save)


def summary():
    return {"evaluations": dict(EVALUATIONS), "violations": list(VIOLATIONS)}
