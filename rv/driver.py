"""Sharding, subprocess workers, watchdogs, verdict aggregation, evidence and replay (DESIGN §6).

A check module ``rv.checks.cNN`` provides

    ID, LEVEL, TITLE
    shards(tier, seed) -> list[dict]          JSON-serialisable shard specs, each with a "name"
    run_shard(shard, rec) -> None             drives the real code, reports through ``rec``
    REQUIRE = {counter: minimum}              (optional) run is inconclusive below these
    RULE = "..."                              how cases are generated / what non-trivial means
    ASSUMPTIONS = [...]

Verdict: 0 held / 1 violated / 2 inconclusive.
"""
import hashlib
import importlib
import json
import os
import pickle
import subprocess
import sys
import time
import traceback

import numpy as np

from . import env

MAX_SAMPLES = 6
MAX_VIOLATIONS_KEPT = 12


def _jsonable(x):
    if isinstance(x, dict):
        return {str(k): _jsonable(v) for k, v in x.items()}
    if isinstance(x, (list, tuple, set, frozenset)):
        return [_jsonable(v) for v in x]
    if isinstance(x, np.ndarray):
        if x.size <= 16:
            return _jsonable(x.tolist())
        return {"ndarray": list(x.shape), "dtype": str(x.dtype)}
    if isinstance(x, (np.floating,)):
        return float(x)
    if isinstance(x, (np.integer,)):
        return int(x)
    if isinstance(x, (np.bool_,)):
        return bool(x)
    if isinstance(x, float):
        if x != x or x in (float("inf"), float("-inf")):
            return repr(x)
        return x
    if isinstance(x, (int, str, bool)) or x is None:
        return x
    if isinstance(x, type):
        return x.__name__
    return repr(x)


class Recorder:
    """What a shard reports: executions, distinct non-trivial classes, monitor counters, violations."""

    def __init__(self, prop, shard):
        self.prop = prop
        self.shard = shard
        self.evaluations = 0
        self.distinct = set()
        self.counters = {}
        self.maxstats = {}
        self.samples = []
        self.violations = []
        self.inconclusive = []
        self.notes = []
        self._vio_mechs = {}

    # -- coverage -------------------------------------------------------------------------------
    def case(self, cls=None, sample=None, n=1):
        """one execution of the real code; ``cls`` identifies its (configuration, shape, input
        class) for distinct_nontrivial; pass cls=None for a trivial/degenerate case"""
        self.evaluations += n
        if cls is not None:
            self.distinct.add(cls if isinstance(cls, str) else json.dumps(_jsonable(cls), sort_keys=True))
        if sample is not None and len(self.samples) < MAX_SAMPLES:
            self.samples.append(_jsonable(sample))

    def count(self, name, n=1):
        self.counters[name] = self.counters.get(name, 0) + int(n)

    def stat(self, name, value):
        """track the maximum of an error/tolerance ratio"""
        v = float(value)
        if v != v:
            v = float("inf")
        if v > self.maxstats.get(name, -1.0):
            self.maxstats[name] = v

    def note(self, s):
        if len(self.notes) < 20:
            self.notes.append(str(s))

    # -- verdicts ---------------------------------------------------------------------------------
    def violation(self, mech, msg, witness=None):
        """``mech``: short mechanism key (what failed, not which random values)"""
        n = self._vio_mechs.get(mech, 0)
        self._vio_mechs[mech] = n + 1
        if n >= 3 or len(self.violations) >= MAX_VIOLATIONS_KEPT:
            self.count("violations_suppressed_duplicates")
            return
        path = None
        try:
            os.makedirs(env.REPLAYS, exist_ok=True)
            blob = {
                "property": self.prop,
                "mech": mech,
                "msg": msg,
                "shard": self.shard,
                "witness": witness,
            }
            h = hashlib.sha1(
                (self.prop + mech + json.dumps(_jsonable(self.shard), sort_keys=True) + str(n)).encode()
            ).hexdigest()[:12]
            path = os.path.join(env.REPLAYS, f"{self.prop}_{h}.pkl")
            with open(path, "wb") as f:
                pickle.dump(blob, f)
        except Exception as e:  # pragma: no cover
            path = f"<unsaved: {e}>"
        self.violations.append({"mech": mech, "msg": str(msg)[:600], "replay": path})

    def check(self, cond, mech, msg, witness=None):
        if not cond:
            self.violation(mech, msg, witness)
        return bool(cond)

    def inconclusive_(self, reason):
        self.inconclusive.append(str(reason)[:3000])

    def result(self, wall):
        return {
            "shard": self.shard.get("name"),
            "evaluations": self.evaluations,
            "distinct": sorted(self.distinct),
            "counters": self.counters,
            "maxstats": self.maxstats,
            "samples": self.samples,
            "violations": self.violations,
            "inconclusive": self.inconclusive,
            "notes": self.notes,
            "wall": wall,
        }


def load_check(cid):
    return importlib.import_module(f"rv.checks.{cid.lower()}")


# ------------------------------------------------------------------------------------------------
# worker side
# ------------------------------------------------------------------------------------------------
_CRASH_SIGNALS = {-11: "SIGSEGV", -6: "SIGABRT", -7: "SIGBUS", -8: "SIGFPE", -4: "SIGILL"}


def default_classify_death(rc, log):
    """A worker killed by a crash signal while a SophT frame is on the Python stack (faulthandler dump in the shard log): SophT took
    the interpreter down on an input the workload considers admissible - a violation like any `*-raises` one.  Anything else
    (SIGKILL from the OOM killer, a crash with no SophT frame on the stack, no dump) stays inconclusive."""
    sig = _CRASH_SIGNALS.get(rc) if isinstance(rc, int) else None
    if sig is None or "Fatal Python error" not in log:
        return None
    dump = log[log.rindex("Fatal Python error"):]
    frames = [ln.strip() for ln in dump.splitlines() if ln.strip().startswith("File ")]
    repo = os.path.realpath(env.REPO)
    sopht = [ln for ln in frames if ("/sopht/" in ln and (repo in ln or "/sopht/" in ln))]
    if not sopht:
        return None
    top = sopht[0]
    fn = top.split(" in ")[-1] if " in " in top else "?"
    fname = os.path.basename(top.split('"')[1]) if '"' in top else "?"
    return {"violations": [{"mech": f"native-crash-under-sopht-call:{sig}:{fname}:{fn}",
                            "msg": f"worker process died with {sig} while {fname}:{fn} was executing (Python stack from faulthandler): " + " | ".join(frames[:6])}]}


def worker_main(argv):
    cid, shard_path, out_path = argv
    with open(shard_path) as f:
        shard = json.load(f)
    t0 = time.time()
    rec = Recorder(cid, shard)
    try:
        import faulthandler

        faulthandler.enable(all_threads=False)  # a crash in native code leaves the Python stack in the shard log (see default_classify_death)
    except Exception:
        pass
    try:
        mod = load_check(cid)
        from . import compat

        compat.install(shard.get("jit_mode"))
        from . import contracts

        if not getattr(mod, "NO_CONTRACTS", False):
            contracts.attach()
        if not getattr(mod, "NO_INTERFERENCE", False) and shard.get("jit_mode") != "asan":
            from . import interfere

            interfere.preamble()
            rec.count("interference_preamble_generator_calls", interfere.CALLS)
        mod.run_shard(shard, rec)
        for k, n in contracts.EVALUATIONS.items():
            rec.count("contract:" + k, n)
        for v in contracts.VIOLATIONS:
            rec.violation("contract:" + v["contract"], v["detail"], v)
    except BaseException as e:  # harness / import failure: inconclusive, never a verdict
        rec.inconclusive_(f"worker exception {type(e).__name__}: {e}\n{traceback.format_exc()[-1500:]}")
    res = rec.result(time.time() - t0)
    tmp = out_path + ".tmp"
    with open(tmp, "w") as f:
        json.dump(res, f)
    os.replace(tmp, out_path)
    sys.stdout.flush()
    os._exit(0)  # skip slow interpreter teardown (numba/pyfftw/OpenMP pools)


# ------------------------------------------------------------------------------------------------
# parent side
# ------------------------------------------------------------------------------------------------
def run_shards(cid, shards, nproc=None, timeout=1800, mod=None):
    nproc = nproc or int(os.environ.get("RV_NPROC", "0")) or min(16, os.cpu_count() or 4)
    work = os.path.join(env.TMP, f"run-{cid}-{os.getpid()}")
    os.makedirs(work, exist_ok=True)
    pending = list(enumerate(shards))
    running = {}
    results = [None] * len(shards)
    try:
        while pending or running:
            while pending and len(running) < nproc:
                i, sh = pending.pop(0)
                sp = os.path.join(work, f"s{i}.json")
                op = os.path.join(work, f"r{i}.json")
                with open(sp, "w") as f:
                    json.dump(sh, f)
                extra = dict(sh.get("env", {}))
                log = open(os.path.join(work, f"l{i}.log"), "wb")
                cmd = [env.PYTHON, "-m", "rv.worker", cid, sp, op]
                pre = sh.get("preload")
                if pre:
                    extra["LD_PRELOAD"] = pre
                p = subprocess.Popen(cmd, cwd=env.ROOT, env=env.child_env(extra), stdout=log, stderr=subprocess.STDOUT)
                running[i] = (p, time.time(), op, log, sh)
            time.sleep(0.05)
            for i in list(running):
                p, t0, op, log, sh = running[i]
                rc = p.poll()
                lim = sh.get("timeout", timeout)
                if rc is None and time.time() - t0 > lim:
                    p.kill()
                    p.wait()
                    rc = "timeout"
                if rc is None:
                    continue
                log.close()
                del running[i]
                logtxt = ""
                try:
                    with open(log.name, "rb") as f:
                        logtxt = f.read().decode("utf8", "replace")
                except Exception:
                    pass
                if os.path.exists(op):
                    with open(op) as f:
                        results[i] = json.load(f)
                    results[i]["log_tail"] = logtxt[-3000:]
                    results[i]["rc"] = rc
                else:
                    res = {
                        "shard": sh.get("name"),
                        "evaluations": 0, "distinct": [], "counters": {}, "maxstats": {}, "samples": [],
                        "violations": [], "notes": [], "wall": time.time() - t0, "rc": rc,
                        "log_tail": logtxt[-6000:],
                        "inconclusive": [],
                    }
                    verdict = None
                    if mod is not None and hasattr(mod, "classify_death") and rc != "timeout":
                        try:
                            verdict = mod.classify_death(sh, rc, logtxt)
                        except Exception as e:  # pragma: no cover
                            verdict = {"inconclusive": [f"classify_death failed: {e}"]}
                    if not verdict and rc != "timeout":
                        verdict = default_classify_death(rc, logtxt)
                    if verdict and verdict.get("violations"):
                        rec = Recorder(cid, sh)
                        for v in verdict["violations"]:
                            rec.violation(v["mech"], v["msg"], {"log": logtxt[-4000:]})
                        res["violations"] = rec.violations
                    elif verdict and verdict.get("inconclusive"):
                        res["inconclusive"] = list(verdict["inconclusive"])
                    else:
                        res["inconclusive"] = [f"worker died rc={rc}: {logtxt[-800:]}"]
                    results[i] = res
    finally:
        for i, (p, *_r) in running.items():
            try:
                p.kill()
            except Exception:
                pass
        import shutil

        shutil.rmtree(work, ignore_errors=True)
    return results


def load_known_findings():
    p = os.path.join(env.ROOT, "known_findings.json")
    if not os.path.exists(p):
        return []
    with open(p) as f:
        return json.load(f).get("findings", [])


def aggregate(cid, mod, tier, seed, results, wall, extra_cov=None, partial=False):
    ev = 0
    distinct = set()
    counters = {}
    maxstats = {}
    samples = []
    violations = []
    inconcl = []
    notes = []
    for r in results:
        ev += r["evaluations"]
        distinct.update(r["distinct"])
        for k, v in r["counters"].items():
            counters[k] = counters.get(k, 0) + v
        for k, v in r["maxstats"].items():
            maxstats[k] = max(maxstats.get(k, -1.0), v)
        for s in r["samples"]:
            if len(samples) < MAX_SAMPLES:
                samples.append(s)
        violations += [dict(v, shard=r["shard"]) for v in r["violations"]]
        inconcl += [f"[{r['shard']}] {x}" for x in r["inconclusive"]]
        notes += r.get("notes", [])
    for k, m in ({} if partial else getattr(mod, "REQUIRE", {})).items():
        if isinstance(m, dict):
            m = m.get(tier, 0)
        if counters.get(k, 0) < m:
            inconcl.append(f"counter {k}={counters.get(k, 0)} below required minimum {m}")
    if ev == 0:
        inconcl.append("no execution of the real code was observed")
    if len(distinct) < 2 and not partial:
        inconcl.append("fewer than 2 distinct non-trivial cases")

    known = [k for k in load_known_findings() if k.get("property") == cid and k.get("status") == "open"]
    real, knownhits = [], {}
    for v in violations:
        hit = None
        for k in known:
            if v["mech"] == k["key"] or v["mech"].startswith(k["key"] + "|"):
                hit = k
                break
        if hit:
            knownhits.setdefault(hit["key"], [hit, 0])[1] += 1
        else:
            real.append(v)

    if not samples:
        samples = [{"case_class": x} for x in sorted(distinct)[:3]]
    coverage = {
        "evaluations": ev,
        "distinct_nontrivial": len(distinct),
        "rule": getattr(mod, "RULE", ""),
        "samples": samples,
        "monitor_counters": counters,
        "max_error_over_tolerance": maxstats,
        "shards": len(results),
        "known_finding_hits": {k: n for k, (h, n) in knownhits.items()},
        "inconclusive_reasons": inconcl[:10],
        "notes": notes[:20],
        "violation_mechanisms": sorted({v["mech"] for v in real}),
    }
    if extra_cov:
        coverage.update(extra_cov)
    evidence = {
        "property_id": cid,
        "tier": tier,
        "seed": int(seed),
        "level": mod.LEVEL,
        "coverage": coverage,
        "assumptions": list(getattr(mod, "ASSUMPTIONS", [])),
        "wall_s": round(wall, 2),
        "violations": len(real),
    }
    return evidence, real, knownhits, inconcl


def main(argv=None):
    import argparse

    ap = argparse.ArgumentParser()
    ap.add_argument("id")
    ap.add_argument("--tier", default=os.environ.get("VERIF_TIER", "quick"))
    ap.add_argument("--replay")
    ap.add_argument("--only", help="run only shards whose name contains this")
    ap.add_argument("--nproc", type=int)
    ap.add_argument("--no-evidence", action="store_true")
    a = ap.parse_args(argv)
    cid = a.id.upper()
    tier = a.tier if a.tier in ("quick", "thorough") else "quick"
    seed = int(os.environ.get("VERIF_SEED", "0") or 0)
    env.ensure_dirs()
    mod = load_check(cid)
    t0 = time.time()
    if a.replay:
        with open(a.replay, "rb") as f:
            blob = pickle.load(f)
        shards = [blob["shard"]]
        print(f"replaying shard {blob['shard'].get('name')} for mechanism {blob['mech']}: {blob['msg']}")
    else:
        shards = mod.shards(tier, seed)
        if a.only:
            shards = [s for s in shards if a.only in s.get("name", "")]
    for s in shards:
        s.setdefault("tier", tier)
        s.setdefault("seed", seed)
    results = run_shards(cid, shards, nproc=a.nproc, timeout=getattr(mod, "SHARD_TIMEOUT", {}).get(tier, 1500), mod=mod)
    wall = time.time() - t0
    # a replay or an --only run covers part of the workload: coverage minima do not apply, verdict = violations seen or not
    evidence, real, knownhits, inconcl = aggregate(cid, mod, tier, seed, results, wall, partial=bool(a.replay or a.only))
    if not a.no_evidence and not a.replay and not a.only:
        tmp = os.path.join(env.EVIDENCE, f".{cid}.json.tmp")
        with open(tmp, "w") as f:
            json.dump(evidence, f, indent=1)
        os.replace(tmp, os.path.join(env.EVIDENCE, f"{cid}.json"))
    cov = evidence["coverage"]
    print(
        f"{cid} tier={tier} seed={seed}: {cov['evaluations']} executions, {cov['distinct_nontrivial']} distinct "
        f"non-trivial cases, {len(results)} shards, {wall:.1f}s"
    )
    if os.environ.get("RV_VERBOSE"):
        print("  shard walls: " + ", ".join(f"{r['shard']}={r['wall']:.0f}s" for r in results))
    if cov["monitor_counters"]:
        print("  monitors: " + ", ".join(f"{k}={v}" for k, v in sorted(cov["monitor_counters"].items())))
    if cov["max_error_over_tolerance"]:
        print("  max err/tol: " + ", ".join(f"{k}={v:.3g}" for k, v in sorted(cov["max_error_over_tolerance"].items())))
    for k, (h, n) in knownhits.items():
        print(f"KNOWN-FINDING: property={cid} {h.get('what', k)} [{k}] ({n} witnesses this run)")
    for v in real:
        print(f"VIOLATION property={cid} replay={v['replay']}")
        print(f"  mechanism={v['mech']} shard={v['shard']}: {v['msg']}")
    if real:
        return 1
    if inconcl:
        for x in inconcl[:10]:
            print(f"INCONCLUSIVE property={cid} reason={x if os.environ.get('RV_VERBOSE') else x[:300]}")
        if os.environ.get("RV_VERBOSE"):
            for r in results:
                if r["inconclusive"]:
                    print(r.get("log_tail", ""))
        return 2
    print(f"HELD property={cid} on everything explored")
    return 0
