"""Paths and process environment shared by every check (DESIGN §3)."""
import os
import sys

ROOT = os.environ.get("RV_ROOT") or os.path.dirname(os.path.dirname(os.path.abspath(__file__)))
REPO = os.environ.get("SOPHT_REPO", "/repo")
CACHE = os.environ.get("RV_CACHE", os.path.join(ROOT, ".cache"))
TMP = os.environ.get("RV_TMP", os.path.join(os.path.expanduser("~"), ".rv-tmp"))
EVIDENCE = os.path.join(ROOT, "evidence")
REPLAYS = os.path.join(ROOT, "replays")
PYTHON = "/venv/bin/python"


def child_env(extra=None):
    """Environment for worker subprocesses: the working tree of REPO is what gets imported."""
    e = dict(os.environ)
    e["RV_ROOT"] = ROOT
    e["SOPHT_REPO"] = REPO
    e["RV_CACHE"] = CACHE
    e["RV_TMP"] = TMP
    e.setdefault("NUMBA_CACHE_DIR", os.path.join(CACHE, "numba"))
    e["PYTHONHASHSEED"] = "0"
    e["PYTHONDONTWRITEBYTECODE"] = "1"
    e["PYTHONPATH"] = os.pathsep.join([REPO, ROOT, os.path.join(ROOT, ".deps")])
    e["MPLBACKEND"] = "Agg"
    e["PYTHONWARNINGS"] = "ignore"
    e.setdefault("OMP_WAIT_POLICY", "PASSIVE")  # many workers share the cores: do not spin
    if extra:
        e.update(extra)
    return e


def ensure_dirs():
    for d in (CACHE, TMP, EVIDENCE, REPLAYS, os.path.join(CACHE, "numba")):
        os.makedirs(d, exist_ok=True)


def assert_repo_is_imported():
    """The check must observe REPO's working tree, not some other installed copy."""
    import sopht

    here = os.path.realpath(os.path.dirname(os.path.dirname(sopht.__file__)))
    if here != os.path.realpath(REPO):
        raise RuntimeError(f"sopht imported from {here}, expected {REPO}")


if REPO not in sys.path:
    sys.path.insert(0, REPO)
