"""Interference preamble (hostile workload element): before a shard drives its own workload, unrelated kernel generators are
called in the same process with unusual option values (boundary setters of width 2 and 3, scalar and vector, serial and
threaded, both precisions).  Correct generators are pure functions of their arguments, so this changes nothing; a generator
that memoises under an incomplete key (e.g. boundary kernels cached per (precision, field type) without the width) serves
the wrong kernel to the operators generated afterwards, which the shard's own oracle then sees."""
import numpy as np

CALLS = 0


def preamble():
    global CALLS
    try:
        import sopht.numeric.eulerian_grid_ops as spne
    except Exception:
        return
    for real_t in (np.float64, np.float32):
        for d in (2, 3):
            g = getattr(spne, f"gen_set_fixed_val_at_boundaries_pyst_kernel_{d}d", None)
            if g is None:
                continue
            for ft in ("scalar", "vector"):
                for w in (3, 2):
                    for nt in (False, 2):
                        try:
                            k = g(real_t=real_t, width=w, num_threads=nt, field_type=ft)
                            shape = ((d,) if ft == "vector" else ()) + (2 * w + 2,) * d
                            a = np.ones(shape, real_t)
                            if ft == "vector":
                                k(vector_field=a, fixed_vals=[0.0] * d)
                            else:
                                k(field=a, fixed_val=0.0)
                            CALLS += 1
                        except Exception:
                            pass
