"""Kernel registry, call tracer and dependence/alias monitor (DESIGN §3.3).

``install()`` wraps ``pystencils.create_kernel``.  For every kernel SophT generates afterwards the
registry keeps the write/read access sets taken from the assignment list SophT handed over, the
generator function that was on the stack and the compiled callable.  ``Kernel.compile()`` returns a
``MonitoredKernel``: every call is counted, checked by monitor M2 and offered to optional hooks.

M1 (creation): for every written field, every access to that field in the kernel has the write's
               offsets and index, and there is exactly one write access per (field, index).
M2 (call):     an array bound to a written field may share memory with another bound array only if
               both are the identical view and the other field is read at exactly the write
               offsets; two distinct written fields never overlap.
"""
import collections
import traceback

import numpy as np

REG = []  # KernelInfo, in creation order
CALLS = collections.Counter()  # kid -> number of calls
LEGAL = collections.Counter()  # (gen, written field, other field) -> legal same-view aliasings seen
VIOLATIONS = []  # dicts
PRE_HOOKS = []  # callables(info, kwargs)
POST_HOOKS = []  # callables(info, kwargs, pre_state)
_installed = False
_orig_create_kernel = None
SHADOW = {"on": False, "calls": 0, "kernels": set(), "mismatches": []}


class KernelInfo:
    __slots__ = (
        "kid", "gen", "gen_file", "writes", "reads", "scalars", "openmp", "num_threads",
        "iteration_slice", "ghost_layers", "callable", "assignments", "dtype", "m1_ok", "fields_dim", "twin_factory", "twin",
    )

    def reach(self):
        """largest |offset| of any access, per spatial axis count -> scalar"""
        r = 0
        for accs in list(self.reads.values()) + list(self.writes.values()):
            for off, _ in accs:
                for o in off:
                    r = max(r, abs(int(o)))
        return r

    def describe(self):
        return {
            "kid": self.kid,
            "gen": self.gen,
            "writes": {k: sorted(map(str, v)) for k, v in self.writes.items()},
            "reads": {k: sorted(map(str, v)) for k, v in self.reads.items()},
            "openmp": self.openmp,
            "num_threads": self.num_threads,
        }


def _aview(a):
    ai = a.__array_interface__
    return (ai["data"][0], a.shape, a.strides, a.dtype.str)


class MonitoredKernel:
    def __init__(self, real, info):
        self._real = real
        self.info = info

    def __getattr__(self, n):
        return getattr(self._real, n)

    def __call__(self, **kw):
        info = self.info
        CALLS[info.kid] += 1
        arrs = {k: v for k, v in kw.items() if isinstance(v, np.ndarray)}
        for w, wacc in info.writes.items():
            aw = arrs.get(w)
            if aw is None:
                continue
            woffs = {o for o, _ in wacc}
            for r, ar in arrs.items():
                if r == w:
                    continue
                if not np.shares_memory(aw, ar):
                    continue
                same = _aview(aw) == _aview(ar)
                roffs = {o for o, _ in info.reads.get(r, ())}
                ok = same and (r not in info.writes) and roffs <= woffs
                if ok:
                    LEGAL[(info.gen, w, r)] += 1
                else:
                    VIOLATIONS.append(
                        {
                            "monitor": "M2",
                            "gen": info.gen,
                            "kid": info.kid,
                            "written": w,
                            "other": r,
                            "same_view": bool(same),
                            "other_is_written": r in info.writes,
                            "other_read_offsets": sorted(map(str, roffs)),
                            "write_offsets": sorted(map(str, woffs)),
                            "stack": [f"{f.filename}:{f.lineno}:{f.name}" for f in traceback.extract_stack()[-6:-1]],
                        }
                    )
        pre = [h(info, kw) for h in PRE_HOOKS]
        shadow = None
        if SHADOW["on"] and info.twin_factory is not None:
            # shadow execution: run the num_threads(1) OpenMP twin of this kernel on copies of the bound
            # arrays (aliasing between arguments is preserved) and compare every written array bitwise
            if info.twin is None:
                info.twin = info.twin_factory()
            memo = {}
            skw = {}
            for k, v in kw.items():
                if isinstance(v, np.ndarray):
                    key = _aview(v)
                    if key not in memo:
                        memo[key] = np.array(v, copy=True, order="K") if v.flags.c_contiguous else v.copy()
                    skw[k] = memo[key]
                else:
                    skw[k] = v
            info.twin(**skw)
            shadow = skw
        out = self._real(**kw)
        if shadow is not None:
            SHADOW["calls"] += 1
            SHADOW["kernels"].add(info.kid)
            for w in info.writes:
                if w in arrs and np.ascontiguousarray(arrs[w]).tobytes() != np.ascontiguousarray(shadow[w]).tobytes():
                    SHADOW["mismatches"].append({"gen": info.gen, "kid": info.kid, "field": w, "threads": info.num_threads})
        for h, p in zip(POST_HOOKS, pre):
            h(info, kw, p)
        return out


class _KernelProxy:
    def __init__(self, k, info):
        self._k = k
        self._info = info

    def compile(self):
        mk = MonitoredKernel(self._k.compile(), self._info)
        self._info.callable = mk
        return mk

    def __getattr__(self, n):
        return getattr(self._k, n)


def _spy_create_kernel(assignments, *a, **kw):
    import pystencils as ps

    k = _orig_create_kernel(assignments, *a, **kw)
    info = KernelInfo()
    info.kid = len(REG)
    writes = collections.defaultdict(set)
    reads = collections.defaultdict(set)
    scalars = set()
    asg = list(assignments.all_assignments) if hasattr(assignments, "all_assignments") else list(assignments)
    dims = {}
    for x in asg:
        lhs = x.lhs
        if isinstance(lhs, ps.Field.Access):
            writes[lhs.field.name].add((tuple(int(o) for o in lhs.offsets), tuple(lhs.index)))
            dims[lhs.field.name] = (lhs.field.spatial_dimensions, lhs.field.index_dimensions)
        for r in x.rhs.atoms(ps.Field.Access):
            reads[r.field.name].add((tuple(int(o) for o in r.offsets), tuple(r.index)))
            dims[r.field.name] = (r.field.spatial_dimensions, r.field.index_dimensions)
        for s in x.rhs.free_symbols:
            if not isinstance(s, ps.Field.Access):
                scalars.add(str(s))
    stack = traceback.extract_stack()
    gens = [(f.name, f.filename) for f in stack if f.name.startswith("gen_")]
    info.gen, info.gen_file = gens[-1] if gens else ("?", stack[-2].filename)
    info.writes = dict(writes)
    info.reads = dict(reads)
    info.scalars = sorted(scalars)
    info.fields_dim = dims
    cfg = kw.get("config")
    try:
        info.openmp = bool(cfg.cpu.openmp.enable)
        info.num_threads = cfg.cpu.openmp.num_threads
        info.iteration_slice = cfg.iteration_slice
        info.ghost_layers = cfg.ghost_layers
        info.dtype = str(cfg.get_option("default_dtype"))
    except Exception:
        info.openmp = None
        info.num_threads = None
        info.iteration_slice = None
        info.ghost_layers = None
        info.dtype = None
    info.callable = None
    info.assignments = asg
    info.twin = None
    info.twin_factory = None
    if info.openmp and info.num_threads not in (None, 1):
        import copy

        def _mk(cfg=cfg, assignments=assignments, a=a):
            c2 = copy.deepcopy(cfg)
            c2.cpu.openmp.num_threads = 1
            return _orig_create_kernel(assignments, *a, config=c2).compile()

        info.twin_factory = _mk
    # M1
    info.m1_ok = True
    for f, ws in info.writes.items():
        by_index = collections.Counter(idx for _, idx in ws)
        bad_multi = [i for i, c in by_index.items() if c > 1]
        woffs = {o for o, _ in ws}
        racc = info.reads.get(f, set())
        # a read of the written field must be at the offsets of the write and at an index that the
        # same cell's update writes (centre-only read-modify-write)
        bad_reads = [(o, i) for (o, i) in racc if o not in woffs]
        if bad_multi or bad_reads or len(woffs) != 1:
            info.m1_ok = False
            VIOLATIONS.append(
                {
                    "monitor": "M1",
                    "gen": info.gen,
                    "kid": info.kid,
                    "field": f,
                    "writes": sorted(map(str, ws)),
                    "reads_of_written_field": sorted(map(str, racc)),
                }
            )
    REG.append(info)
    return _KernelProxy(k, info)


def install():
    global _installed, _orig_create_kernel
    if _installed:
        return
    import pystencils as ps

    _orig_create_kernel = ps.create_kernel
    ps.create_kernel = _spy_create_kernel
    _installed = True


def reset_counters():
    CALLS.clear()
    LEGAL.clear()
    del VIOLATIONS[:]


def summary():
    return {
        "kernels_seen": len(REG),
        "kernel_calls_checked": int(sum(CALLS.values())),
        "legal_aliasings": {"/".join(k): v for k, v in LEGAL.items()},
        "alias_violations": len(VIOLATIONS),
        "generators": sorted({i.gen for i in REG}),
    }


def find(gen=None, reads_offsets=None, field=None):
    """look up internal sub-kernels by generator name and access signature"""
    out = []
    for i in REG:
        if gen is not None and i.gen != gen:
            continue
        if reads_offsets is not None:
            offs = {o for o, _ in i.reads.get(field, ())}
            if offs != set(reads_offsets):
                continue
        out.append(i)
    return out
