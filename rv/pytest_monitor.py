"""pytest plugin (``-p rv.pytest_monitor``): run the repository's own tests under the compatibility adapter
with the kernel registry / alias monitors (M1, M2) and the runtime contracts switched on, so that the ~740 repo
tests become an extra workload for the monitors (DESIGN §3.8).  Each (xdist) process writes a JSON summary to
$RV_PYTEST_OUT/<pid>.json at session end."""
import json
import os

from rv import compat, contracts, kernelspy

compat.install()
kernelspy.install()
contracts.attach()


def pytest_sessionfinish(session, exitstatus):
    out = os.environ.get("RV_PYTEST_OUT")
    if not out:
        return
    os.makedirs(out, exist_ok=True)
    s = kernelspy.summary()
    s["alias_violation_list"] = kernelspy.VIOLATIONS[:20]
    s["contracts"] = contracts.summary()
    with open(os.path.join(out, f"{os.getpid()}.json"), "w") as f:
        json.dump(s, f, default=str)
