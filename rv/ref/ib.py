"""Independent immersed-boundary reference: regularised delta functions and dense transfer matrices.

Written from the literature, not from SophT's kernels (DESIGN §3.4):

* cosine 4-point function (Peskin 1977 / Peskin 2002 eq. 6.28)
      phi(r) = (1 + cos(pi r / 2)) / 4        |r| <= 2,      0 otherwise
* Peskin 2002 ("The immersed boundary method", Acta Numerica 11) eq. 6.27, the 4-point function
  with  sum_j phi(r-j) = 1,  sum_j (r-j) phi(r-j) = 0,  sum_j phi(r-j)^2 = 3/8:
      phi(r) = (3 - 2|r| + sqrt( 1 + 4|r| - 4 r^2)) / 8       0 <= |r| <= 1
               (5 - 2|r| - sqrt(-7 + 12|r| - 4 r^2)) / 8       1 <= |r| <= 2
               0                                               2 <= |r|

Conventions (the ones SophT documents and `rv.ref.ops` uses)
-----------------------------------------------------------
* x runs along the LAST array axis: a 2-D field is ``u[j(y), i(x)]``, a 3-D field ``u[k(z), j(y), i(x)]``;
  vector fields carry the component axis first, component 0 = x, 1 = y, 2 = z.
* marker positions are ``positions[a, m]`` with a = 0 -> x, 1 -> y, 2 -> z  (shape ``(d, N)``).
* cell centre number ``i`` along any axis sits at ``i * dx + shift`` with ``shift = dx / 2`` unless given
  ("eul_grid_coord_shift: shift of the coordinates of the Eulerian grid start from 0, usually dx/2").
* ``dense_weights(positions, grid_shape, dx, kernel)`` returns ``W[m, *grid_shape]`` with
      W[m, c] = prod_a phi((x_c,a - X_m,a) / dx) / dx^d            (a discrete delta, units 1/volume)
  so that
      interpolation   (I u)_m  = sum_c W[m, c] u[c] dx^d          -> ``interpolate(W, u, dx)``
      spreading       (S F)_c  = sum_m W[m, c] F[m]               -> ``spread(W, F)``   (to be ADDED to the target)
      adjointness     sum_m F_m (I u)_m = sum_c (S F)_c u_c dx^d
  Everything is float64; the distance ``x_c - X`` is formed in long double so that the reference does not
  carry the ``eps * |X| / dx`` cancellation noise the working-precision kernels have.
"""
import numpy as np

F = np.float64
LD = np.longdouble
KERNELS = ("cosine", "peskin")


def phi_cosine(r):
    """cosine 4-point delta function, support |r| <= 2"""
    r = np.abs(np.asarray(r, F))
    return np.where(r <= 2.0, 0.25 * (1.0 + np.cos(0.5 * np.pi * r)), 0.0)


def phi_peskin(r):
    """Peskin (2002) eq. 6.27 4-point delta function, support |r| <= 2"""
    r = np.abs(np.asarray(r, F))
    inner = (3.0 - 2.0 * r + np.sqrt(np.maximum(1.0 + 4.0 * r - 4.0 * r * r, 0.0))) / 8.0
    outer = (5.0 - 2.0 * r - np.sqrt(np.maximum(-7.0 + 12.0 * r - 4.0 * r * r, 0.0))) / 8.0
    return np.where(r <= 1.0, inner, np.where(r <= 2.0, outer, 0.0))


PHI = {"cosine": phi_cosine, "peskin": phi_peskin}
# max |phi'| of both functions is 1/2 (Peskin at |r| = 1; cosine pi/8), max phi is 1/2 (r = 0)
PHI_MAX = 0.5
DPHI_MAX = 0.5


def cell_centres(n, dx, shift=None):
    """float64 coordinates of the n cell centres along one axis: i*dx + shift (shift defaults to dx/2)"""
    dx = LD(F(dx))
    sh = dx / 2 if shift is None else LD(F(shift))
    return (np.arange(n).astype(LD) * dx + sh).astype(F)


def scaled_distances(x_markers, n, dx, shift=None):
    """r[m, i] = (x_i - X_m) / dx for the n cell centres of one axis, formed in long double -> float64"""
    dxl = LD(F(dx))
    sh = dxl / 2 if shift is None else LD(F(shift))
    xc = np.arange(n).astype(LD) * dxl + sh
    X = np.asarray(x_markers, F).astype(LD)
    return ((xc[None, :] - X[:, None]) / dxl).astype(F)


def axis_weights(x_markers, n, dx, kernel, shift=None):
    """Phi[m, i] = phi((x_i - X_m)/dx): the one-dimensional factor of the discrete delta (dimensionless)"""
    return PHI[kernel](scaled_distances(x_markers, n, dx, shift))


def axis_factors(positions, grid_shape, dx, kernel, shift=None):
    """list over ARRAY axes (z, y, x order) of Phi[m, n_axis]; positions[a] belongs to array axis d-1-a"""
    positions = np.asarray(positions, F)
    d = len(grid_shape)
    if positions.shape[0] != d:
        raise ValueError("positions must be (d, N) with d == len(grid_shape)")
    return [axis_weights(positions[d - 1 - ax], grid_shape[ax], dx, kernel, shift) for ax in range(d)]


def dense_weights(positions, grid_shape, dx, kernel, shift=None):
    """W[m, *grid_shape] = prod_a phi((x_c,a - X_m,a)/dx) / dx^d   (see the module docstring)"""
    fac = axis_factors(positions, grid_shape, dx, kernel, shift)
    d = len(grid_shape)
    inv = 1.0 / float(F(dx)) ** d
    if d == 2:
        return np.einsum("mj,mi->mji", fac[0], fac[1]) * inv
    if d == 3:
        return np.einsum("mk,mj,mi->mkji", fac[0], fac[1], fac[2]) * inv
    raise ValueError("2-D or 3-D only")


def interpolate(W, u, dx):
    """(I u)_m = sum_c W[m,c] u[c] dx^d ; u may carry leading component axes: (..., *grid) -> (..., N)"""
    W = np.asarray(W, F)
    d = W.ndim - 1
    u = np.asarray(u, F)
    lead = u.shape[: u.ndim - d]
    out = u.reshape(-1, int(np.prod(W.shape[1:]))) @ W.reshape(W.shape[0], -1).T
    return out.reshape(lead + (W.shape[0],)) * float(F(dx)) ** d


def spread(W, Fm):
    """(S F)_c = sum_m W[m,c] F[m] ; F may carry leading component axes: (..., N) -> (..., *grid)"""
    W = np.asarray(W, F)
    Fm = np.asarray(Fm, F)
    lead = Fm.shape[:-1]
    out = Fm.reshape(-1, W.shape[0]) @ W.reshape(W.shape[0], -1)
    return out.reshape(lead + W.shape[1:])


def window_scatter(weights, index, grid_shape, width=2):
    """Scatter SophT's compact per-marker weights to dense fields using the documented window.

    weights: (2w,)*d + (N,)  laid out like the grid (x last);  index: (d, N) integer, index[a] along
    coordinate a;  the window of marker m along coordinate a is the cells index[a, m] - w + 1 ... + w.
    Returns D[m, *grid_shape] (float64, zeros elsewhere) and ``inside[m]`` = window lies in the grid;
    markers whose window leaves the grid are left zero.
    """
    weights = np.asarray(weights)
    d = len(grid_shape)
    N = weights.shape[-1]
    D = np.zeros((N,) + tuple(grid_shape), F)
    inside = np.ones(N, bool)
    for a in range(d):
        n = grid_shape[d - 1 - a]
        inside &= (index[a] - width + 1 >= 0) & (index[a] + width <= n - 1)
    for m in np.nonzero(inside)[0]:
        sl = tuple(slice(int(index[d - 1 - ax, m]) - width + 1, int(index[d - 1 - ax, m]) + width + 1) for ax in range(d))
        D[(m,) + sl] = weights[..., m]
    return D, inside
