"""Catalogue of every public Eulerian-grid kernel variant: how to call it, its documented closed
form and its documented write region (DESIGN §4 C13, Appendix B).  Used by C13 (formula + region
audit + ASan leg) and C15 (thread-count differential, alias monitor workload).

A ``Variant`` produces a ``Case`` for a given (rng, shape, dtype, view kind):

    case.kw          keyword arguments for the public callable (arrays are views chosen by the
                     view kind; scalars as the library expects them)
    case.arrays      name -> (view, role) with role in {"in", "out", "inout", "scratch"}
    case.expect(inp) -> {name: (ref float64 array, mask)}   closed form on ``mask`` (bool array of
                     the output's shape); outside ``mask`` the output must be unchanged
    case.value_compare  names whose out-of-region cells are compared by value (time-step kernels:
                     ``field + 0`` may turn -0.0 into +0.0)
    case.smooth      names of inputs that may be perturbed for the noise-floor estimate

Closed forms are written from the documented formulas (rv.ref.ops), never from kernel source.
Convention: x = last array axis; vector component 0 = x.
"""
import numpy as np

from . import ops

F = np.float64


# ------------------------------------------------------------------------------------------------
# region masks
# ------------------------------------------------------------------------------------------------
def m_full(shape):
    return np.ones(shape, bool)


def m_int(shape, g, lead=0):
    m = np.zeros(shape, bool)
    sl = (slice(None),) * lead + (slice(g, -g),) * (len(shape) - lead)
    if all(n - 2 * g > 0 for n in shape[lead:]):
        m[sl] = True
    return m


def m_zone(shape, w, lead=0):
    """cells within w of a face (spatial axes only)"""
    if w == 0:
        return np.zeros(shape, bool)
    return ~m_int(shape, w, lead)


# ------------------------------------------------------------------------------------------------
class Case:
    def __init__(self, fn, kw, roles, expect, value_compare=(), smooth=(), note="", scale=0.0, close_compare=()):
        self.scale = scale  # magnitude of constant terms that cancel inside the closed form (noise floor)
        self.close_compare = set(close_compare)  # out-of-region cells only equal up to rounding (documented exception)
        self.fn = fn
        self.kw = kw
        self.roles = roles  # array-argument name -> role
        self.expect = expect
        self.value_compare = set(value_compare)
        self.smooth = set(smooth)
        self.note = note
        self.alias = {}  # argument name -> name of the argument it IS (same array object): in-place use, e.g. sum_field is field_1


class Variant:
    def __init__(self, name, gen, dim, make, opts=None, min_side=3, lead_dims=None, needs_grid=False, tags=()):
        self.name = name
        self.gen = gen
        self.dim = dim
        self.make = make  # make(K, A, shape, real_t, rng) -> Case ; K = compiled callable; A = array factory
        self.opts = opts or {}
        self.min_side = min_side
        self.needs_grid = needs_grid
        self.tags = set(tags)

    def build(self, real_t, num_threads, extra=None):
        import sopht.numeric.eulerian_grid_ops as spne

        kw = dict(self.opts)
        if extra:
            kw.update(extra)
        return getattr(spne, self.gen)(real_t=real_t, num_threads=num_threads, **kw)


VARIANTS = []


def _reg(*a, **k):
    v = Variant(*a, **k)
    VARIANTS.append(v)
    return v


def _vec(d):
    return (d,)


# ------------------------------------------------------------------------------------------------
# element-wise algebra
# ------------------------------------------------------------------------------------------------
def _mk_sum(lead):
    def make(K, A, shape, real_t, rng):
        s = lead(len(shape)) + shape
        kw = dict(sum_field=A.out(s), field_1=A.inp(s), field_2=A.inp(s))
        return Case(K, kw, dict(sum_field="out", field_1="in", field_2="in"),
                    lambda i: {"sum_field": (i["field_1"] + i["field_2"], m_full(s))}, smooth=("field_1", "field_2"))
    return make


def _mk_sum_inplace(lead, which):
    """the documented in-place use (every time-step kernel calls it so): sum_field IS field_1 (or field_2)"""
    other = "field_2" if which == "field_1" else "field_1"

    def make(K, A, shape, real_t, rng):
        s = lead(len(shape)) + shape
        x = A.inout(s)
        kw = {"sum_field": x, which: x, other: A.inp(s)}
        c = Case(K, kw, {"sum_field": "inout", other: "in"}, lambda i: {"sum_field": (i["sum_field"] + i[other], m_full(s))}, smooth=("sum_field", other))
        c.alias = {which: "sum_field"}
        return c
    return make


def _mk_saxpby_inplace(lead, which):
    other = "field_2" if which == "field_1" else "field_1"

    def make(K, A, shape, real_t, rng):
        s = lead(len(shape)) + shape
        a, b = real_t(rng.standard_normal()), real_t(rng.standard_normal())
        x = A.inout(s)
        kw = {"sum_field": x, which: x, other: A.inp(s), f"{which}_prefac": a, f"{other}_prefac": b}
        c = Case(K, kw, {"sum_field": "inout", other: "in"}, lambda i: {"sum_field": (float(a) * i["sum_field"] + float(b) * i[other], m_full(s))},
                 smooth=("sum_field", other))
        c.alias = {which: "sum_field"}
        return c
    return make


def _mk_saxpby(lead):
    def make(K, A, shape, real_t, rng):
        s = lead(len(shape)) + shape
        a, b = real_t(rng.standard_normal()), real_t(rng.standard_normal())
        kw = dict(sum_field=A.out(s), field_1=A.inp(s), field_2=A.inp(s), field_1_prefac=a, field_2_prefac=b)
        return Case(K, kw, dict(sum_field="out", field_1="in", field_2="in"),
                    lambda i: {"sum_field": (float(a) * i["field_1"] + float(b) * i["field_2"], m_full(s))}, smooth=("field_1", "field_2"))
    return make


def _fixed_vals(rng, d, real_t):
    """per-component constants: generic, with exact zeros (python int 0 / 0.0), all equal, or distinct but nearly equal
    (tiny magnitudes, or differing in the 6th digit) - a wrapper may neither skip a zero nor merge nearly equal values"""
    mode = int(rng.integers(5))
    if mode == 0:
        return [float(real_t(x)) for x in rng.standard_normal(d)]
    if mode == 1:
        v = [float(real_t(x)) for x in rng.standard_normal(d)]
        for k in rng.permutation(d)[: int(rng.integers(1, d))]:
            v[int(k)] = 0 if rng.random() < 0.5 else 0.0
        return v
    if mode == 2:
        return [float(real_t(rng.standard_normal()))] * d
    if mode == 3:
        return [float(real_t(x)) for x in (2.5e-9, -1e-9, 4e-9)[:d]]
    base = float(real_t(rng.uniform(0.5, 2)))
    return [float(real_t(base * (1 + 5e-6 * k))) for k in (0, 1, -1)[:d]]


def _vals_scale(vals):
    return 0.0


def _mk_set(vector):
    def make(K, A, shape, real_t, rng):
        d = len(shape)
        if not vector:
            c = real_t(rng.standard_normal())
            kw = dict(field=A.out(shape), fixed_val=c)
            return Case(K, kw, dict(field="out"), lambda i: {"field": (np.full(shape, float(c)), m_full(shape))})
        s = (d,) + shape
        vals = _fixed_vals(rng, d, real_t)
        kw = dict(vector_field=A.out(s), fixed_vals=list(vals))
        ref = np.stack([np.full(shape, float(v)) for v in vals])
        return Case(K, kw, dict(vector_field="out"), lambda i: {"vector_field": (ref, m_full(s))}, scale=_vals_scale(vals))
    return make


def _mk_copy(K, A, shape, real_t, rng):
    kw = dict(field=A.out(shape), rhs_field=A.inp(shape))
    return Case(K, kw, dict(field="out", rhs_field="in"), lambda i: {"field": (i["rhs_field"], m_full(shape))}, smooth=("rhs_field",))


def _mk_cprod(K, A, shape, real_t, rng):
    kw = dict(product_field=A.cout(shape), field_1=A.cinp(shape), field_2=A.cinp(shape))
    return Case(K, kw, dict(product_field="out", field_1="in", field_2="in"),
                lambda i: {"product_field": (i["field_1"] * i["field_2"], m_full(shape))}, smooth=("field_1", "field_2"))


def _mk_setb(vector, w):
    def make(K, A, shape, real_t, rng):
        d = len(shape)
        if not vector:
            c = real_t(rng.standard_normal())
            kw = dict(field=A.inout(shape), fixed_val=c)
            return Case(K, kw, dict(field="inout"), lambda i: {"field": (np.full(shape, float(c)), m_zone(shape, w))})
        s = (d,) + shape
        vals = _fixed_vals(rng, d, real_t)
        ref = np.stack([np.full(shape, float(v)) for v in vals])
        kw = dict(vector_field=A.inout(s), fixed_vals=list(vals))
        return Case(K, kw, dict(vector_field="inout"), lambda i: {"vector_field": (ref, m_zone(s, w, 1))})
    return make


def _mk_addc(vector):
    def make(K, A, shape, real_t, rng):
        d = len(shape)
        if not vector:
            c = real_t(rng.standard_normal())
            kw = dict(sum_field=A.out(shape), field=A.inp(shape), fixed_val=c)
            return Case(K, kw, dict(sum_field="out", field="in"), lambda i: {"sum_field": (i["field"] + float(c), m_full(shape))}, smooth=("field",))
        s = (d,) + shape
        vals = np.array([float(x) for x in _fixed_vals(rng, d, real_t)])
        kw = dict(sum_field=A.out(s), vector_field=A.inp(s), fixed_vals=(vals.copy() if rng.random() < 0.5 else [float(x) if x != 0 else 0 for x in vals]))
        return Case(K, kw, dict(sum_field="out", vector_field="in"),
                    lambda i: {"sum_field": (i["vector_field"] + vals.reshape((d,) + (1,) * d), m_full(s))}, smooth=("vector_field",))
    return make


def _mk_cross(K, A, shape, real_t, rng):
    s = (3,) + shape
    kw = dict(result_field=A.out(s), field_1=A.inp(s), field_2=A.inp(s))
    return Case(K, kw, dict(result_field="out", field_1="in", field_2="in"),
                lambda i: {"result_field": (np.cross(i["field_1"], i["field_2"], axis=0), m_full(s))}, smooth=("field_1", "field_2"))


for d in (2, 3):
    _reg(f"elementwise_sum_{d}d_scalar", f"gen_elementwise_sum_pyst_kernel_{d}d", d, _mk_sum(lambda n: ()), {"field_type": "scalar"}, min_side=1)
    _reg(f"elementwise_sum_{d}d_vector", f"gen_elementwise_sum_pyst_kernel_{d}d", d, _mk_sum(_vec), {"field_type": "vector"}, min_side=1)
    _reg(f"elementwise_saxpby_{d}d_scalar", f"gen_elementwise_saxpby_pyst_kernel_{d}d", d, _mk_saxpby(lambda n: ()), {"field_type": "scalar"}, min_side=1)
    _reg(f"elementwise_saxpby_{d}d_vector", f"gen_elementwise_saxpby_pyst_kernel_{d}d", d, _mk_saxpby(_vec), {"field_type": "vector"}, min_side=1)
    _reg(f"elementwise_sum_{d}d_scalar_inplace1", f"gen_elementwise_sum_pyst_kernel_{d}d", d, _mk_sum_inplace(lambda n: (), "field_1"), {"field_type": "scalar"}, min_side=1)
    _reg(f"elementwise_sum_{d}d_vector_inplace2", f"gen_elementwise_sum_pyst_kernel_{d}d", d, _mk_sum_inplace(_vec, "field_2"), {"field_type": "vector"}, min_side=1)
    _reg(f"elementwise_saxpby_{d}d_scalar_inplace2", f"gen_elementwise_saxpby_pyst_kernel_{d}d", d, _mk_saxpby_inplace(lambda n: (), "field_2"), {"field_type": "scalar"}, min_side=1)
    _reg(f"elementwise_saxpby_{d}d_vector_inplace1", f"gen_elementwise_saxpby_pyst_kernel_{d}d", d, _mk_saxpby_inplace(_vec, "field_1"), {"field_type": "vector"}, min_side=1)
    _reg(f"set_fixed_val_{d}d_scalar", f"gen_set_fixed_val_pyst_kernel_{d}d", d, _mk_set(False), {"field_type": "scalar"}, min_side=1)
    _reg(f"set_fixed_val_{d}d_vector", f"gen_set_fixed_val_pyst_kernel_{d}d", d, _mk_set(True), {"field_type": "vector"}, min_side=1)
    _reg(f"elementwise_copy_{d}d", f"gen_elementwise_copy_pyst_kernel_{d}d", d, _mk_copy, min_side=1)
    _reg(f"elementwise_complex_product_{d}d", f"gen_elementwise_complex_product_pyst_kernel_{d}d", d, _mk_cprod, min_side=1, tags=("complex",))
    for w in (1, 2, 3):
        _reg(f"set_fixed_val_at_boundaries_{d}d_scalar_w{w}", f"gen_set_fixed_val_at_boundaries_pyst_kernel_{d}d", d, _mk_setb(False, w),
             {"field_type": "scalar", "width": w}, min_side=2 * w + 1)
        _reg(f"set_fixed_val_at_boundaries_{d}d_vector_w{w}", f"gen_set_fixed_val_at_boundaries_pyst_kernel_{d}d", d, _mk_setb(True, w),
             {"field_type": "vector", "width": w}, min_side=2 * w + 1)
    _reg(f"add_fixed_val_{d}d_scalar", f"gen_add_fixed_val_pyst_kernel_{d}d", d, _mk_addc(False), {"field_type": "scalar"}, min_side=1)
    _reg(f"add_fixed_val_{d}d_vector", f"gen_add_fixed_val_pyst_kernel_{d}d", d, _mk_addc(True), {"field_type": "vector"}, min_side=1)
_reg("elementwise_cross_product_3d", "gen_elementwise_cross_product_pyst_kernel_3d", 3, _mk_cross, min_side=1)


# ------------------------------------------------------------------------------------------------
# differential stencils
# ------------------------------------------------------------------------------------------------
def _pref(rng, real_t, lo, hi):
    """multiplier argument (prefactor, nu dt/dx^2, dt/dx, dt/2dx): uniform, but exactly zero one time in eight (inviscid run, coupling
    switched off, paused clock): the kernel must then still WRITE its (zero) contribution over whatever the output held"""
    v = rng.uniform(lo, hi)
    r = rng.random()
    if r < 0.125:
        return real_t(0.0)
    if r < 0.2:
        return real_t(v * 10.0 ** rng.uniform(-13, -8))  # tiny but NOT zero: "close to zero" shortcuts are wrong here
    return real_t(v)


def _ring_expect(name, ref, shape, reset, lead=0):
    """interior-1 closed form, plus zero on the ring when ghost-zone reset is on"""
    if reset:
        return {name: (ref, m_full(shape))}  # ref already carries zeros on the ring
    return {name: (ref, m_int(shape, 1, lead))}


def _mk_diff_flux(vector, reset):
    def make(K, A, shape, real_t, rng):
        p = _pref(rng, real_t, 0.05, 2.0)
        if not vector:
            kw = dict(diffusion_flux=A.out(shape), field=A.inp(shape), prefactor=p)
            return Case(K, kw, dict(diffusion_flux="out", field="in"),
                        lambda i: _ring_expect("diffusion_flux", ops.laplacian_flux(i["field"], float(p)), shape, reset), smooth=("field",))
        s = (3,) + shape
        kw = dict(vector_field_diffusion_flux=A.out(s), vector_field=A.inp(s), prefactor=p)
        return Case(K, kw, dict(vector_field_diffusion_flux="out", vector_field="in"),
                    lambda i: _ring_expect("vector_field_diffusion_flux", np.stack([ops.laplacian_flux(i["vector_field"][c], float(p)) for c in range(3)]), s, reset, 1),
                    smooth=("vector_field",))
    return make


def _mk_diff_step(vector):
    def make(K, A, shape, real_t, rng):
        a = _pref(rng, real_t, 0.01, 0.3)
        if not vector:
            kw = dict(field=A.inout(shape), diffusion_flux=A.scratch(shape), nu_dt_by_dx2=a)
            return Case(K, kw, dict(field="inout", diffusion_flux="scratch"),
                        lambda i: {"field": (i["field"] + ops.laplacian_flux(i["field"], float(a)), m_int(shape, 1))},
                        value_compare=("field",), smooth=("field",))
        s = (3,) + shape
        kw = dict(vector_field=A.inout(s), diffusion_flux=A.scratch(shape), nu_dt_by_dx2=a)
        return Case(K, kw, dict(vector_field="inout", diffusion_flux="scratch"),
                    lambda i: {"vector_field": (np.stack([i["vector_field"][c] + ops.laplacian_flux(i["vector_field"][c], float(a)) for c in range(3)]), m_int(s, 1, 1))},
                    value_compare=("vector_field",), smooth=("vector_field",))
    return make


def _mk_adv_flux(K, A, shape, real_t, rng):
    d = len(shape)
    inv_dx = real_t(rng.uniform(0.5, 20.0))
    kw = dict(advection_flux=A.inout(shape), field=A.inp(shape), velocity=A.inp((d,) + shape, kind="vel_ties" if rng.random() < 0.5 else "noise"), inv_dx=inv_dx)
    return Case(K, kw, dict(advection_flux="inout", field="in", velocity="in"),
                lambda i: {"advection_flux": (i["advection_flux"] + float(inv_dx) * ops.eno3_flux_divergence(i["field"], i["velocity"]), m_int(shape, 2))},
                smooth=("field", "advection_flux"))


def _mk_adv_step(vector):
    def make(K, A, shape, real_t, rng):
        d = len(shape)
        c = _pref(rng, real_t, 0.01, 0.5)
        if not vector:
            kw = dict(field=A.inout(shape), advection_flux=A.scratch(shape), velocity=A.inp((d,) + shape, kind="vel_ties" if rng.random() < 0.5 else "noise"), dt_by_dx=c)
            return Case(K, kw, dict(field="inout", advection_flux="scratch", velocity="in"),
                        lambda i: {"field": (i["field"] - float(c) * ops.eno3_flux_divergence(i["field"], i["velocity"]), m_int(shape, 2))},
                        value_compare=("field",), smooth=("field",))
        s = (3,) + shape
        kw = dict(vector_field=A.inout(s), advection_flux=A.scratch(shape), velocity=A.inp(s, kind="vel_ties" if rng.random() < 0.5 else "noise"), dt_by_dx=c)
        return Case(K, kw, dict(vector_field="inout", advection_flux="scratch", velocity="in"),
                    lambda i: {"vector_field": (np.stack([i["vector_field"][k] - float(c) * ops.eno3_flux_divergence(i["vector_field"][k], i["velocity"]) for k in range(3)]), m_int(s, 2, 1))},
                    value_compare=("vector_field",), smooth=("vector_field",))
    return make


def _mk_inplane_curl(K, A, shape, real_t, rng):
    p = _pref(rng, real_t, 0.1, 5.0)
    kw = dict(curl=A.out(shape), field=A.inp((2,) + shape), prefactor=p)
    return Case(K, kw, dict(curl="out", field="in"), lambda i: {"curl": (ops.inplane_curl2(i["field"], float(p)), m_int(shape, 1))}, smooth=("field",))


def _mk_outplane_curl(reset):
    def make(K, A, shape, real_t, rng):
        p = _pref(rng, real_t, 0.1, 5.0)
        s = (2,) + shape
        kw = dict(curl=A.out(s), field=A.inp(shape), prefactor=p)
        return Case(K, kw, dict(curl="out", field="in"), lambda i: _ring_expect("curl", ops.outplane_curl2(i["field"], float(p)), s, reset, 1), smooth=("field",))
    return make


def _mk_curl3(reset):
    def make(K, A, shape, real_t, rng):
        p = _pref(rng, real_t, 0.1, 5.0)
        s = (3,) + shape
        kw = dict(curl=A.out(s), field=A.inp(s), prefactor=p)
        return Case(K, kw, dict(curl="out", field="in"), lambda i: _ring_expect("curl", ops.curl3(i["field"], float(p)), s, reset, 1), smooth=("field",))
    return make


def _mk_div3(reset):
    def make(K, A, shape, real_t, rng):
        p = real_t(rng.uniform(0.5, 20.0))
        kw = dict(divergence=A.out(shape), field=A.inp((3,) + shape), inv_dx=p)
        return Case(K, kw, dict(divergence="out", field="in"), lambda i: _ring_expect("divergence", ops.div3(i["field"], float(p)), shape, reset), smooth=("field",))
    return make


def _curl_of(d, Fv, p):
    return ops.inplane_curl2(Fv, p) if d == 2 else ops.curl3(Fv, p)


def _mk_upd_forcing(K, A, shape, real_t, rng):
    d = len(shape)
    p = _pref(rng, real_t, 0.05, 3.0)
    sw = shape if d == 2 else (3,) + shape
    kw = dict(vorticity_field=A.inout(sw), velocity_forcing_field=A.inp((d,) + shape), prefactor=p)
    return Case(K, kw, dict(vorticity_field="inout", velocity_forcing_field="in"),
                lambda i: {"vorticity_field": (i["vorticity_field"] + _curl_of(d, i["velocity_forcing_field"], float(p)), m_int(sw, 1, 0 if d == 2 else 1))},
                smooth=("vorticity_field", "velocity_forcing_field"))


def _mk_upd_penalised(K, A, shape, real_t, rng):
    d = len(shape)
    p = _pref(rng, real_t, 0.05, 3.0)
    sw = shape if d == 2 else (3,) + shape
    sv = (d,) + shape
    kw = dict(vorticity_field=A.inout(sw), penalised_velocity_field=A.inp(sv), velocity_field=A.inp(sv), prefactor=p)
    return Case(K, kw, dict(vorticity_field="inout", penalised_velocity_field="in", velocity_field="in"),
                lambda i: {"vorticity_field": (i["vorticity_field"] + _curl_of(d, i["penalised_velocity_field"] - i["velocity_field"], float(p)), m_int(sw, 1, 0 if d == 2 else 1))},
                smooth=("vorticity_field", "penalised_velocity_field", "velocity_field"))


def stretching_flux(w, u, p):
    """p * (w . Delta) u_c, centred differences (not divided by 2dx), ring = 0"""
    out = np.zeros_like(w)
    I = ops.interior(3)
    for c in range(3):
        out[c][I] = p * (w[0][I] * ops.cdiff(u[c], 2) + w[1][I] * ops.cdiff(u[c], 1) + w[2][I] * ops.cdiff(u[c], 0))
    return out


def _mk_stretch_flux(K, A, shape, real_t, rng):
    p = _pref(rng, real_t, 0.05, 2.0)
    s = (3,) + shape
    kw = dict(vorticity_stretching_flux_field=A.out(s), vorticity_field=A.inp(s), velocity_field=A.inp(s), prefactor=p)
    return Case(K, kw, dict(vorticity_stretching_flux_field="out", vorticity_field="in", velocity_field="in"),
                lambda i: {"vorticity_stretching_flux_field": (stretching_flux(i["vorticity_field"], i["velocity_field"], float(p)), m_full(s))},
                smooth=("vorticity_field", "velocity_field"))


def _mk_stretch_euler(K, A, shape, real_t, rng):
    p = _pref(rng, real_t, 0.01, 0.3)
    s = (3,) + shape
    kw = dict(vorticity_field=A.inout(s), velocity_field=A.inp(s), vorticity_stretching_flux_field=A.scratch(s), dt_by_2_dx=p)
    return Case(K, kw, dict(vorticity_field="inout", velocity_field="in", vorticity_stretching_flux_field="scratch"),
                lambda i: {"vorticity_field": (i["vorticity_field"] + stretching_flux(i["vorticity_field"], i["velocity_field"], float(p)), m_int(s, 1, 1))},
                value_compare=("vorticity_field",), smooth=("vorticity_field", "velocity_field"))


def _mk_stretch_rk3(K, A, shape, real_t, rng, ctx=None):
    """closed form is C20's business (and finding F5); here only the region/inputs audit"""
    ctx["midstep"][...] = (rng.standard_normal(ctx["midstep"].shape) * 50).astype(real_t)
    p = _pref(rng, real_t, 0.01, 0.3)
    s = (3,) + shape
    kw = dict(vorticity_field=A.inout(s), velocity_field=A.inp(s), vorticity_stretching_flux_field=A.scratch(s), dt_by_2_dx=p)
    return Case(K, kw, dict(vorticity_field="inout", velocity_field="in", vorticity_stretching_flux_field="scratch"),
                lambda i: {"vorticity_field": (None, m_int(s, 1, 1))}, close_compare=("vorticity_field",))


for reset in (True, False):
    r = "reset" if reset else "noreset"
    _reg(f"diffusion_flux_2d_{r}", "gen_diffusion_flux_pyst_kernel_2d", 2, _mk_diff_flux(False, reset), {"reset_ghost_zone": reset})
    _reg(f"diffusion_flux_3d_scalar_{r}", "gen_diffusion_flux_pyst_kernel_3d", 3, _mk_diff_flux(False, reset), {"reset_ghost_zone": reset, "field_type": "scalar"})
    _reg(f"diffusion_flux_3d_vector_{r}", "gen_diffusion_flux_pyst_kernel_3d", 3, _mk_diff_flux(True, reset), {"reset_ghost_zone": reset, "field_type": "vector"})
    _reg(f"outplane_field_curl_2d_{r}", "gen_outplane_field_curl_pyst_kernel_2d", 2, _mk_outplane_curl(reset), {"reset_ghost_zone": reset})
    _reg(f"curl_3d_{r}", "gen_curl_pyst_kernel_3d", 3, _mk_curl3(reset), {"reset_ghost_zone": reset})
    _reg(f"divergence_3d_{r}", "gen_divergence_pyst_kernel_3d", 3, _mk_div3(reset), {"reset_ghost_zone": reset})
_reg("diffusion_timestep_2d", "gen_diffusion_timestep_euler_forward_pyst_kernel_2d", 2, _mk_diff_step(False), tags=("timestep",))
_reg("diffusion_timestep_3d_scalar", "gen_diffusion_timestep_euler_forward_pyst_kernel_3d", 3, _mk_diff_step(False), {"field_type": "scalar"}, tags=("timestep",))
_reg("diffusion_timestep_3d_vector", "gen_diffusion_timestep_euler_forward_pyst_kernel_3d", 3, _mk_diff_step(True), {"field_type": "vector"}, tags=("timestep",))
_reg("advection_flux_2d", "gen_advection_flux_conservative_eno3_pyst_kernel_2d", 2, _mk_adv_flux, min_side=5)
_reg("advection_flux_3d", "gen_advection_flux_conservative_eno3_pyst_kernel_3d", 3, _mk_adv_flux, min_side=5)
_reg("advection_timestep_2d", "gen_advection_timestep_euler_forward_conservative_eno3_pyst_kernel_2d", 2, _mk_adv_step(False), min_side=5, tags=("timestep",))
_reg("advection_timestep_3d_scalar", "gen_advection_timestep_euler_forward_conservative_eno3_pyst_kernel_3d", 3, _mk_adv_step(False), {"field_type": "scalar"}, min_side=5, tags=("timestep",))
_reg("advection_timestep_3d_vector", "gen_advection_timestep_euler_forward_conservative_eno3_pyst_kernel_3d", 3, _mk_adv_step(True), {"field_type": "vector"}, min_side=5, tags=("timestep",))
_reg("inplane_field_curl_2d", "gen_inplane_field_curl_pyst_kernel_2d", 2, _mk_inplane_curl)
for d in (2, 3):
    _reg(f"update_vorticity_from_velocity_forcing_{d}d", f"gen_update_vorticity_from_velocity_forcing_pyst_kernel_{d}d", d, _mk_upd_forcing)
    _reg(f"update_vorticity_from_penalised_velocity_{d}d", f"gen_update_vorticity_from_penalised_velocity_pyst_kernel_{d}d", d, _mk_upd_penalised)
_reg("vorticity_stretching_flux_3d", "gen_vorticity_stretching_flux_pyst_kernel_3d", 3, _mk_stretch_flux)
_reg("vorticity_stretching_timestep_euler_3d", "gen_vorticity_stretching_timestep_euler_forward_pyst_kernel_3d", 3, _mk_stretch_euler, tags=("timestep",))


# ------------------------------------------------------------------------------------------------
# penalisation, characteristic function
# ------------------------------------------------------------------------------------------------
def _brink(f, chi, t, lam):
    return (f + lam * chi * t) / (1 + lam * chi)


def _mk_brink(vector, fixed):
    def make(K, A, shape, real_t, rng):
        d = len(shape)
        lam = real_t(10 ** rng.uniform(-1, 4))
        chi = A.inp(shape, kind="unit")
        if not vector:
            if fixed:
                t = real_t(rng.standard_normal())
                kw = dict(penalised_field=A.out(shape), field=A.inp(shape), char_field=chi, penalty_factor=lam, penalty_val=t)
                return Case(K, kw, dict(penalised_field="out", field="in", char_field="in"),
                            lambda i: {"penalised_field": (_brink(i["field"], i["char_field"], float(t), float(lam)), m_full(shape))}, smooth=("field",))
            kw = dict(penalised_field=A.out(shape), field=A.inp(shape), char_field=chi, penalty_field=A.inp(shape), penalty_factor=lam)
            return Case(K, kw, dict(penalised_field="out", field="in", char_field="in", penalty_field="in"),
                        lambda i: {"penalised_field": (_brink(i["field"], i["char_field"], i["penalty_field"], float(lam)), m_full(shape))}, smooth=("field", "penalty_field"))
        s = (d,) + shape
        if fixed:
            t = [float(real_t(x)) for x in rng.standard_normal(d)]
            kw = dict(penalised_vector_field=A.out(s), penalty_factor=lam, char_field=chi, penalty_val=list(t), vector_field=A.inp(s))
            return Case(K, kw, dict(penalised_vector_field="out", char_field="in", vector_field="in"),
                        lambda i: {"penalised_vector_field": (np.stack([_brink(i["vector_field"][c], i["char_field"], t[c], float(lam)) for c in range(d)]), m_full(s))},
                        smooth=("vector_field",))
        kw = dict(penalised_vector_field=A.out(s), penalty_factor=lam, char_field=chi, penalty_vector_field=A.inp(s), vector_field=A.inp(s))
        return Case(K, kw, dict(penalised_vector_field="out", char_field="in", penalty_vector_field="in", vector_field="in"),
                    lambda i: {"penalised_vector_field": (np.stack([_brink(i["vector_field"][c], i["char_field"], i["penalty_vector_field"][c], float(lam)) for c in range(d)]), m_full(s))},
                    smooth=("vector_field", "penalty_vector_field"))
    return make


def sine_heaviside(phi, bw):
    phi = np.asarray(phi, F)
    mid = 0.5 * (1 + phi / bw + np.sin(np.pi * phi / bw) / np.pi)
    return np.where(phi > bw, 1.0, np.where(phi < -bw, 0.0, mid))


BLEND = 0.37


def _mk_char(K, A, shape, real_t, rng):
    kw = dict(char_func_field=A.out(shape), level_set_field=A.inp(shape, kind="levelset"))
    return Case(K, kw, dict(char_func_field="out", level_set_field="in"),
                lambda i: {"char_func_field": (sine_heaviside(i["level_set_field"], BLEND), m_full(shape))}, scale=1.0)


for d in (2, 3):
    _reg(f"brinkmann_penalise_{d}d_scalar", f"gen_brinkmann_penalise_pyst_kernel_{d}d", d, _mk_brink(False, False), {"field_type": "scalar"}, min_side=1)
    _reg(f"brinkmann_penalise_{d}d_vector", f"gen_brinkmann_penalise_pyst_kernel_{d}d", d, _mk_brink(True, False), {"field_type": "vector"}, min_side=1)
    _reg(f"char_func_from_level_set_{d}d", f"gen_char_func_from_level_set_via_sine_heaviside_pyst_kernel_{d}d", d, _mk_char, {"blend_width": BLEND}, min_side=1)
_reg("brinkmann_penalise_vs_fixed_val_2d_scalar", "gen_brinkmann_penalise_vs_fixed_val_pyst_kernel_2d", 2, _mk_brink(False, True), {"field_type": "scalar"}, min_side=1)
_reg("brinkmann_penalise_vs_fixed_val_2d_vector", "gen_brinkmann_penalise_vs_fixed_val_pyst_kernel_2d", 2, _mk_brink(True, True), {"field_type": "vector"}, min_side=1)


# ------------------------------------------------------------------------------------------------
# kernels that are generated per grid (boundary damping, filter): ``build`` needs the arrays
# ------------------------------------------------------------------------------------------------
class GridVariant(Variant):
    """variants whose generator takes grid-dependent arguments; ``build_for(shape, ...)``"""

    def __init__(self, name, gen, dim, make, build_for, min_side=3, tags=()):
        super().__init__(name, gen, dim, make, min_side=min_side, needs_grid=True, tags=tags)
        self.build_for = build_for


def _coords(shape, dx, real_t, origin=None):
    """cell-centre coordinate fields; ``origin`` = per-array-axis offset of the domain start (the damping closed form only
    depends on distances to the first/last cell centre of each axis, so it is offset-invariant)"""
    origin = origin if origin is not None else [0.0] * len(shape)
    axes = [(o + (np.arange(n) + 0.5) * dx).astype(real_t) for n, o in zip(shape, origin)]
    grids = np.meshgrid(*axes, indexing="ij")
    return grids[::-1]  # x grid first (x = last array axis)


def _build_damp(d, w, vector):
    def build_for(shape, real_t, num_threads, A, rng):
        import sopht.numeric.eulerian_grid_ops as spne

        dx = real_t(1.0 / shape[-1])
        # half of the cases: a different domain origin per axis (e.g. an axis centred about 0)
        # (drawn from a stream that depends on the shape only, not on VERIF_SEED: the origin is baked into the generated code)
        from .. import util as _util

        orng = _util.rng_for(0, "damp-origin", tuple(shape), w, d, vector)
        origin = None
        if orng.random() < 0.5:
            origin = [0.0] + [float(o) for o in orng.choice([-0.5 * shape[0] * float(dx), -3.2, 1.7, 0.25], size=d - 1)]
            orng.shuffle(origin)
        g = _coords(shape, float(dx), real_t, origin)
        kw = dict(width=w, dx=dx, x_grid_field=g[0], y_grid_field=g[1], real_t=real_t, num_threads=num_threads)
        if d == 3:
            kw["z_grid_field"] = g[2]
            kw["field_type"] = "vector" if vector else "scalar"
        K = getattr(spne, f"gen_penalise_field_boundary_pyst_kernel_{d}d")(**kw)
        # the kernel sees the coordinates as working-precision numbers: distances to the first/last cell centre carry
        # eps*|coordinate| of representation error, amplified by the sine prefactor (pi/2)/(w dx)
        cmax = max(float(np.max(np.abs(a))) for a in g)
        amp = max(1.0, cmax * (np.pi / 2) / (max(w, 1) * float(dx)) / 16.0)
        return K, {"dx": float(dx), "amp": amp}
    return build_for


def _mk_damp(w, vector):
    def make(K, A, shape, real_t, rng, ctx=None):
        dx = ctx["dx"]
        if not vector:
            kw = dict(field=A.inout(shape))
            # the outermost ring is multiplied by sin(0): the closed form is 0 there, the floor is eps * |field|
            return Case(K, kw, dict(field="inout"), lambda i: {"field": (ops.boundary_damp(i["field"], w, dx), m_zone(shape, w))}, smooth=("field",),
                        scale=float(np.max(np.abs(kw["field"]))) * ctx["amp"])
        s = (3,) + shape
        kw = dict(vector_field=A.inout(s))
        return Case(K, kw, dict(vector_field="inout"),
                    lambda i: {"vector_field": (np.stack([ops.boundary_damp(i["vector_field"][c], w, dx) for c in range(3)]), m_zone(s, w, 1))}, smooth=("vector_field",),
                    scale=float(np.max(np.abs(kw["vector_field"]))) * ctx["amp"])
    return make


def _build_filter(order, ftype, vector):
    def build_for(shape, real_t, num_threads, A, rng):
        import sopht.numeric.eulerian_grid_ops as spne

        fb = A.plain(shape, kind="noise")
        bb = A.plain(shape, kind="noise")
        K = spne.gen_laplacian_filter_kernel_3d(filter_order=order, filter_flux_buffer=fb, field_buffer=bb, real_t=real_t, num_threads=num_threads,
                                                 field_type="vector" if vector else "scalar", filter_type=ftype)
        return K, {"buffers": (fb, bb)}
    return build_for


def _mk_filter(order, ftype, vector):
    def make(K, A, shape, real_t, rng, ctx=None):
        # garbage in the work buffers before every call
        for b in ctx["buffers"]:
            b[...] = (rng.standard_normal(b.shape) * 50).astype(b.dtype)
        if not vector:
            kw = dict(scalar_field=A.inout(shape))
            return Case(K, kw, dict(scalar_field="inout"),
                        lambda i: {"scalar_field": (ops.laplacian_filter(i["scalar_field"], order, ftype), m_int(shape, 1))},
                        value_compare=("scalar_field",), smooth=("scalar_field",))
        s = (3,) + shape
        kw = dict(vector_field=A.inout(s))
        return Case(K, kw, dict(vector_field="inout"),
                    lambda i: {"vector_field": (np.stack([ops.laplacian_filter(i["vector_field"][c], order, ftype) for c in range(3)]), m_int(s, 1, 1))},
                    value_compare=("vector_field",), smooth=("vector_field",))
    return make


for w in (0, 1, 2, 3):
    VARIANTS.append(GridVariant(f"penalise_field_boundary_2d_w{w}", "gen_penalise_field_boundary_pyst_kernel_2d", 2, _mk_damp(w, False), _build_damp(2, w, False), min_side=2 * w + 1, tags=("damp",)))
    VARIANTS.append(GridVariant(f"penalise_field_boundary_3d_scalar_w{w}", "gen_penalise_field_boundary_pyst_kernel_3d", 3, _mk_damp(w, False), _build_damp(3, w, False), min_side=2 * w + 1, tags=("damp",)))
    VARIANTS.append(GridVariant(f"penalise_field_boundary_3d_vector_w{w}", "gen_penalise_field_boundary_pyst_kernel_3d", 3, _mk_damp(w, True), _build_damp(3, w, True), min_side=2 * w + 1, tags=("damp",)))
for ftype in ("multiplicative", "convolution"):
    for order in (1, 2, 3):
        VARIANTS.append(GridVariant(f"laplacian_filter_3d_scalar_{ftype}_o{order}", "gen_laplacian_filter_kernel_3d", 3, _mk_filter(order, ftype, False), _build_filter(order, ftype, False), tags=("filter",)))
    VARIANTS.append(GridVariant(f"laplacian_filter_3d_vector_{ftype}_o2", "gen_laplacian_filter_kernel_3d", 3, _mk_filter(2, ftype, True), _build_filter(2, ftype, True), tags=("filter",)))



def _build_rk3(shape, real_t, num_threads, A, rng):
    import sopht.numeric.eulerian_grid_ops as spne

    mid = A.plain((3,) + tuple(shape), kind="noise")
    K = spne.gen_vorticity_stretching_timestep_ssprk3_pyst_kernel_3d(real_t=real_t, num_threads=num_threads, midstep_buffer_vector_field=mid)
    return K, {"midstep": mid}


VARIANTS.append(GridVariant("vorticity_stretching_timestep_ssprk3_3d", "gen_vorticity_stretching_timestep_ssprk3_pyst_kernel_3d", 3, _mk_stretch_rk3, _build_rk3, tags=("timestep", "midstep")))

BY_NAME = {v.name: v for v in VARIANTS}
