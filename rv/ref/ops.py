"""Independent float64 reference operators (DESIGN §3.4).

Written from the documented formulas with NumPy slicing only.  Array layout: x is the LAST array
axis, vector component 0 is x, 1 is y, 2 is z (so component c differentiates along array axis
``ndim-1-c``).  None of this is copied from kernel source; where a convention had to be pinned
(e.g. the sign of the 2-D out-of-plane curl) it follows the property text.
"""
import numpy as np
from scipy.fft import dctn, idctn
from scipy.signal import convolve, fftconvolve

F = np.float64


def interior(d, g=1):
    return (slice(g, -g),) * d


def shift(a, ax, k, g):
    """view of the interior (ghost g) of ``a`` displaced by k cells along array axis ax"""
    d = a.ndim
    sl = [slice(g, -g)] * d
    n = a.shape[ax]
    sl[ax] = slice(g + k, n - g + k)
    return a[tuple(sl)]


def cdiff(a, ax, g=1):
    """a[i+1]-a[i-1] along array axis ax on the interior"""
    return shift(a, ax, 1, g) - shift(a, ax, -1, g)


def laplacian_flux(f, pref):
    """pref * (sum of 2d neighbours - 2d * centre) on interior 1, zero elsewhere"""
    f = np.asarray(f, F)
    d = f.ndim
    out = np.zeros_like(f)
    acc = -2.0 * d * f[interior(d)]
    for ax in range(d):
        acc = acc + shift(f, ax, 1, 1) + shift(f, ax, -1, 1)
    out[interior(d)] = pref * acc
    return out


def curl3(Fv, pref):
    """pref * centred curl (differences, not divided by 2dx) of a 3-D vector field; ring = 0"""
    Fv = np.asarray(Fv, F)
    fx, fy, fz = Fv
    c = np.zeros_like(Fv)
    I = interior(3)
    # array axes: 0 = z, 1 = y, 2 = x
    c[0][I] = pref * (cdiff(fz, 1) - cdiff(fy, 0))
    c[1][I] = pref * (cdiff(fx, 0) - cdiff(fz, 2))
    c[2][I] = pref * (cdiff(fy, 2) - cdiff(fx, 1))
    return c


def div3(Fv, inv_dx):
    Fv = np.asarray(Fv, F)
    out = np.zeros(Fv.shape[1:], F)
    out[interior(3)] = 0.5 * inv_dx * (cdiff(Fv[0], 2) + cdiff(Fv[1], 1) + cdiff(Fv[2], 0))
    return out


def inplane_curl2(Fv, pref):
    """pref*(d_x f_y - d_y f_x) (differences) on interior 1"""
    Fv = np.asarray(Fv, F)
    out = np.zeros(Fv.shape[1:], F)
    out[interior(2)] = pref * (cdiff(Fv[1], 1) - cdiff(Fv[0], 0))
    return out


def outplane_curl2(psi, pref):
    """(pref*d_y psi, -pref*d_x psi) on interior 1, ring 0"""
    psi = np.asarray(psi, F)
    out = np.zeros((2, *psi.shape), F)
    out[0][interior(2)] = pref * cdiff(psi, 0)
    out[1][interior(2)] = -pref * cdiff(psi, 1)
    return out


def eno3_face_flux(f, v, ax):
    """ENO3-type conservative face fluxes along array axis ``ax``.

    Returns Fface with Fface[..., i] = flux through the face between cells i and i+1 (valid for
    i = 1 .. n-3), nodal flux g = f*v, upwind switch  v_i > -v_{i+1}."""
    f = np.moveaxis(np.asarray(f, F), ax, -1)
    v = np.moveaxis(np.asarray(v, F), ax, -1)
    g = f * v
    n = f.shape[-1]
    Ff = np.zeros_like(f)
    i = np.arange(1, n - 2)
    up = v[..., i] > -v[..., i + 1]
    Ff[..., i] = np.where(
        up,
        (1.0 / 3.0) * g[..., i + 1] + (5.0 / 6.0) * g[..., i] - (1.0 / 6.0) * g[..., i - 1],
        (1.0 / 3.0) * g[..., i] + (5.0 / 6.0) * g[..., i + 1] - (1.0 / 6.0) * g[..., i + 2],
    )
    return np.moveaxis(Ff, -1, ax)


def eno3_flux_divergence(f, vel):
    """sum over axes of (F_front - F_back) on interior 2 (zero elsewhere); vel[c] is the velocity
    component along array axis ndim-1-c"""
    f = np.asarray(f, F)
    d = f.ndim
    out = np.zeros_like(f)
    I = interior(d, 2)
    for c in range(d):
        ax = d - 1 - c
        Ff = eno3_face_flux(f, vel[c], ax)
        out[I] += shift(Ff, ax, 0, 2) - shift(Ff, ax, -1, 2)
    return out


def lap1d_filter(f, ax):
    """0.25*(2 f - f(+1) - f(-1)) along ax on interior 1, ring = 0"""
    out = np.zeros_like(f)
    I = interior(f.ndim)
    out[I] = 0.25 * (2 * f[I] - shift(f, ax, 1, 1) - shift(f, ax, -1, 1))
    return out


def laplacian_filter(f, order, ftype):
    """order >= 1.  multiplicative: f - (Lz Ly Lx)^order f ; convolution: prod_a (1 - L_a^order) f.
    Every application of a 1-D filter Laplacian yields zero on the boundary ring."""
    assert order >= 1
    f = np.asarray(f, F).copy()
    if ftype == "multiplicative":
        b = f.copy()
        for _ in range(order):
            for ax in (2, 1, 0):
                b = lap1d_filter(b, ax)
        return f - b
    for ax in (2, 1, 0):
        b = f.copy()
        for _ in range(order):
            b = lap1d_filter(b, ax)
        f = f - b
    return f


def boundary_damp(w, width, dx):
    """quarter-sine boundary-zone damping with edge-value broadcast, axes in the order x, y(, z)"""
    w = np.asarray(w, F)
    if width == 0:
        return w.copy()
    d = w.ndim
    n = w.shape
    for ax in range(d - 1, -1, -1):
        m = n[ax]
        c = (np.arange(m) + 0.5) * dx
        sp_ = (np.pi / 2) / (width * dx)
        w = np.moveaxis(w, ax, -1).copy()
        w[..., :width] = w[..., width - 1 : width]
        w[..., m - width :] = w[..., m - width : m - width + 1]
        w[..., :width] *= np.sin(sp_ * (c[:width] - c[0]))
        w[..., m - width :] *= np.sin(sp_ * (c[-1] - c[m - width :]))
        w = np.moveaxis(w, -1, ax)
    return w


def greens_kernel(shape, dx):
    d = len(shape)
    axes = [np.arange(-(n - 1), n, dtype=F) for n in shape]
    grids = np.meshgrid(*axes, indexing="ij")
    r = dx * np.sqrt(sum(g**2 for g in grids))
    centre = tuple(n - 1 for n in shape)
    with np.errstate(divide="ignore"):
        if d == 2:
            G = -np.log(r) / (2 * np.pi)
            G[centre] = -(2 * np.log(dx / np.sqrt(np.pi)) - 1) / (4 * np.pi)
        else:
            G = 1.0 / (4 * np.pi * r)
            G[centre] = 1.0 / (4 * np.pi * dx)
    return G


def greens_convolution(f, dx, method="auto", with_bound=False):
    """aperiodic convolution of f with the free-space Green's function times cell volume.

    Evaluated in extended precision (x87 long double) so that the reference's own summation error
    (~sqrt(N) eps64 for same-signed data) stays far below the float64 noise floor.  method
    "direct" = O(N^2) summation, no FFT; "fft" = zero-padded pocketfft in long double (error
    ~1e-18 relative, used only where the direct sum is too slow)."""
    L = np.longdouble
    f = np.asarray(f, F)
    d = f.ndim
    G = greens_kernel(f.shape, dx)
    if method == "auto":
        method = "direct" if f.size * G.size < 3e7 else "fft"
    conv = (lambda a, b: convolve(a, b, mode="full", method="direct")) if method == "direct" else (
        lambda a, b: fftconvolve(a, b, mode="full")
    )
    sl = tuple(slice(n - 1, 2 * n - 1) for n in f.shape)
    out = np.asarray(conv(f.astype(L), G.astype(L))[sl] * L(dx) ** d, F)
    if with_bound:
        b = np.asarray(fftconvolve(np.abs(f), np.abs(G), mode="full")[sl] * dx**d, F)
        return out, np.abs(b)
    return out


def neg_laplacian_neumann(u, dx):
    """second-order FD negative Laplacian with mirrored ghost cells (homogeneous Neumann)"""
    u = np.asarray(u, F)
    up = np.pad(u, 1, mode="edge")
    d = u.ndim
    out = np.zeros_like(u)
    I = interior(d)
    for ax in range(d):
        out += 2 * up[I] - shift(up, ax, 1, 1) - shift(up, ax, -1, 1)
    return out / dx**2


def neumann_solve(f, dx):
    """independent DCT-II solve of  A_N u = f - mean f,  mean u = 0"""
    f = np.asarray(f, F)
    d = f.ndim
    fh = dctn(f, type=2, norm="ortho")
    n = f.shape
    lam = sum(
        (2 - 2 * np.cos(np.pi * np.arange(n[a]) / n[a])).reshape([-1 if i == a else 1 for i in range(d)])
        for a in range(d)
    ) / dx**2
    lam[(0,) * d] = np.inf
    return idctn(fh / lam, type=2, norm="ortho")
