"""Independent float64 evaluation of the documented time steps (DESIGN §4 C01).

``stages(...)`` returns the list of stage outputs so that the noise-floor estimator (rv.noise) can
re-run the pipeline with every stage perturbed by (1+delta), |delta| <= eps_t.
"""
import numpy as np

from . import ops

F = np.float64


class Perturb:
    """multiplies every stage output by (1 + delta), delta ~ U(-eps, eps); eps=0 -> identity"""

    def __init__(self, eps=0.0, rng=None):
        self.eps = eps
        self.rng = rng

    def __call__(self, a):
        if not self.eps:
            return a
        return a * (1.0 + self.rng.uniform(-self.eps, self.eps, size=np.shape(a)))


def _q(x, real_t):
    """round a scalar the way the simulator does (real_t(...)) and return it as float64"""
    return float(real_t(x))


def ns2d_step(w, u, forcing, dt, dx, nu, rho, width, free_stream, with_forcing, with_fs, real_t=np.float64, P=None):
    """2-D Navier–Stokes step: forcing curl -> ENO3 advection (old velocity) -> diffusion ->
    boundary damping -> Green's convolution -> velocity = curl psi (+ free stream)."""
    P = P or Perturb()
    w = np.asarray(w, F).copy()
    u = np.asarray(u, F)
    if with_forcing:
        p = _q(dt / (2 * dx * rho), real_t)
        w = P(w + ops.inplane_curl2(np.asarray(forcing, F), p))
    adv = ops.eno3_flux_divergence(w, u)  # interior 2
    w = P(w - _q(dt / dx, real_t) * adv)
    w = P(w + ops.laplacian_flux(w, _q(nu * dt / dx / dx, real_t)))
    w = P(ops.boundary_damp(w, width, dx))
    psi = P(ops.greens_convolution(w, dx, method="fft"))
    vel = P(ops.outplane_curl2(psi, _q(0.5 / dx, real_t)))
    if with_fs:
        vel = vel + np.asarray(free_stream, F).reshape(2, 1, 1)
    return w, vel, psi


def ns3d_step(w, u, forcing, dt, dx, nu, rho, width, free_stream, with_forcing, with_fs, flt, solver, real_t=np.float64, P=None):
    """3-D step: (forcing curl) -> w += dt/(2dx) curl_h(u x w) -> vector diffusion -> optional filter ->
    vector damping -> three Poisson solves -> u = curl psi (+ free stream)."""
    P = P or Perturb()
    w = np.asarray(w, F).copy()
    u = np.asarray(u, F)
    if with_forcing:
        w = P(w + ops.curl3(np.asarray(forcing, F), _q(dt / (2 * dx * rho), real_t)))
    uxw = P(np.cross(u, w, axis=0))
    w = P(w + ops.curl3(uxw, _q(dt / (2 * dx), real_t)))
    a = _q(nu * dt / dx / dx, real_t)
    w = P(np.array([w[c] + ops.laplacian_flux(w[c], a) for c in range(3)]))
    if flt:
        w = P(np.array([ops.laplacian_filter(w[c], int(flt[0]), flt[1]) for c in range(3)]))
    w = P(np.array([ops.boundary_damp(w[c], width, dx) for c in range(3)]))
    if solver == "greens_function_convolution":
        psi = np.array([ops.greens_convolution(w[c], dx, method="fft") for c in range(3)])
    else:
        psi = np.array([ops.neumann_solve(w[c], dx) for c in range(3)])
    psi = P(psi)
    vel = P(ops.curl3(psi, _q(0.5 / dx, real_t)))
    if with_fs:
        vel = vel + np.asarray(free_stream, F).reshape(3, 1, 1, 1)
    return w, vel, psi


def passive_step(f, u, dt, dx, nu, real_t=np.float64, P=None):
    """passive transport: ENO3 advection + diffusion on the scalar, or on each vector component"""
    P = P or Perturb()
    f = np.asarray(f, F)
    u = np.asarray(u, F)
    d = u.shape[0]

    def one(g):
        g = P(g - _q(dt / dx, real_t) * ops.eno3_flux_divergence(g, u))
        return P(g + ops.laplacian_flux(g, _q(nu * dt / dx / dx, real_t)))

    if f.ndim == d:
        return one(f.copy())
    return np.array([one(f[c].copy()) for c in range(f.shape[0])])


def noise_tol(run, real_t, rng, K=32.0, floor_mult=8.0, reps=4):
    """DESIGN §3.5: tol = K * max(floor, max_r ||y_r - y||_inf) per output (a scalar per output);
    ``run(P)`` evaluates the reference pipeline with perturbation P and returns a tuple of arrays."""
    eps = float(np.finfo(real_t).eps)
    base = run(Perturb())
    spread = [0.0 for _ in base]
    for _ in range(reps):
        pr = run(Perturb(eps, rng))
        for i, (b, q) in enumerate(zip(base, pr)):
            d = np.abs(np.asarray(q, F) - np.asarray(b, F))
            spread[i] = max(spread[i], float(np.max(d)) if d.size else 0.0)
    tols = []
    for s, b in zip(spread, base):
        fl = floor_mult * eps * (float(np.max(np.abs(b))) if np.size(b) else 0.0)
        tols.append(K * max(s, fl) + 1e-300)
    return base, tols
