"""Builders for the real simulators + random state injection (shared by C01, C04, C14, C15, C16, C18)."""
import numpy as np

from . import util


def build(cfg):
    """cfg: dict(kind='ns2d'|'ns3d'|'passive', shape, x_range, nu, dtype, threads, forcing, free_stream,
    width, rho, filter=None|(order,type), solver, field_type, time, cfl)"""
    import sopht.simulator as sps

    real_t = util.DT[cfg.get("dtype", "float64")]
    kind = cfg["kind"]
    common = dict(
        x_range=cfg.get("x_range", 1.0),
        kinematic_viscosity=cfg.get("nu", 1e-2),
        real_t=real_t,
        num_threads=cfg.get("threads", 2),
        time=cfg.get("time", 0.0),
        cfl=cfg.get("cfl", 0.1),
    )
    if cfg.get("via_factory") and kind in ("ns2d", "ns3d"):
        # the documented factory functions (kept "for backward compatibility"): same options, flow_type instead of with_forcing
        fkw = dict(grid_size=tuple(cfg["shape"]), flow_type="navier_stokes_with_forcing" if cfg.get("forcing") else "navier_stokes",
                   with_free_stream_flow=cfg.get("free_stream", False), flow_density=cfg.get("rho", 1.0), penalty_zone_width=cfg.get("width", 2), **common)
        if kind == "ns2d":
            return sps.create_unbounded_flow_simulator_2d(**fkw)
        if cfg.get("filter"):
            fkw.update(filter_vorticity=True, filter_setting_dict={"order": int(cfg["filter"][0]), "type": cfg["filter"][1]})
        return sps.create_unbounded_flow_simulator_3d(poisson_solver_type=cfg.get("solver", "greens_function_convolution"), **fkw)
    if kind == "ns2d":
        return sps.UnboundedNavierStokesFlowSimulator2D(
            grid_size=tuple(cfg["shape"]),
            with_forcing=cfg.get("forcing", False),
            with_free_stream_flow=cfg.get("free_stream", False),
            flow_density=cfg.get("rho", 1.0),
            penalty_zone_width=cfg.get("width", 2),
            **common,
        )
    if kind == "ns3d":
        kw = {}
        if cfg.get("filter"):
            kw = dict(filter_vorticity=True, filter_setting_dict={"order": int(cfg["filter"][0]), "type": cfg["filter"][1]})
        return sps.UnboundedNavierStokesFlowSimulator3D(
            grid_size=tuple(cfg["shape"]),
            with_forcing=cfg.get("forcing", False),
            with_free_stream_flow=cfg.get("free_stream", False),
            flow_density=cfg.get("rho", 1.0),
            penalty_zone_width=cfg.get("width", 2),
            poisson_solver_type=cfg.get("solver", "greens_function_convolution"),
            **common,
            **kw,
        )
    if kind == "passive":
        return sps.PassiveTransportFlowSimulator(
            grid_dim=len(cfg["shape"]),
            grid_size=tuple(cfg["shape"]),
            field_type=cfg.get("field_type", "scalar"),
            **common,
        )
    raise ValueError(kind)


def primary(sim):
    return sim.primary_field if hasattr(sim, "primary_field") else sim.vorticity_field


def scratch_arrays(sim):
    """every scratch array reachable from a simulator object (for poisoning): name -> array"""
    out = {}
    for n in ("buffer_scalar_field", "buffer_vector_field", "stream_func_field"):
        if hasattr(sim, n):
            out[n] = getattr(sim, n)
    s = getattr(sim, "_unbounded_poisson_solver", None)
    if s is not None:
        for n, v in vars(s).items():
            if isinstance(v, np.ndarray) and n in (
                "domain_doubled_buffer", "convolution_buffer", "domain_doubled_fourier_buffer", "spectral_field_buffer",
            ):
                out["solver." + n] = v
    return out


def poison(rng, arrays, scale=1e3):
    for a in arrays.values():
        if not a.flags.writeable:
            continue
        if a.dtype.kind == "c":
            a[...] = (rng.standard_normal(a.shape) + 1j * rng.standard_normal(a.shape)) * scale
        else:
            a[...] = rng.standard_normal(a.shape) * scale
