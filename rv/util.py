"""Small helpers shared by the checks: seeded RNG streams, generators, bitwise comparison, noise floor."""
import hashlib
import itertools
import os
import shutil
import tempfile

import numpy as np

from . import env

DT = {"float32": np.float32, "float64": np.float64}


def rng_for(seed, *keys):
    h = hashlib.sha256(("|".join(map(str, keys))).encode()).digest()
    return np.random.default_rng(np.random.SeedSequence([int(seed) & 0xFFFFFFFF, int.from_bytes(h[:4], "little")]))


def eps(real_t):
    return float(np.finfo(real_t).eps)


def bits(a):
    """raw bytes of an array (element order preserved)"""
    return np.ascontiguousarray(a).reshape(-1).view(np.uint8)


def bits_equal(a, b):
    a = np.ascontiguousarray(a)
    b = np.ascontiguousarray(b)
    if a.shape != b.shape or a.dtype != b.dtype:
        return False
    return a.tobytes() == b.tobytes()


def nbits_differ(a, b):
    return int((bits(a) != bits(b)).sum())


def sentinel_like(rng, shape, dtype):
    """array of random NaNs with distinct payloads: cannot be reproduced by accident, propagates"""
    dtype = np.dtype(dtype)
    if dtype == np.float32:
        u = rng.integers(1, 2**22, size=shape, dtype=np.uint32) | np.uint32(0x7FC00000)
        return u.view(np.float32)
    u = rng.integers(1, 2**50, size=shape, dtype=np.uint64) | np.uint64(0x7FF8000000000000)
    return u.view(np.float64)


def maxabs(a):
    a = np.asarray(a, np.float64)
    return float(np.max(np.abs(a))) if a.size else 0.0


def err_over_tol(got, ref, tol):
    """max |got-ref| / tol   (NaN/inf in got -> inf)"""
    got = np.asarray(got, np.float64)
    ref = np.asarray(ref, np.float64)
    if got.shape != ref.shape:
        return float("inf")
    d = np.abs(got - ref)
    if not np.all(np.isfinite(d)):
        return float("inf")
    return float(np.max(d / tol)) if d.size else 0.0


def shape2d(rng, lo, hi, force_nonsquare=True):
    while True:
        s = tuple(int(x) for x in rng.integers(lo, hi + 1, size=2))
        if not force_nonsquare or s[0] != s[1]:
            return s


def shape3d(rng, lo, hi, force_noncubic=True):
    while True:
        s = tuple(int(x) for x in rng.integers(lo, hi + 1, size=3))
        if not force_noncubic or len(set(s)) > 1:
            return s


FIELD_KINDS = ("noise", "spikes", "checker", "smooth", "big", "small", "const")


def field(rng, shape, kind="noise", dtype=np.float64):
    shape = tuple(shape)
    if kind == "noise":
        a = rng.standard_normal(shape)
    elif kind == "big":
        a = rng.standard_normal(shape) * 1e3
    elif kind == "small":
        a = rng.standard_normal(shape) * 1e-3
    elif kind == "spikes":
        a = np.zeros(shape)
        k = max(1, int(np.prod(shape)) // 37)
        idx = rng.integers(0, int(np.prod(shape)), size=k)
        a.flat[idx] = rng.standard_normal(k) * 10
    elif kind == "checker":
        g = np.indices(shape).sum(axis=0)
        a = np.where(g % 2 == 0, 1.0, -1.0) * (1 + 0.1 * rng.standard_normal(shape))
    elif kind == "smooth":
        g = np.indices(shape).astype(float)
        ph = rng.uniform(0, 6.28, size=len(shape))
        k = rng.uniform(0.1, 0.9, size=len(shape))
        a = sum(np.sin(k[i] * g[i] + ph[i]) for i in range(len(shape)))
    elif kind == "const":
        a = np.full(shape, rng.standard_normal())
    elif kind == "int":
        a = rng.integers(-1024, 1025, size=shape).astype(float)
    else:
        raise ValueError(kind)
    return np.ascontiguousarray(a.astype(dtype))


def compact(rng, shape, margin, kind="noise", dtype=np.float64, lead=()):
    """field of ``lead + shape`` supported at least ``margin`` cells away from every face"""
    a = np.zeros(tuple(lead) + tuple(shape), dtype=dtype)
    inner = tuple(n - 2 * margin for n in shape)
    if min(inner) <= 0:
        raise ValueError("margin too large")
    sl = (Ellipsis,) + tuple(slice(margin, n - margin) for n in shape)
    a[sl] = field(rng, tuple(lead) + inner, kind, dtype)
    return a


def pairwise_cover(axes, rng=None, extra=0):
    """small covering array (all pairs) over dict name -> list of values, greedy"""
    names = list(axes)
    full = [dict(zip(names, vals)) for vals in itertools.product(*[axes[n] for n in names])]
    need = set()
    for a, b in itertools.combinations(names, 2):
        for va in axes[a]:
            for vb in axes[b]:
                need.add((a, repr(va), b, repr(vb)))
    order = list(range(len(full)))
    if rng is not None:
        rng.shuffle(order)
    chosen = []
    while need:
        best, bestc = None, -1
        for i in order:
            c = full[i]
            cov = sum(1 for a, b in itertools.combinations(names, 2) if (a, repr(c[a]), b, repr(c[b])) in need)
            if cov > bestc:
                best, bestc = i, cov
        c = full[best]
        for a, b in itertools.combinations(names, 2):
            need.discard((a, repr(c[a]), b, repr(c[b])))
        chosen.append(c)
    if extra and rng is not None:
        for i in rng.choice(len(full), size=min(extra, len(full)), replace=False):
            if full[i] not in chosen:
                chosen.append(full[i])
    return chosen


class TempDir:
    """scratch directory outside /repo and /verif, removed on exit"""

    def __enter__(self):
        os.makedirs(env.TMP, exist_ok=True)
        self.path = tempfile.mkdtemp(prefix="case-", dir=env.TMP)
        self.old = os.getcwd()
        os.chdir(self.path)
        return self.path

    def __exit__(self, *a):
        os.chdir(self.old)
        shutil.rmtree(self.path, ignore_errors=True)


def chunks(lst, n):
    n = max(1, n)
    k, m = divmod(len(lst), n)
    out, i = [], 0
    for j in range(n):
        size = k + (1 if j < m else 0)
        if size:
            out.append(lst[i : i + size])
        i += size
    return out


def noncontiguous_copy(rng, a, mode=None):
    """the same values as ``a`` held in a NON-contiguous view: mode "pad" = interior of a sentinel-padded parent (unit inner stride,
    offset rows), "step" = every second element of a parent along every axis (non-unit inner stride), "fortran" = column-major"""
    a = np.asarray(a)
    mode = mode or ("pad", "step", "fortran")[int(rng.integers(3))]
    if a.ndim < 2 or a.dtype.kind not in "f":
        return a
    if mode == "fortran":
        return np.asfortranarray(a)
    if mode == "pad":
        parent = sentinel_like(rng, tuple(n + 2 for n in a.shape), a.dtype).copy()
        v = parent[tuple(slice(1, -1) for _ in a.shape)]
    else:
        parent = sentinel_like(rng, tuple(2 * n + 1 for n in a.shape), a.dtype).copy()
        v = parent[tuple(slice(1, 2 * n + 1, 2) for n in a.shape)]
    v[...] = a
    return v
