import sys

from .driver import worker_main

if __name__ == "__main__":
    worker_main(sys.argv[1:])
