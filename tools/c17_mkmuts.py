"""Generate the C17 self-test patches (see the table in rv/checks/c17.py).

usage: python tools/c17_mkmuts.py OUTDIR ; then  for f in OUTDIR/*.diff; do tools/mut.sh $f C17; done
Each patch = /verif/fixes/F3.diff + F4.diff + F7-proposed-on-F3F4.diff + one mutation, relative to /repo.
Works on scratch copies only; never touches /repo.
"""
import os, subprocess, shutil, sys, tempfile
ROOT = os.path.dirname(os.path.dirname(os.path.abspath(__file__)))
OUT = os.path.abspath(sys.argv[1]); os.makedirs(OUT, exist_ok=True)
W = tempfile.mkdtemp(prefix="c17muts-", dir=os.environ.get("RV_TMP", os.path.expanduser("~/.rv-tmp")))
os.makedirs(f"{W}/f/sopht/utils")
shutil.copy("/repo/sopht/utils/io.py", f"{W}/f/sopht/utils/io.py")
for d in ("F3.diff", "F4.diff", "F7-proposed-on-F3F4.diff"):
    subprocess.run(["patch", "-p1", "--quiet", "-i", f"{ROOT}/fixes/{d}"], cwd=f"{W}/f", check=True)
base = open(f"{W}/f/sopht/utils/io.py").read()   # F3+F4+F7 fixed
M = {"F3F4F7-fixed(expect HELD)": base}
def mut(name, *pairs, cnt=1):
    s = base
    for a, b in pairs:
        assert s.count(a) >= 1, (name, a)
        s = s.replace(a, b, cnt)
    M[name] = s
mut("M01-save-lag-vector-moveaxis-dropped", ('field_name, data=np.moveaxis(field, 0, -1)', 'field_name, data=field'))
mut("M02-load-eul-vector-component-swapped", ('self.eulerian_fields[field_name][idx_dim, ...] = f["Eulerian"][', 'self.eulerian_fields[field_name][self.dim - 1 - idx_dim, ...] = f["Eulerian"]['))
mut("M03-time-not-saved", ('f.attrs["time"] = time', 'f.attrs["time"] = 0.0'))
mut("M04-time-not-loaded", ('time = f.attrs["time"]', 'time = 0.0'))
mut("M05-time-saved-as-float32", ('f.attrs["time"] = time', 'f.attrs["time"] = np.float32(time)'))
mut("M06-load-grid-transpose-dropped", ('self.lagrangian_grids[lagrangian_grid_name][...] = np.transpose(\n                        f["Lagrangian"][lagrangian_grid_name]["Grid"][...]\n                    )', 'self.lagrangian_grids[lagrangian_grid_name][...] = (\n                        f["Lagrangian"][lagrangian_grid_name]["Grid"][...]\n                    )'))
mut("M07-grid-transpose-dropped-save-and-load", ('self.lagrangian_grids[lagrangian_grid_name][...] = np.transpose(\n                        f["Lagrangian"][lagrangian_grid_name]["Grid"][...]\n                    )', 'self.lagrangian_grids[lagrangian_grid_name][...] = (\n                        f["Lagrangian"][lagrangian_grid_name]["Grid"][...]\n                    )'), ('create_dataset("Grid", data=np.transpose(lagrangian_grid))', 'create_dataset("Grid", data=lagrangian_grid)'))
mut("M08-dx-check-removed", ('if not np.allclose(self.eulerian_dx, f["Eulerian"]["Parameters"].attrs["dx"]):', 'if False:'))
mut("M09-origin-check-removed", ('if not np.allclose(\n                    self.eulerian_origin, f["Eulerian"]["Parameters"].attrs["origin"]\n                ):', 'if False:'))
mut("M10-grid-size-check-removed", ('if not np.allclose(\n                    self.eulerian_grid_size, f["Eulerian"]["Parameters"].attrs["grid_size"]\n                ):', 'if False:'))
mut("M11-missing-eul-scalar-silently-skipped", ('msg = f"Unable to find scalar field {field_name} in loaded file!"\n                            raise ValueError(msg)', 'continue'))
mut("M12-missing-eul-vector-comp-silently-skipped", ('                                    f"in loaded file!"\n                                )\n                                raise ValueError(msg)', '                                    f"in loaded file!"\n                                )\n                                continue'))
mut("M13-missing-lag-vector-silently-skipped", ('                                    f"Unable to find vector field {field_name} on "\n                                    f"grid {lagrangian_grid_name} in loaded file!"\n                                )\n                                raise ValueError(msg)', '                                    f"Unable to find vector field {field_name} on "\n                                    f"grid {lagrangian_grid_name} in loaded file!"\n                                )\n                                continue'))
mut("M14-missing-grid-silently-skipped", ('msg = f"Unable to find grid \'{lagrangian_grid_name}\' in loaded file!"\n                        raise ValueError(msg)', 'continue'))
mut("M15-save-eul-scalar-astype-float32", ('data=field.reshape(1, *self.eulerian_grid_size),', 'data=field.astype(np.float32).reshape(1, *self.eulerian_grid_size),'))
mut("M16-save-lag-scalar-astype-float32", ('lagrangian_scalar_grp.create_dataset(field_name, data=field)', 'lagrangian_scalar_grp.create_dataset(field_name, data=field.astype(np.float32))'))
mut("M17-save-reverses-eul-source-in-place", ('                    field = self.eulerian_fields[field_name]\n                    field_type = self.eulerian_fields_type[field_name]\n                    if field_type == "Scalar":\n                        eulerian_scalar_grp', '                    field = self.eulerian_fields[field_name]\n                    field[...] = field[..., ::-1]\n                    field_type = self.eulerian_fields_type[field_name]\n                    if field_type == "Scalar":\n                        eulerian_scalar_grp'))
mut("M18-save-transposes-square-lag-vector-in-place", ('                    elif field_type == "Vector":\n                        lagrangian_vector_grp.create_dataset(', '                    elif field_type == "Vector":\n                        if field.shape[0] == field.shape[1]:\n                            field[...] = field.T.copy()\n                        lagrangian_vector_grp.create_dataset('))
mut("M19-leading-axis-dropped-eul-scalar-save", ('data=field.reshape(1, *self.eulerian_grid_size),', 'data=field,'))
mut("M20-leading-axis-dropped-eul-vector-save-and-load", ('data=field[idx_dim, ...].reshape(1, *self.eulerian_grid_size),', 'data=field[idx_dim, ...],'), ('][f"{field_name}_{idx_dim}"][0, ...]', '][f"{field_name}_{idx_dim}"][...]'))
mut("M21-lag-vector-moveaxis-dropped-save-and-load", ('field_name, data=np.moveaxis(field, 0, -1)', 'field_name, data=field'), ('self.lagrangian_fields[field_key][...] = np.moveaxis(\n                                f["Lagrangian"][lagrangian_grid_name][field_type][field_name][...],\n                                -1,\n                                0,\n                            )', 'self.lagrangian_fields[field_key][...] = (\n                                f["Lagrangian"][lagrangian_grid_name][field_type][field_name][...]\n                            )'))
mut("M22-eul-vector-components-stored-reversed-consistently", ('data=field[idx_dim, ...].reshape(1, *self.eulerian_grid_size),', 'data=field[self.dim - 1 - idx_dim, ...].reshape(1, *self.eulerian_grid_size),'), ('self.eulerian_fields[field_name][idx_dim, ...] = f["Eulerian"][', 'self.eulerian_fields[field_name][self.dim - 1 - idx_dim, ...] = f["Eulerian"]['))
mut("M23-lag-scalar-not-loaded", ('self.lagrangian_fields[field_key][...] = f["Lagrangian"][\n                                lagrangian_grid_name\n                            ][field_type][field_name][...]', 'pass'))
mut("M24-rod-save-does-not-update-element-positions", ('    def save(self, h5_file_name: str, time: float = 0.0) -> None:\n        self._update_rod_element_position()\n', '    def save(self, h5_file_name: str, time: float = 0.0) -> None:\n'))
mut("M25-load-eul-scalar-not-written-in-place", ('self.eulerian_fields[field_name][...] = f["Eulerian"][field_type][', 'self.eulerian_fields[field_name] = f["Eulerian"][field_type]['))
mut("M26-F3-reintroduced", ('            if field.shape == lagrangian_grid.shape:\n                self.lagrangian_fields_type[field_key] = "Vector"\n            elif field.shape[0] == lagrangian_grid.shape[1]:\n                self.lagrangian_fields_type[field_key] = "Scalar"', '            if field.shape[0] == lagrangian_grid.shape[1]:\n                self.lagrangian_fields_type[field_key] = "Scalar"\n            elif field.shape == lagrangian_grid.shape:\n                self.lagrangian_fields_type[field_key] = "Vector"'))
mut("M27-F4-reintroduced", ('            if self.lagrangian_grids:\n                # First loop', '            if self.lagrangian_fields:\n                # First loop'))
mut("M28-eul-params-saved-from-zero-origin", ('eulerian_params_grp.attrs["origin"] = self.eulerian_origin', 'eulerian_params_grp.attrs["origin"] = 0 * self.eulerian_origin'))
# sanity: stricter-than-allclose loader is still correct -> must stay HELD
mut("S01-allclose-replaced-by-array_equal(expect HELD)", ('np.allclose(', 'np.array_equal('), cnt=3)
for name, s in M.items():
    assert s != base or name.startswith("F3F4F7"), name
    shutil.rmtree(f"{W}/m", ignore_errors=True)
    os.makedirs(f"{W}/m/a/sopht/utils"); os.makedirs(f"{W}/m/b/sopht/utils")
    shutil.copy("/repo/sopht/utils/io.py", f"{W}/m/a/sopht/utils/io.py")
    open(f"{W}/m/b/sopht/utils/io.py", "w").write(s)
    r = subprocess.run(["diff", "-u", "a/sopht/utils/io.py", "b/sopht/utils/io.py"], cwd=f"{W}/m", capture_output=True, text=True)
    open(f"{OUT}/{name}.diff", "w").write(r.stdout)
shutil.rmtree(W, ignore_errors=True)
print(len(M), "patches in", OUT)
