#!/venv/bin/python
"""Calibrate C02 bounds on the pinned tree:  bin/env-run tools/calibrate_c02.py [draws64] [draws32] [nproc]

Writes calibration/C02.json: per (case, path, dtype): bound(n) = 3 x worst error over the draws, the
worst observed orders, and for path A the overall-order floor (worst overall order - 0.25).
The check never calls this; the file is reviewed and committed.
"""
import concurrent.futures as cf
import json
import multiprocessing as mp
import os
import sys
import time

ROOT = os.path.dirname(os.path.dirname(os.path.abspath(__file__)))
sys.path.insert(0, ROOT)


def _init():
    from rv import compat

    compat.install()


def _family(args):
    case, path, dtype, k = args
    from rv import util
    from rv.checks import c02

    d = 2 if case in ("lamb_oseen", "passive2d") else 3
    ns = c02.RES[d]
    rng = util.rng_for(12345, "C02cal", case, path, k)
    for attempt in range(6):
        p = c02.draw(case, path, rng)
        res = [c02.simulate(p, n, dtype) for n in ns]
        if all(r["regime_ok"] for r in res):
            break
    else:
        return (case, path, dtype, k, None)
    errs = [r["err_end"] for r in res]
    pair, slope, overall = c02.orders(ns, errs)
    # quick tier uses a sub-family of resolutions: record its orders too
    nq = c02.RES_QUICK[d]
    eq = [errs[ns.index(n)] for n in nq]
    pq, sq, oq = c02.orders(nq, eq)
    return (case, path, dtype, k, {"ns": ns, "err_end": errs, "err_max": [r["err_max"] for r in res], "verr": [r["verr_end"] for r in res], "pair": pair, "slope": slope, "overall": overall,
                                   "pair_q": pq, "slope_q": sq, "overall_q": oq, "p": p})


def main():
    from rv.checks import c02

    n64 = int(sys.argv[1]) if len(sys.argv) > 1 else 16
    n32 = int(sys.argv[2]) if len(sys.argv) > 2 else 4
    nproc = int(sys.argv[3]) if len(sys.argv) > 3 else 12
    tasks = []
    for case in c02.CASES:
        for path in ("A", "B"):
            for k in range(n64):
                tasks.append((case, path, "float64", k))
            for k in range(n32):
                tasks.append((case, path, "float32", k))
    t0 = time.time()
    out = {}
    with cf.ProcessPoolExecutor(max_workers=nproc, mp_context=mp.get_context("spawn"), initializer=_init) as ex:
        for case, path, dtype, k, r in ex.map(_family, tasks, chunksize=1):
            if r is None:
                print("discarded", case, path, dtype, k, flush=True)
                continue
            out.setdefault(f"{case}:{path}:{dtype}", []).append(r)
            print(f"{time.time() - t0:6.0f}s {case}:{path}:{dtype} #{k} errs={['%.2e' % e for e in r['err_end']]} slope={r['slope']:.2f} pair={['%.2f' % x for x in r['pair']]}", flush=True)
    cal = {"generated": time.strftime("%Y-%m-%d"), "draws": {"float64": n64, "float32": n32}, "cases": {}}
    for key, rs in sorted(out.items()):
        ns = rs[0]["ns"]
        worst = {str(n): max(r["err_max"][i] for r in rs) for i, n in enumerate(ns)}
        cal["cases"][key] = {
            "draws": len(rs),
            "bound": {n: 3.0 * e for n, e in worst.items()},
            "worst_error": worst,
            "worst_verr": {str(n): max(r["verr"][i] for r in rs) for i, n in enumerate(ns)},
            "min_pairwise": min(min(r["pair"]) for r in rs), "min_slope": min(r["slope"] for r in rs), "min_overall": min(r["overall"] for r in rs),
            "min_pairwise_quick": min(min(r["pair_q"]) for r in rs), "min_slope_quick": min(r["slope_q"] for r in rs), "min_overall_quick": min(r["overall_q"] for r in rs),
            "overall_floor": min(min(r["overall"] for r in rs), min(r["overall_q"] for r in rs)) - 0.25,
        }
    # pool both precisions (see "rule")
    for k, v in cal["cases"].items():
        case, path, dt = k.split(":")
        o = cal["cases"].get(f"{case}:{path}:{'float64' if dt == 'float32' else 'float32'}")
        if o:
            v["bound"] = {n: 3.0 * max(v["worst_error"][n], o["worst_error"][n]) for n in v["worst_error"]}
            v["vbound"] = {n: 3.0 * max(v["worst_verr"][n], o["worst_verr"][n]) + 1e-300 for n in v["worst_verr"]}
            v["overall_floor"] = min(v["min_overall"], v["min_overall_quick"], o["min_overall"], o["min_overall_quick"]) - 0.25
    cal["rule"] = "bound(n) = 3 x worst error over the draws of both precisions of the same case/path; overall_floor = worst overall order over both precisions and both resolution families - 0.25; path B asserts fixed thresholds (>= 1)"
    os.makedirs(os.path.join(ROOT, "calibration"), exist_ok=True)
    with open(os.path.join(ROOT, "calibration", "C02.json"), "w") as f:
        json.dump(cal, f, indent=1)
    print("written", time.time() - t0)


if __name__ == "__main__":
    main()
