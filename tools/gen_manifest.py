#!/usr/bin/env python3
"""Regenerate /verif/MANIFEST.json from the check modules that exist (keeps it valid at all times)."""
import importlib
import json
import os
import sys

ROOT = os.path.dirname(os.path.dirname(os.path.abspath(__file__)))
sys.path.insert(0, ROOT)

ALL = [f"C{i:02d}" for i in range(1, 21)]
NOT_YET = "check not built yet in this framework (planned, see DESIGN.md §4); not claimed"


def main():
    checks, na = [], []
    claimed = set(open(os.path.join(ROOT, "tools", "claimed.txt")).read().split())
    for cid in ALL:
        if cid not in claimed:
            na.append({"property_id": cid, "reason": NOT_YET})
            continue
        path = os.path.join(ROOT, "rv", "checks", cid.lower() + ".py")
        if not os.path.exists(path):
            na.append({"property_id": cid, "reason": NOT_YET})
            continue
        src = open(path).read()
        meta = {}
        # read the declarative header without importing numpy-heavy code
        import ast

        tree = ast.parse(src)
        for node in tree.body:
            if isinstance(node, ast.Assign) and len(node.targets) == 1 and isinstance(node.targets[0], ast.Name):
                n = node.targets[0].id
                if n in ("ID", "LEVEL", "TITLE", "RULE", "ASSUMPTIONS", "TECHNIQUE", "LEVEL_TEXT", "DESIGN_REF", "CLAIMED"):
                    try:
                        meta[n] = ast.literal_eval(node.value)
                    except Exception:
                        pass
        if meta.get("CLAIMED") is False:
            na.append({"property_id": cid, "reason": meta.get("LEVEL_TEXT", NOT_YET)})
            continue
        checks.append(
            {
                "property_id": cid,
                "quick_cmd": f"bin/check {cid} --tier quick",
                "thorough_cmd": f"bin/check {cid} --tier thorough",
                "evidence_file": f"/verif/evidence/{cid}.json",
                "replay_cmd_template": f"bin/check {cid} --replay {{path}}",
                "engine": "rv",
                "level_claimed": {
                    "category": meta.get("LEVEL", "exploration"),
                    "text": meta.get(
                        "LEVEL_TEXT",
                        "held on the executions driven by the seeded workloads; the oracle is a runtime monitor "
                        "(reference model / invariant / history checker) observing the real code",
                    ),
                    "design_ref": meta.get("DESIGN_REF", f"DESIGN.md §4 {cid}"),
                },
                "level_note": "; ".join(meta.get("ASSUMPTIONS", [])) or "see DESIGN.md",
                "technique": meta.get("TECHNIQUE", "runtime monitoring: reference-model oracle over generated workloads"),
            }
        )
    man = {
        "version": 1,
        "setup_cmd": "bin/setup",
        "hooks": {
            "guard": "SOPHT_VERIF",
            "enable": "no source hooks: monitors attach from outside (pystencils.create_kernel wrapper, public attributes); "
            "checks import /repo's working tree via PYTHONPATH",
            "baseline_off_cmd": "cd /repo && /venv/bin/python -m pytest -ra -q -p no:cacheprovider --timeout=900 --continue-on-collection-errors",
            "source_commits": [],
            "add_only": True,
        },
        "engines": [
            {
                "name": "rv",
                "path": "/verif/rv",
                "serves_properties": [c["property_id"] for c in checks],
                "kind_free_text": "runtime monitoring harness: drives the real SophT code from /repo's working tree in subprocess "
                "shards under seeded workloads; monitors = independent float64 reference models, kernel registry + "
                "alias/dependence monitor on pystencils.create_kernel, history checkers, bitwise differentials, "
                "ASan/UBSan builds of the generated kernels",
            }
        ],
        "checks": checks,
        "notes": "Verdicts: exit 0 held / exit 1 + VIOLATION line / exit 2 INCONCLUSIVE (monitor not reached, worker died). "
        "VERIF_SEED selects the workload stream. known_findings.json lists fixed/open genuine defects.",
        "not_applicable": na,
    }
    with open(os.path.join(ROOT, "MANIFEST.json"), "w") as f:
        json.dump(man, f, indent=1)
    print(f"{len(checks)} checks, {len(na)} not claimed")


if __name__ == "__main__":
    main()
