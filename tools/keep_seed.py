#!/usr/bin/env python3
"""Keep a confirmed independently written property-breaking change under /verif/seeded/<id>/.

usage: tools/keep_seed.py <adversary out dir> <seed id> <seed_eval log> [note...]
Copies patch.diff, demo.py (+ the tiny compat shim the demo imports) and writes meta.json with the adversary's
description plus what we ran and saw (from the RESULT line of tools/seed_eval.py)."""
import json
import os
import shutil
import sys

ROOT = os.path.dirname(os.path.dirname(os.path.abspath(__file__)))


def main():
    src, sid, log = sys.argv[1:4]
    note = " ".join(sys.argv[4:])
    dst = os.path.join(ROOT, "seeded", sid)
    os.makedirs(dst, exist_ok=True)
    for f in ("patch.diff", "demo.py", "compat_shim.py"):
        if os.path.exists(os.path.join(src, f)):
            shutil.copy(os.path.join(src, f), os.path.join(dst, f))
    meta = json.load(open(os.path.join(src, "meta.json")))
    res = None
    for ln in open(log):
        if ln.startswith("RESULT "):
            res = json.loads(ln[7:])
    out = {
        "id": sid,
        "property": meta.get("property"),
        "summary": meta.get("summary"),
        "needs_to_manifest": meta.get("needs_to_manifest"),
        "why_tests_still_pass": meta.get("why_tests_still_pass"),
        "files": meta.get("files"),
        "origin": "written by an independent sub-agent that saw only the property text and a scratch worktree of /repo (nothing from /verif)",
        "confirmed": {
            "how": "tools/seed_eval.py: scratch copy of /repo; demo.py exit code on the clean copy and with patch.diff applied; repo test suite on the patched copy "
                   "compared with BASELINE.json stable_pass; then `SOPHT_REPO=<patched copy> bin/check <ID> --tier quick`",
            "demo_clean_rc": res and res.get("demo_clean_rc"),
            "demo_patched_rc": res and res.get("demo_patched_rc"),
            "repo_tests_passed_with_patch": res and res.get("tests_passed"),
            "stable_baseline_tests_lost": res and res.get("stable_missing"),
        },
        "our_checks": res and res.get("verdicts"),
        "note": note,
    }
    with open(os.path.join(dst, "meta.json"), "w") as f:
        json.dump(out, f, indent=1)
    print("kept", dst)


if __name__ == "__main__":
    main()
