#!/bin/bash
# tools/mut.sh <patch-file|-e 'sed-expr' file> -- <CHECK-ID>... : run checks against a scratch copy of /repo with a change applied
# usage: tools/mut.sh path/to/patch.diff C03 C01        (patch is applied with `git apply` / patch -p1)
#        tools/mut.sh --sed 's/a/b/' sopht/x.py C03      (quick one-line mutation)
set -u
HERE="$(cd "$(dirname "${BASH_SOURCE[0]}")/.." && pwd)"
# fixed slots keep path + mtimes of unmodified files stable => numba's disk cache is reused between runs
T="${RV_TMP:-$HOME/.rv-tmp}"; mkdir -p "$T"; SCR=""
for k in 0 1 2 3 4 5 6 7 8 9 10 11; do
  mkdir -p "$T/slot-$k"; if mkdir "$T/slot-$k/LOCK" 2>/dev/null; then SCR="$T/slot-$k"; break; fi
done
if [ -z "$SCR" ]; then SCR="$(mktemp -d "$T/mut-XXXXXX")"; trap 'rm -rf "$SCR"' EXIT
else trap 'rsync -a --delete --exclude .git --exclude __pycache__ /repo/ "$SCR/repo/"; rmdir "$SCR/LOCK"' EXIT; fi
rsync -a --delete --exclude .git --exclude __pycache__ /repo/ "$SCR/repo/"
if [ "$1" = "--sed" ]; then
  sed -i "$2" "$SCR/repo/$3" || exit 3
  if diff -q "/repo/$3" "$SCR/repo/$3" >/dev/null; then echo "MUTATION DID NOT CHANGE $3"; exit 3; fi
  shift 3
else
  PATCHF="$(realpath "$1")"
  (cd "$SCR/repo" && patch -p1 --quiet < "$PATCHF") || { echo "patch failed"; exit 3; }
  shift 1
fi
rc_all=0
for id in "$@"; do
  SOPHT_REPO="$SCR/repo" RV_TIER_OVERRIDE= "$HERE/bin/check" "$id" --tier "${MUT_TIER:-quick}" --no-evidence 2>&1 | grep -E "^(VIOLATION|KNOWN-FINDING|INCONCLUSIVE|HELD|  mechanism|  max err|C[0-9]+ tier)" | head -${MUT_LINES:-6}
done
