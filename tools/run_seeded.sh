#!/bin/bash
# Regression of the checks against the kept independently written changes: for every seeded/<id>/ apply patch.diff to a scratch
# copy of /repo (never to /repo itself) and run the target property's quick check; expected verdict: VIOLATION.
# usage: tools/run_seeded.sh [id ...]
HERE="$(cd "$(dirname "${BASH_SOURCE[0]}")/.." && pwd)"
cd "$HERE"
ids="$@"; [ -z "$ids" ] && ids=$(ls seeded)
miss=0
for id in $ids; do
  prop=$(python3 -c "import json;print(json.load(open('seeded/$id/meta.json'))['property'])")
  out=$(MUT_LINES=60 tools/mut.sh seeded/$id/patch.diff $prop 2>&1 | grep -E "^(VIOLATION|HELD|INCONCLUSIVE)" | head -1 | cut -d' ' -f1)
  echo "$id $prop ${out:-NO-VERDICT}"
  [ "$out" = "VIOLATION" ] || miss=$((miss+1))
done
echo "not caught: $miss"
exit $((miss>0))
