#!/usr/bin/env python3
"""Confirm an independently written property-breaking change and run our checks against it.

usage: tools/seed_eval.py <dir with patch.diff demo.py meta.json> <CHECK-ID>... [--no-tests] [--tier quick]

1. scratch copy of /repo; demo must PASS (exit 0) on it
2. apply patch.diff; demo must FAIL (exit != 0)
3. repo test suite on the patched copy: every test of BASELINE.json's stable_pass list must still pass
4. run the named checks against the patched copy (SOPHT_REPO) and print their verdict lines
The scratch copy is removed afterwards.  Nothing is applied to /repo.
"""
import json
import os
import shutil
import subprocess
import sys
import tempfile
import xml.etree.ElementTree as ET

ROOT = os.path.dirname(os.path.dirname(os.path.abspath(__file__)))
TMP = os.environ.get("RV_TMP", os.path.expanduser("~/.rv-tmp"))


def run_demo(d, repo):
    env = dict(os.environ, PYTHONPATH=f"{repo}:{d}", NUMBA_CACHE_DIR=os.path.join(TMP, "numba-seed"), PYTHONDONTWRITEBYTECODE="1", MPLBACKEND="Agg")
    work = tempfile.mkdtemp(prefix="demo-", dir=TMP)
    try:
        r = subprocess.run(["/venv/bin/python", os.path.join(d, "demo.py")], cwd=work, env=env, capture_output=True, text=True, timeout=1500)
    except subprocess.TimeoutExpired:
        return 124, "timeout"
    finally:
        shutil.rmtree(work, ignore_errors=True)
    return r.returncode, (r.stdout + r.stderr)[-600:]


def main():
    args = [a for a in sys.argv[1:] if not a.startswith("--")]
    flags = [a for a in sys.argv[1:] if a.startswith("--")]
    d = os.path.abspath(args[0])
    checks = args[1:]
    tier = "quick"
    for f in flags:
        if f.startswith("--tier="):
            tier = f.split("=")[1]
    os.makedirs(TMP, exist_ok=True)
    # fixed slots (instead of fresh temp dirs) keep the path and mtimes of unmodified files stable, so numba's on-disk
    # cache (keyed by file path + mtime) is reused from one evaluation to the next
    scr = None
    for k in range(12):
        cand = os.path.join(TMP, f"slot-{k}")
        try:
            os.makedirs(cand, exist_ok=True)
            os.mkdir(os.path.join(cand, "LOCK"))
            scr = cand
            break
        except FileExistsError:
            continue
    if scr is None:
        scr = tempfile.mkdtemp(prefix="seed-", dir=TMP)
    repo = os.path.join(scr, "repo")
    res = {"dir": d}
    try:
        subprocess.run(["rsync", "-a", "--delete", "--exclude", ".git", "--exclude", "__pycache__", "/repo/", repo + "/"], check=True)
        if os.path.exists("/tmp/wt/compat_shim.py") and not os.path.exists(os.path.join(d, "compat_shim.py")):
            shutil.copy("/tmp/wt/compat_shim.py", os.path.join(d, "compat_shim.py"))
        rc0, out0 = run_demo(d, repo)
        res["demo_clean_rc"] = rc0
        r = subprocess.run(["patch", "-p1", "--quiet", "-i", os.path.join(d, "patch.diff")], cwd=repo, capture_output=True, text=True)
        if r.returncode != 0:
            print("PATCH FAILED", r.stdout, r.stderr)
            res["patch"] = "failed"
            print(json.dumps(res))
            return 3
        rc1, out1 = run_demo(d, repo)
        res["demo_patched_rc"] = rc1
        print(f"demo: clean rc={rc0} patched rc={rc1}")
        if rc0 != 0:
            print("  clean output:", out0[-300:])
        if rc1 == 0:
            print("  patched output:", out1[-300:])
        if "--no-tests" not in flags:
            junit = os.path.join(scr, "junit.xml")
            subprocess.run(["/venv/bin/python", "-m", "pytest", "-q", "-p", "no:cacheprovider", "--timeout=900", "--continue-on-collection-errors", "-n", os.environ.get("SEED_NPROC", "6"),
                            f"--junitxml={junit}"], cwd=repo, env=dict(os.environ, PYTHONPATH=repo, PYTHONDONTWRITEBYTECODE="1"), capture_output=True, text=True, timeout=3000)
            passed = set()
            for tc in ET.parse(junit).iter("testcase"):
                if not any(ch.tag in ("failure", "error", "skipped") for ch in tc):
                    passed.add(f"{tc.get('classname')}::{tc.get('name')}")
            stable = set(json.load(open("/root/.vp/BASELINE.json"))["stable_pass"])
            missing = sorted(stable - passed)
            if missing and len(missing) <= 40:
                # the IO tests share file names in the working directory and race under xdist: re-run the lost ones serially
                ids = []
                for m in missing:
                    cls, name = m.split("::", 1)
                    ids.append(cls.replace(".", "/") + ".py::" + name)
                j2 = os.path.join(scr, "junit2.xml")
                subprocess.run(["/venv/bin/python", "-m", "pytest", "-q", "-p", "no:cacheprovider", "--timeout=900", "-p", "no:xdist", f"--junitxml={j2}"] + ids, cwd=repo,
                               env=dict(os.environ, PYTHONPATH=repo, PYTHONDONTWRITEBYTECODE="1"), capture_output=True, text=True, timeout=3000)
                if os.path.exists(j2):
                    for tc in ET.parse(j2).iter("testcase"):
                        if not any(ch.tag in ("failure", "error", "skipped") for ch in tc):
                            passed.add(f"{tc.get('classname')}::{tc.get('name')}")
                res["rerun_serially"] = missing
            res["tests_passed"] = len(passed)
            res["stable_missing"] = sorted(stable - passed)[:5]
            print(f"tests: {len(passed)} passed; stable baseline tests no longer passing: {len(stable - passed)} {sorted(stable - passed)[:3]}")
        verdicts = {}
        for c in checks:
            r = subprocess.run([os.path.join(ROOT, "bin", "check"), c, "--tier", tier, "--no-evidence"], env=dict(os.environ, SOPHT_REPO=repo), capture_output=True, text=True)
            lines = [ln for ln in r.stdout.splitlines() if ln.startswith(("VIOLATION", "HELD", "INCONCLUSIVE", "KNOWN-FINDING", "  mechanism"))]
            mech = sorted({ln.split("mechanism=")[1].split(" shard=")[0] for ln in lines if "mechanism=" in ln})
            verdicts[c] = {"rc": r.returncode, "mechanisms": mech[:8]}
            print(f"{c}: rc={r.returncode} {'VIOLATION' if r.returncode == 1 else 'HELD' if r.returncode == 0 else 'INCONCLUSIVE'} {mech[:6]}")
            if r.returncode == 2:
                print("   ", [ln for ln in lines if ln.startswith("INCONCLUSIVE")][:2])
        res["verdicts"] = verdicts
        print("RESULT " + json.dumps(res))
    finally:
        if os.path.basename(scr).startswith("slot-"):
            subprocess.run(["rsync", "-a", "--delete", "--exclude", ".git", "--exclude", "__pycache__", "/repo/", repo + "/"])
            for f in os.listdir(scr):
                if f not in ("repo", "LOCK"):
                    pth = os.path.join(scr, f)
                    shutil.rmtree(pth, ignore_errors=True) if os.path.isdir(pth) else os.remove(pth)
            os.rmdir(os.path.join(scr, "LOCK"))
        else:
            shutil.rmtree(scr, ignore_errors=True)
    return 0


if __name__ == "__main__":
    sys.exit(main())
