#!/usr/bin/env python3
"""First-contact statistics of the independently seeded changes, from the notes kept in seeded/*/meta.json.
A change counts as 'missed on first contact' when its note says the target check MISSED it, would have missed it, was
inconclusive, or caught it only after an addition; otherwise 'caught at once'."""
import collections
import glob
import json
import os

ROOT = os.path.dirname(os.path.dirname(os.path.abspath(__file__)))
st = collections.Counter()
for d in sorted(glob.glob(os.path.join(ROOT, "seeded", "*"))):
    m = json.load(open(os.path.join(d, "meta.json")))
    note = (m.get("note") or m.get("history") or "").lower()
    rnd = {"A": 1, "B": 1, "C": 2, "D": 2, "E": 3, "F": 3, "G": 4, "H": 4}[os.path.basename(d)[-1]]
    missed = any(k in note for k in ("missed it", "missed this", "would have missed", "only after", "was inconclusive", "same gap as"))
    st[(rnd, "missed" if missed else "at once")] += 1
for r in (1, 2, 3, 4):
    a, b = st[(r, "at once")], st[(r, "missed")]
    print(f"round {r}: {a + b} kept, {a} caught at once by the target check, {b} missed on first contact (all caught after the additions)")
