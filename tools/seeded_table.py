#!/usr/bin/env python3
"""Regenerate the seeded-changes table of DESIGN.md §10 from seeded/*/meta.json (between the SEEDED_TABLE markers)."""
import glob
import json
import os

ROOT = os.path.dirname(os.path.dirname(os.path.abspath(__file__)))
BEGIN, END = "<!-- SEEDED_TABLE_BEGIN -->", "<!-- SEEDED_TABLE_END -->"


def main():
    rows = []
    for f in sorted(glob.glob(os.path.join(ROOT, "seeded", "*", "meta.json"))):
        m = json.load(open(f))
        v = m.get("our_checks") or {}
        caught = [f"{c}: {', '.join(x['mechanisms'][:3])}" for c, x in v.items() if x["rc"] == 1]
        held = [c for c, x in v.items() if x["rc"] == 0]
        summ = (m.get("summary") or "").replace("|", "/").replace("\n", " ")
        needs = (m.get("needs_to_manifest") or "").replace("|", "/").replace("\n", " ")
        rows.append(f"| {m['id']} | {summ[:230]}{'…' if len(summ) > 230 else ''} | {needs[:200]}{'…' if len(needs) > 200 else ''} | "
                    f"{'; '.join(caught) or '—'} | {', '.join(held) or '—'} | {(m.get('note') or '').replace('|', '/')} |")
    table = "\n".join([
        BEGIN,
        "| id | change (adversary's summary) | needs to manifest | caught by (quick tier): mechanisms | also run, silent | history |",
        "|---|---|---|---|---|---|",
        *rows,
        END,
    ])
    p = os.path.join(ROOT, "DESIGN.md")
    s = open(p).read()
    if BEGIN in s:
        s = s[: s.index(BEGIN)] + table + s[s.index(END) + len(END):]
    else:
        s = s.replace("SEEDED_TABLE_PLACEHOLDER", table)
    open(p, "w").write(s)
    print(len(rows), "rows")


if __name__ == "__main__":
    main()
